#!/usr/bin/env python3
"""Print id -> property -> detecting family:class for every seeded change."""
import json, glob, re
for d in sorted(glob.glob('/verif/seeded/*/meta.json')):
    m = json.load(open(d))
    out = []
    for p, c in m.get('checks_run', {}).items():
        cls = set()
        for l in c['lines']:
            if l.startswith('VIOLATION'):
                fam = re.search(r'family=(\S+)', l); cl = re.search(r'class=(\S+)', l)
                cls.add(f"{fam.group(1) if fam else '?'}:{cl.group(1) if cl else '?'}")
        out.append(f"{p}:{'DETECTED' if c['detected'] else 'missed'} {sorted(cls)}")
    print(f"{m['id']:18} breaks {m['breaks_property']}  {'; '.join(out)}{'  [strengthened, see history]' if 'history' in m else ''}")
