#!/bin/bash
# usage: try_mutant.sh <id> <PROP> [extra check args]
# Applies /verif/seeded/<id>/patch.diff to /repo, runs ./check PROP (quick), always reverts.
set -u
ID="$1"; PROP="$2"; shift 2
cd /repo || exit 2
if [ -n "$(git status --porcelain)" ]; then echo "/repo not clean"; exit 2; fi
git apply /verif/seeded/$ID/patch.diff || { echo "apply failed"; exit 2; }
cd /verif
./check $PROP "$@" > /verif/seeded/$ID/check_$PROP.log 2>&1
RC=$?
git -C /repo checkout -- .
echo "rc=$RC"; grep -E "^(VIOLATION|OK|HARNESS|KNOWN)" /verif/seeded/$ID/check_$PROP.log | cut -c1-400
