#!/bin/bash
# usage: try_mutant.sh <id> <PROP> [extra check args]
# Applies /verif/seeded/<id>/patch.diff to /repo, runs ./check PROP (quick), always reverts.
set -u
ID="$1"; PROP="$2"; shift 2
cd /repo || exit 2
if [ -n "$(git status --porcelain)" ]; then echo "/repo not clean"; exit 2; fi
git apply /verif/seeded/$ID/patch.diff || { echo "apply failed"; exit 2; }
cd /verif
# evidence written while a mutant is applied must not replace the unchanged tree's evidence
rm -rf /verif/target/evidence.keep; cp -r /verif/evidence /verif/target/evidence.keep
touch /tmp/.try_mutant_stamp
./check $PROP "$@" > /verif/seeded/$ID/check_$PROP.log 2>&1
RC=$?
git -C /repo checkout -- .
mkdir -p /verif/seeded/$ID/evidence; cp /verif/evidence/$PROP.json /verif/seeded/$ID/evidence/ 2>/dev/null
rm -rf /verif/evidence; mv /verif/target/evidence.keep /verif/evidence
# replay files written while the mutant was applied belong to the mutant, not to the tree
mkdir -p /verif/seeded/$ID/replays
find /verif/replays -name '*.json' -newer /tmp/.try_mutant_stamp -exec mv {} /verif/seeded/$ID/replays/ \;
sed -i "s#/verif/replays/#/verif/seeded/$ID/replays/#g" /verif/seeded/$ID/check_$PROP.log
echo "rc=$RC"; grep -E "^(VIOLATION|OK|HARNESS|KNOWN)" /verif/seeded/$ID/check_$PROP.log | cut -c1-400
