#!/bin/bash
# one-line summary of a mutant verification log
for i in "$@"; do
  f=/verif/seeded/$i/verify.log
  sf=$(sed -n '/baseline suite/,/demo WITH/p' $f | grep -cE "FAILED|[1-9][0-9]* failed")
  w=$(sed -n '/demo WITH the change/,/demo WITHOUT/p' $f | grep -cE "panicked|FAILED")
  wo=$(sed -n '/demo WITHOUT the change/,$p' $f | grep -cE "panicked|FAILED")
  wok=$(sed -n '/demo WITHOUT the change/,$p' $f | grep -c "test result: ok")
  echo "$i: suite_failures=$sf demo_with_change_fail_lines=$w demo_without_fail_lines=$wo demo_without_ok=$wok"
done
