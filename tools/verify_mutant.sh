#!/bin/bash
# usage: verify_mutant.sh <worktree> <deliver-subdir> <id> <features or ->
# Confirms in the scratch worktree: the change compiles, the existing suite passes with it,
# the demo fails with it and passes without it. Writes /verif/seeded/<id>/{patch.diff,demo.rs,verify.log}.
set -u
WT="$1"; SUB="$2"; ID="$3"; FEAT="${4:--}"
OUT=/verif/seeded/$ID
mkdir -p "$OUT"
cp "$WT/deliver/$SUB/patch.diff" "$OUT/patch.diff"
cp "$WT/deliver/$SUB/demo.rs" "$OUT/demo.rs" 2>/dev/null
cp "$WT/deliver/$SUB/meta.md" "$OUT/agent_meta.md" 2>/dev/null
cd "$WT" || exit 2
export CARGO_NET_OFFLINE=true
git checkout -q -- . ; rm -f tests/zz_demo_*.rs
FEATARGS=""
[ "$FEAT" != "-" ] && FEATARGS="--features $FEAT"
{
echo "== verify $ID in $WT ($(date -u +%FT%TZ))"
git apply --check "$OUT/patch.diff" && echo "patch applies: yes" || { echo "patch applies: NO"; exit 1; }
git apply "$OUT/patch.diff"
echo "== baseline suite WITH the change (default features)"
cargo test --workspace --no-fail-fast --offline 2>&1 | grep -E "^test result|FAILED|failed|error(\[|:)" | sort | uniq -c | sort -rn | head -8
if [ "$FEAT" != "-" ]; then
  echo "== suite WITH the change ($FEAT)"
  cargo test --no-fail-fast --offline $FEATARGS 2>&1 | grep -E "^test result|FAILED|failed|error(\[|:)" | sort | uniq -c | sort -rn | head -8
fi
cp "$OUT/demo.rs" tests/zz_demo_$ID.rs
echo "== demo WITH the change (expected: fails)"
for i in 1 2 3; do timeout 600 cargo test --offline $FEATARGS --test zz_demo_$ID 2>&1 | grep -E "^test result|panicked" | head -3; done
git apply -R "$OUT/patch.diff"
echo "== demo WITHOUT the change (expected: passes)"
for i in 1 2 3; do timeout 600 cargo test --offline $FEATARGS --test zz_demo_$ID 2>&1 | grep -E "^test result|panicked" | head -3; done
rm -f tests/zz_demo_$ID.rs
git checkout -q -- .
echo "== done"
} > "$OUT/verify.log" 2>&1
tail -n 40 "$OUT/verify.log"
