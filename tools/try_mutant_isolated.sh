#!/bin/bash
# usage: try_mutant_isolated.sh <id> <PROP> [extra check args]
# Same as try_mutant.sh, but nothing in /repo or /verif is touched while the mutant is applied:
# the patch is applied in a scratch worktree of /repo (/tmp/mrepo) and the checks are built and
# run from a scratch copy of /verif (/tmp/mverif) whose shadow manifest points at that worktree.
# (Used while long background runs that read /repo itself are in progress.)
set -u
ID="$1"; PROP="$2"; shift 2
MR=/tmp/mrepo; MV=/tmp/mverif
if [ ! -d $MR ]; then git -C /repo worktree add -q --detach $MR HEAD || exit 2; fi
git -C $MR checkout -q --detach "$(git -C /repo rev-parse HEAD)" 2>/dev/null; git -C $MR checkout -q -- .
mkdir -p $MV
rsync -a --delete --exclude target --exclude .git --exclude seeded --exclude replays --exclude evidence /verif/ $MV/
mkdir -p $MV/replays $MV/evidence
sed -i "s#/repo/src/lib.rs#$MR/src/lib.rs#; s#/repo/repe-derive#$MR/repe-derive#" $MV/shadow/Cargo.toml
git -C $MR apply /verif/seeded/$ID/patch.diff || { echo "apply failed"; exit 2; }
( cd $MV && ./check $PROP "$@" ) > /verif/seeded/$ID/check_$PROP.log 2>&1
RC=$?
git -C $MR checkout -q -- .
mkdir -p /verif/seeded/$ID/replays /verif/seeded/$ID/evidence
cp $MV/replays/*.json /verif/seeded/$ID/replays/ 2>/dev/null
cp $MV/evidence/$PROP.json /verif/seeded/$ID/evidence/ 2>/dev/null
sed -i "s#$MV/replays/#/verif/seeded/$ID/replays/#g" /verif/seeded/$ID/check_$PROP.log
echo "rc=$RC"; grep -E "^(VIOLATION|OK|HARNESS|KNOWN)" /verif/seeded/$ID/check_$PROP.log | cut -c1-400
