#!/bin/bash
# usage: process_agent.sh <worktree> <PROP> <idA> <idB>
# verify both delivered mutants in the agent's worktree, then run the property's quick check against each
WT="$1"; PROP="$2"; IDA="$3"; IDB="$4"
for pair in "A:$IDA" "B:$IDB"; do
  SUB="${pair%%:*}"; ID="${pair##*:}"
  [ -f "$WT/deliver/$SUB/patch.diff" ] || { echo "$ID: no patch"; continue; }
  /verif/tools/verify_mutant.sh "$WT" "$SUB" "$ID" websocket,value-stream > /dev/null 2>&1
  /verif/tools/try_mutant_isolated.sh "$ID" "$PROP" 2>&1 | tail -n +1 | cut -c1-330
  NEEDS=$(grep -i -A6 "needs to manifest" "$WT/deliver/$SUB/meta.md" | tail -n +2 | tr '\n' ' ' | cut -c1-500)
  python3 /verif/tools/mkmeta.py "$ID" "$PROP" "independent sub-agent (given only the property text and a scratch worktree)" "$NEEDS"
done
