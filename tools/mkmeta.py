#!/usr/bin/env python3
"""mkmeta.py <id> <PROP> <source> <needs...>  -> /verif/seeded/<id>/meta.json"""
import sys, json, os, re, glob
sid, prop, source = sys.argv[1:4]
needs = " ".join(sys.argv[4:])
d = f"/verif/seeded/{sid}"
checks = {}
for f in glob.glob(f"{d}/check_*.log"):
    p = os.path.basename(f)[6:-4]
    lines = [l.strip()[:300] for l in open(f) if re.match(r"^(VIOLATION|OK|HARNESS|KNOWN)", l)]
    checks[p] = {"detected": any(l.startswith("VIOLATION") for l in lines), "lines": lines}
ver = None
if os.path.exists(f"{d}/verify.log"):
    t = open(f"{d}/verify.log").read()
    w = t.split("== demo WITH the change")[1].split("== demo WITHOUT")[0] if "== demo WITH the change" in t else ""
    wo = t.split("== demo WITHOUT the change")[1] if "== demo WITHOUT the change" in t else ""
    suite = t.split("== demo WITH the change")[0]
    ver = {
      "patch_applies": "patch applies: yes" in t,
      "existing_suite_failures_with_change": len(re.findall(r"FAILED|[1-9]\d* failed", suite)),
      "demo_fails_with_change": ("panicked" in w) or ("FAILED" in w),
      "demo_passes_without_change": ("FAILED" not in wo and "panicked" not in wo and "test result: ok" in wo),
      "how": "tools/verify_mutant.sh in the agent's scratch worktree: apply patch, cargo test --workspace --no-fail-fast --offline and --features websocket,value-stream, demo x3 with the change, demo x3 without",
    }
meta = {"id": sid, "breaks_property": prop, "source": source, "needs_to_manifest": needs,
        "confirmed": ver, "checks_run": checks,
        "what_i_ran": f"tools/try_mutant.sh or tools/try_mutant_isolated.sh {sid} {prop}  (apply patch.diff to /repo - or to a scratch worktree of it with a scratch copy of /verif pointing there -, ./check {prop} --tier quick, undo)"}
json.dump(meta, open(f"{d}/meta.json","w"), indent=1)
print(sid, {k:v["detected"] for k,v in checks.items()}, ver and (ver["demo_fails_with_change"], ver["demo_passes_without_change"]))
