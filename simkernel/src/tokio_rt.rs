//! The tokio world: a current-thread runtime with a paused clock, driven from simulated
//! thread 0. tokio's clock is the master clock of such a run; simulated sockets
//! (`tokio_net`) deliver through tokio timers, repo-internal timeouts fire through
//! auto-advance, and code the repository runs *off* the runtime (`spawn_blocking`,
//! `std::thread::spawn`) becomes simulated threads that run only when the runtime thread
//! hands them the baton (the pump, below). See DESIGN.md §2.3.

use crate::kernel::{self, IDLE_RES};
use std::cell::{Cell, RefCell};
use std::future::Future;
use std::pin::Pin;
use std::sync::Arc;
use std::task::{Context, Poll};
use std::time::Duration;

thread_local! {
    static RT_BASE: Cell<Option<tokio::time::Instant>> = const { Cell::new(None) };
    static SPAWN_NOTIFY: RefCell<Option<Arc<tokio::sync::Notify>>> = const { RefCell::new(None) };
}

static GLOBAL_NOTIFY: std::sync::Mutex<Option<Arc<tokio::sync::Notify>>> = std::sync::Mutex::new(None);

/// Simulated nanoseconds according to tokio's (paused) clock, if the caller is the runtime
/// thread of a tokio-mode run.
pub fn rt_now() -> Option<u64> {
    RT_BASE.with(|b| b.get()).map(|base| {
        let d = tokio::time::Instant::now().saturating_duration_since(base);
        d.as_nanos().min(u64::MAX as u128) as u64
    })
}

pub fn on_rt_thread() -> bool {
    RT_BASE.with(|b| b.get().is_some())
}

/// The tokio instant that corresponds to simulated time `ns` (runtime thread only).
pub fn instant_at(ns: u64) -> tokio::time::Instant {
    let base = RT_BASE.with(|b| b.get()).expect("instant_at outside the tokio runtime thread");
    base + Duration::from_nanos(ns)
}

/// Called by the kernel whenever a simulated thread is created: wakes the pump.
pub(crate) fn thread_spawned() {
    let n = GLOBAL_NOTIFY.lock().unwrap_or_else(|e| e.into_inner()).clone();
    if let Some(n) = n {
        n.notify_one();
    }
}

/// The scenario did not finish within its simulated-time budget (every timer in the run
/// has fired long before): something is waiting for an event that will never come.
#[derive(Debug)]
pub struct Hang;

/// Hands the baton to foreign threads whenever the runtime is otherwise idle.
async fn pump(notify: Arc<tokio::sync::Notify>) {
    let Some((k, me)) = kernel::current() else { return std::future::pending().await };
    loop {
        if k.live_others(me) == 0 {
            notify.notified().await;
            continue;
        }
        // With a paused clock a sleep completes only once every other task is idle.
        tokio::time::sleep(Duration::from_millis(1)).await;
        let now = rt_now().unwrap_or(0);
        k.fire_deadlines(now);
        if k.others_runnable(me) {
            k.block(me, IDLE_RES, None, "tokio runtime idle: foreign threads run");
        }
    }
}

/// Let foreign threads that are runnable right now run (a scheduling point for the
/// runtime thread; used at simulated-I/O polls so foreign threads interleave with tasks).
pub fn yield_to_foreign() {
    if let Some((k, me)) = kernel::current()
        && on_rt_thread()
        && k.others_runnable(me)
    {
        k.yield_now(me);
    }
}

/// How many simulated threads other than the caller have not finished yet.
pub fn live_foreign_threads() -> usize {
    match kernel::current() {
        Some((k, me)) => k.live_others(me),
        None => 0,
    }
}

/// Run `fut` to completion on a fresh deterministic runtime owned by the calling simulated
/// thread (which must be thread 0 of a run started with `external_clock`).
pub fn block_on<F: Future>(budget: Duration, fut: F) -> Result<F::Output, Hang> {
    let mut seed = [0u8; 16];
    for chunk in seed.chunks_mut(2) {
        let v = kernel::choose(1 << 16);
        chunk[0] = v as u8;
        chunk[1] = (v >> 8) as u8;
    }
    let rt = tokio::runtime::Builder::new_current_thread()
        .enable_time()
        .start_paused(true)
        .rng_seed(tokio::runtime::RngSeed::from_bytes(&seed))
        .build()
        .expect("tokio runtime");
    pool_reset();
    let notify = Arc::new(tokio::sync::Notify::new());
    *GLOBAL_NOTIFY.lock().unwrap_or_else(|e| e.into_inner()) = Some(notify.clone());
    let out = rt.block_on(async {
        let offset = kernel::current().map(|(k, _)| k.now()).unwrap_or(0);
        RT_BASE.with(|b| b.set(Some(tokio::time::Instant::now() - Duration::from_nanos(offset))));
        let r = tokio::select! {
            biased;
            r = tokio::time::timeout(budget, fut) => r.map_err(|_| Hang),
            _ = pump(notify.clone()) => Err(Hang),
        };
        // make the final simulated time visible to the kernel before the clock goes away
        let _ = kernel::now_ns();
        r
    });
    // Dropping the runtime drops every task (closing their simulated sockets) while the
    // clock is still readable.
    drop(rt);
    RT_BASE.with(|b| b.set(None));
    *GLOBAL_NOTIFY.lock().unwrap_or_else(|e| e.into_inner()) = None;
    out
}

/// Park the calling *foreign* thread until `pred()` holds. The predicate is re-evaluated
/// every simulated millisecond (the pump fires kernel deadlines on each tick). Used in
/// front of calls that would otherwise block the OS thread inside tokio
/// (`blocking_send`, `blocking_recv`).
pub fn block_until(mut pred: impl FnMut() -> bool) {
    let Some((k, me)) = kernel::current() else { return };
    if on_rt_thread() {
        return;
    }
    let res = kernel::new_res();
    loop {
        if pred() {
            return;
        }
        let deadline = k.now().saturating_add(1_000_000);
        k.block(me, res, Some(deadline), "block_until (foreign blocking call into tokio)");
    }
}

// ------------------------------------------------------------------ spawn_blocking shim

/// Stand-in for `tokio` in function bodies that call `tokio::task::spawn_blocking(..)`:
/// the closure runs on a simulated thread instead of tokio's blocking pool.
pub mod tokio_shim {
    pub use ::tokio::*;
    pub mod task {
        pub use ::tokio::task::*;
        pub use super::super::{JoinHandle, spawn_blocking};
    }
}

#[derive(Debug)]
pub struct JoinError {
    panicked: bool,
}
impl JoinError {
    pub fn is_panic(&self) -> bool {
        self.panicked
    }
    pub fn is_cancelled(&self) -> bool {
        !self.panicked
    }
}
impl std::fmt::Display for JoinError {
    fn fmt(&self, f: &mut std::fmt::Formatter<'_>) -> std::fmt::Result {
        if self.panicked { f.write_str("task panicked") } else { f.write_str("task was cancelled") }
    }
}
impl std::error::Error for JoinError {}

pub struct JoinHandle<T> {
    rx: tokio::sync::oneshot::Receiver<std::thread::Result<T>>,
}

impl<T> Future for JoinHandle<T> {
    type Output = Result<T, JoinError>;
    fn poll(mut self: Pin<&mut Self>, cx: &mut Context<'_>) -> Poll<Self::Output> {
        match Pin::new(&mut self.rx).poll(cx) {
            Poll::Pending => Poll::Pending,
            Poll::Ready(Ok(Ok(v))) => Poll::Ready(Ok(v)),
            Poll::Ready(Ok(Err(_))) => Poll::Ready(Err(JoinError { panicked: true })),
            Poll::Ready(Err(_)) => Poll::Ready(Err(JoinError { panicked: false })),
        }
    }
}

/// The simulated blocking pool: at most `limit` closures run at once (0 = no limit, the
/// default); further ones queue in FIFO order until a running one finishes - what tokio does
/// when `max_blocking_threads` is reached.
struct BlockingPool {
    limit: usize,
    running: usize,
    queue: std::collections::VecDeque<Box<dyn FnOnce() + Send>>,
}
static POOL: std::sync::Mutex<BlockingPool> = std::sync::Mutex::new(BlockingPool { limit: 0, running: 0, queue: std::collections::VecDeque::new() });

/// Set the size of the simulated blocking pool for the current run (reset by `block_on`).
pub fn set_blocking_pool_limit(limit: usize) {
    POOL.lock().unwrap_or_else(|e| e.into_inner()).limit = limit;
}

fn pool_reset() {
    let mut p = POOL.lock().unwrap_or_else(|e| e.into_inner());
    p.limit = 0;
    p.running = 0;
    p.queue.clear();
}

/// Run `job` on a simulated thread now, or queue it if the pool is full.
fn pool_submit(job: Box<dyn FnOnce() + Send>) {
    let run_now = {
        let mut p = POOL.lock().unwrap_or_else(|e| e.into_inner());
        if p.limit == 0 || p.running < p.limit {
            p.running += 1;
            Some(job)
        } else {
            kernel::count("fault.blocking_pool_full_closure_queued");
            p.queue.push_back(job);
            None
        }
    };
    if let Some(job) = run_now {
        pool_start(job);
    }
}

fn pool_start(job: Box<dyn FnOnce() + Send>) {
    let wrapped = move || {
        job();
        // hand the pool thread to the next queued closure, if any
        let next = {
            let mut p = POOL.lock().unwrap_or_else(|e| e.into_inner());
            match p.queue.pop_front() {
                Some(n) => Some(n),
                None => {
                    p.running = p.running.saturating_sub(1);
                    None
                }
            }
        };
        if let Some(n) = next {
            pool_start(n);
        }
    };
    match kernel::current() {
        Some((k, _)) => {
            k.spawn_thread("blocking".to_string(), Box::new(wrapped));
        }
        None => {
            std::thread::spawn(wrapped);
        }
    }
}

pub fn spawn_blocking<F, R>(f: F) -> JoinHandle<R>
where
    F: FnOnce() -> R + Send + 'static,
    R: Send + 'static,
{
    let (tx, rx) = tokio::sync::oneshot::channel();
    kernel::count("tokio.spawn_blocking");
    let body = move || {
        let r = std::panic::catch_unwind(std::panic::AssertUnwindSafe(f));
        let r = match r {
            Ok(v) => Ok(v),
            Err(p) => {
                if let Some(msg) = kernel::describe_panic(&*p)
                    && let Some((k, _)) = kernel::current()
                {
                    k.record_panic(format!("blocking task: {msg}"));
                }
                Err(p)
            }
        };
        let _ = tx.send(r);
    };
    pool_submit(Box::new(body));
    if kernel::current().is_some() {
        yield_to_foreign();
    }
    JoinHandle { rx }
}

// ------------------------------------------------------------------ tokio::sync::mpsc shim

/// `tokio::sync::mpsc` with one difference: `Sender::blocking_send` parks the calling
/// simulated thread in the kernel (re-evaluated every simulated millisecond) instead of
/// blocking the OS thread inside tokio. Everything else is tokio's own channel.
pub mod tokio_mpsc {
    pub use tokio::sync::mpsc::{Receiver, error};
    use tokio::sync::mpsc::error::{SendError, TrySendError};

    pub struct Sender<T>(tokio::sync::mpsc::Sender<T>);

    impl<T> Clone for Sender<T> {
        fn clone(&self) -> Self {
            Sender(self.0.clone())
        }
    }
    impl<T> std::fmt::Debug for Sender<T> {
        fn fmt(&self, f: &mut std::fmt::Formatter<'_>) -> std::fmt::Result {
            f.write_str("sim::mpsc::Sender")
        }
    }

    pub fn channel<T>(buffer: usize) -> (Sender<T>, Receiver<T>) {
        let (tx, rx) = tokio::sync::mpsc::channel(buffer);
        (Sender(tx), rx)
    }

    impl<T> Sender<T> {
        pub async fn send(&self, value: T) -> Result<(), SendError<T>> {
            self.0.send(value).await
        }
        pub fn try_send(&self, value: T) -> Result<(), TrySendError<T>> {
            self.0.try_send(value)
        }
        pub fn blocking_send(&self, value: T) -> Result<(), SendError<T>> {
            super::block_until(|| self.0.capacity() > 0 || self.0.is_closed());
            self.0.blocking_send(value)
        }
        /// (tokio's own; a reserved slot counts against the capacity until it is used or dropped)
        pub fn try_reserve_owned(self) -> Result<tokio::sync::mpsc::OwnedPermit<T>, TrySendError<Sender<T>>> {
            self.0.try_reserve_owned().map_err(|e| match e {
                TrySendError::Full(s) => TrySendError::Full(Sender(s)),
                TrySendError::Closed(s) => TrySendError::Closed(Sender(s)),
            })
        }
        pub fn is_closed(&self) -> bool {
            self.0.is_closed()
        }
        pub fn capacity(&self) -> usize {
            self.0.capacity()
        }
        pub fn max_capacity(&self) -> usize {
            self.0.max_capacity()
        }
        pub fn same_channel(&self, other: &Self) -> bool {
            self.0.same_channel(&other.0)
        }
        pub async fn closed(&self) {
            self.0.closed().await
        }
    }
}
