//! `std::time::Instant` on the simulated clock.

use crate::kernel;
pub use std::time::Duration;
use std::ops::{Add, AddAssign, Sub, SubAssign};

#[derive(Copy, Clone, PartialEq, Eq, PartialOrd, Ord, Hash, Debug)]
pub struct Instant(u64);

fn dur_ns(d: Duration) -> u64 {
    d.as_nanos().min(u64::MAX as u128) as u64
}

impl Instant {
    pub fn now() -> Instant {
        Instant(kernel::now_ns())
    }
    pub fn as_nanos(&self) -> u64 {
        self.0
    }
    pub fn from_nanos(ns: u64) -> Instant {
        Instant(ns)
    }
    pub fn duration_since(&self, earlier: Instant) -> Duration {
        Duration::from_nanos(self.0.saturating_sub(earlier.0))
    }
    pub fn checked_duration_since(&self, earlier: Instant) -> Option<Duration> {
        self.0.checked_sub(earlier.0).map(Duration::from_nanos)
    }
    pub fn saturating_duration_since(&self, earlier: Instant) -> Duration {
        Duration::from_nanos(self.0.saturating_sub(earlier.0))
    }
    pub fn elapsed(&self) -> Duration {
        Instant::now().duration_since(*self)
    }
    pub fn checked_add(&self, d: Duration) -> Option<Instant> {
        let ns = u64::try_from(d.as_nanos()).ok()?;
        self.0.checked_add(ns).map(Instant)
    }
    pub fn checked_sub(&self, d: Duration) -> Option<Instant> {
        let ns = u64::try_from(d.as_nanos()).ok()?;
        self.0.checked_sub(ns).map(Instant)
    }
}

impl Add<Duration> for Instant {
    type Output = Instant;
    fn add(self, d: Duration) -> Instant {
        Instant(self.0.saturating_add(dur_ns(d)))
    }
}
impl AddAssign<Duration> for Instant {
    fn add_assign(&mut self, d: Duration) {
        *self = *self + d;
    }
}
impl Sub<Duration> for Instant {
    type Output = Instant;
    fn sub(self, d: Duration) -> Instant {
        Instant(self.0.saturating_sub(dur_ns(d)))
    }
}
impl SubAssign<Duration> for Instant {
    fn sub_assign(&mut self, d: Duration) {
        *self = *self - d;
    }
}
impl Sub<Instant> for Instant {
    type Output = Duration;
    fn sub(self, o: Instant) -> Duration {
        self.duration_since(o)
    }
}
