//! Async face of the simulated network: the subset of `tokio::net` the repository uses,
//! over the same pipes as the blocking face. Pending operations park a waker in the pipe;
//! in-flight segments become readable through a tokio timer on the paused clock.

use crate::kernel;
use crate::net::{self, AcceptPoll, ConnRef, Shutdown, Side, Sock, Step};
use crate::tokio_rt;
use std::future::poll_fn;
use std::io::{self, ErrorKind};
use std::net::SocketAddr;
use std::pin::Pin;
use std::sync::Arc;
use std::sync::atomic::Ordering;
use std::task::{Context, Poll};
use tokio::io::{AsyncRead, AsyncWrite, ReadBuf};
use tokio::time::Sleep;

pub use tokio::net::ToSocketAddrs;

async fn resolve_one<A: ToSocketAddrs>(addr: A) -> io::Result<SocketAddr> {
    tokio::net::lookup_host(addr)
        .await?
        .next()
        .ok_or_else(|| io::Error::new(ErrorKind::InvalidInput, "no address"))
}

type Timer = Option<Pin<Box<Sleep>>>;

/// Arm `timer` for simulated time `at` and poll it. `true` = the time has come.
fn arm(timer: &mut Timer, at: u64, cx: &mut Context<'_>) -> bool {
    let when = tokio_rt::instant_at(at);
    match timer {
        Some(t) => t.as_mut().reset(when),
        None => *timer = Some(Box::pin(tokio::time::sleep_until(when))),
    }
    timer.as_mut().unwrap().as_mut().poll(cx).is_ready()
}

fn spurious_pending(cx: &mut Context<'_>, site: &'static str) -> bool {
    if kernel::buggify(site, 1, 16) {
        cx.waker().wake_by_ref();
        return true;
    }
    false
}

fn poll_read_impl(sock: &Sock, timer: &mut Timer, cx: &mut Context<'_>, buf: &mut ReadBuf<'_>) -> Poll<io::Result<()>> {
    tokio_rt::yield_to_foreign();
    if spurious_pending(cx, "spurious_pending_read") {
        return Poll::Pending;
    }
    loop {
        let shut = sock.shut_rd.load(Ordering::SeqCst);
        let dst = buf.initialize_unfilled();
        match net::read_step(&sock.conn, sock.side, dst, shut, Some(cx.waker())) {
            Step::Done(Ok(n)) => {
                buf.advance(n);
                return Poll::Ready(Ok(()));
            }
            Step::Done(Err(e)) => return Poll::Ready(Err(e)),
            Step::Wait { wake_at, .. } => {
                if let Some(at) = wake_at
                    && arm(timer, at, cx)
                {
                    continue;
                }
                return Poll::Pending;
            }
        }
    }
}

fn poll_write_impl(sock: &Sock, cx: &mut Context<'_>, buf: &[u8]) -> Poll<io::Result<usize>> {
    tokio_rt::yield_to_foreign();
    if spurious_pending(cx, "spurious_pending_write") {
        return Poll::Pending;
    }
    let shut = sock.shut_wr.load(Ordering::SeqCst);
    match net::write_step(&sock.conn, sock.side, buf, shut, Some(cx.waker())) {
        Step::Done(r) => Poll::Ready(r),
        Step::Wait { .. } => Poll::Pending,
    }
}

fn shutdown_write(sock: &Sock) {
    if !sock.shut_wr.swap(true, Ordering::SeqCst) {
        net::shutdown_step(&sock.conn, sock.side, Shutdown::Write);
    }
}

// ------------------------------------------------------------------ TcpStream

pub struct TcpStream {
    sock: Arc<Sock>,
    rd_timer: Timer,
}

impl std::fmt::Debug for TcpStream {
    fn fmt(&self, f: &mut std::fmt::Formatter<'_>) -> std::fmt::Result {
        write!(f, "sim::tokio::TcpStream(conn {} side {:?})", net::conn_id(&self.sock.conn), self.sock.side)
    }
}

impl TcpStream {
    pub(crate) fn from_conn(conn: ConnRef, side: Side) -> TcpStream {
        TcpStream { sock: Arc::new(net::new_sock(conn, side)), rd_timer: None }
    }

    pub async fn connect<A: ToSocketAddrs>(addr: A) -> io::Result<TcpStream> {
        let addr = resolve_one(addr).await?;
        tokio_rt::yield_to_foreign();
        let (conn, _local) = net::do_connect(addr)?;
        Ok(TcpStream::from_conn(conn, Side::A))
    }

    pub fn conn(&self) -> ConnRef {
        self.sock.conn.clone()
    }
    pub fn side(&self) -> Side {
        self.sock.side
    }
    pub fn set_nodelay(&self, _v: bool) -> io::Result<()> {
        Ok(())
    }
    pub fn nodelay(&self) -> io::Result<bool> {
        Ok(true)
    }
    pub fn local_addr(&self) -> io::Result<SocketAddr> {
        let c = self.sock.conn.lock().unwrap_or_else(|e| e.into_inner());
        Ok(if self.sock.side == Side::A { c.addr_a } else { c.addr_b })
    }
    pub fn peer_addr(&self) -> io::Result<SocketAddr> {
        let c = self.sock.conn.lock().unwrap_or_else(|e| e.into_inner());
        Ok(if self.sock.side == Side::A { c.addr_b } else { c.addr_a })
    }

    pub fn into_split(self) -> (tcp::OwnedReadHalf, tcp::OwnedWriteHalf) {
        let TcpStream { sock, rd_timer } = self;
        (tcp::OwnedReadHalf { sock: sock.clone(), timer: rd_timer }, tcp::OwnedWriteHalf { sock, forgotten: false })
    }

    /// Receive without consuming (what `is_websocket_upgrade` uses).
    pub async fn peek(&self, buf: &mut [u8]) -> io::Result<usize> {
        let mut timer: Timer = None;
        poll_fn(|cx| {
            loop {
                match net::peek_step(&self.sock.conn, self.sock.side, buf, Some(cx.waker())) {
                    Step::Done(r) => return Poll::Ready(r),
                    Step::Wait { wake_at, .. } => {
                        if let Some(at) = wake_at
                            && arm(&mut timer, at, cx)
                        {
                            continue;
                        }
                        return Poll::Pending;
                    }
                }
            }
        })
        .await
    }
}

impl AsyncRead for TcpStream {
    fn poll_read(self: Pin<&mut Self>, cx: &mut Context<'_>, buf: &mut ReadBuf<'_>) -> Poll<io::Result<()>> {
        let me = self.get_mut();
        poll_read_impl(&me.sock, &mut me.rd_timer, cx, buf)
    }
}

impl AsyncWrite for TcpStream {
    fn poll_write(self: Pin<&mut Self>, cx: &mut Context<'_>, buf: &[u8]) -> Poll<io::Result<usize>> {
        poll_write_impl(&self.sock, cx, buf)
    }
    fn poll_flush(self: Pin<&mut Self>, _cx: &mut Context<'_>) -> Poll<io::Result<()>> {
        Poll::Ready(Ok(()))
    }
    fn poll_shutdown(self: Pin<&mut Self>, _cx: &mut Context<'_>) -> Poll<io::Result<()>> {
        shutdown_write(&self.sock);
        Poll::Ready(Ok(()))
    }
}

pub mod tcp {
    use super::*;

    pub struct OwnedReadHalf {
        pub(super) sock: Arc<Sock>,
        pub(super) timer: Timer,
    }
    pub struct OwnedWriteHalf {
        pub(super) sock: Arc<Sock>,
        pub(super) forgotten: bool,
    }

    impl std::fmt::Debug for OwnedReadHalf {
        fn fmt(&self, f: &mut std::fmt::Formatter<'_>) -> std::fmt::Result {
            f.write_str("sim::tokio::OwnedReadHalf")
        }
    }
    impl std::fmt::Debug for OwnedWriteHalf {
        fn fmt(&self, f: &mut std::fmt::Formatter<'_>) -> std::fmt::Result {
            f.write_str("sim::tokio::OwnedWriteHalf")
        }
    }

    impl OwnedReadHalf {
        pub fn conn(&self) -> ConnRef {
            self.sock.conn.clone()
        }
        pub fn peer_addr(&self) -> io::Result<SocketAddr> {
            let c = self.sock.conn.lock().unwrap_or_else(|e| e.into_inner());
            Ok(if self.sock.side == Side::A { c.addr_b } else { c.addr_a })
        }
        pub fn local_addr(&self) -> io::Result<SocketAddr> {
            let c = self.sock.conn.lock().unwrap_or_else(|e| e.into_inner());
            Ok(if self.sock.side == Side::A { c.addr_a } else { c.addr_b })
        }
    }

    impl OwnedWriteHalf {
        pub fn conn(&self) -> ConnRef {
            self.sock.conn.clone()
        }
        /// Drop without shutting the write direction down.
        pub fn forget(mut self) {
            self.forgotten = true;
        }
        pub fn peer_addr(&self) -> io::Result<SocketAddr> {
            let c = self.sock.conn.lock().unwrap_or_else(|e| e.into_inner());
            Ok(if self.sock.side == Side::A { c.addr_b } else { c.addr_a })
        }
        pub fn local_addr(&self) -> io::Result<SocketAddr> {
            let c = self.sock.conn.lock().unwrap_or_else(|e| e.into_inner());
            Ok(if self.sock.side == Side::A { c.addr_a } else { c.addr_b })
        }
    }

    impl Drop for OwnedWriteHalf {
        fn drop(&mut self) {
            // tokio: dropping the write half shuts down the write direction of the stream
            if !self.forgotten {
                shutdown_write(&self.sock);
            }
        }
    }

    impl AsyncRead for OwnedReadHalf {
        fn poll_read(self: Pin<&mut Self>, cx: &mut Context<'_>, buf: &mut ReadBuf<'_>) -> Poll<io::Result<()>> {
            let me = self.get_mut();
            poll_read_impl(&me.sock, &mut me.timer, cx, buf)
        }
    }

    impl AsyncWrite for OwnedWriteHalf {
        fn poll_write(self: Pin<&mut Self>, cx: &mut Context<'_>, buf: &[u8]) -> Poll<io::Result<usize>> {
            poll_write_impl(&self.sock, cx, buf)
        }
        fn poll_flush(self: Pin<&mut Self>, _cx: &mut Context<'_>) -> Poll<io::Result<()>> {
            Poll::Ready(Ok(()))
        }
        fn poll_shutdown(self: Pin<&mut Self>, _cx: &mut Context<'_>) -> Poll<io::Result<()>> {
            shutdown_write(&self.sock);
            Poll::Ready(Ok(()))
        }
    }
}

// ------------------------------------------------------------------ TcpListener

pub struct TcpListener {
    addr: SocketAddr,
}

impl std::fmt::Debug for TcpListener {
    fn fmt(&self, f: &mut std::fmt::Formatter<'_>) -> std::fmt::Result {
        write!(f, "sim::tokio::TcpListener({})", self.addr)
    }
}

impl TcpListener {
    pub async fn bind<A: ToSocketAddrs>(addr: A) -> io::Result<TcpListener> {
        let addr = resolve_one(addr).await?;
        let addr = net::do_bind(addr)?;
        Ok(TcpListener { addr })
    }
    pub fn local_addr(&self) -> io::Result<SocketAddr> {
        Ok(self.addr)
    }
    pub fn poll_accept(&self, cx: &mut Context<'_>) -> Poll<io::Result<(TcpStream, SocketAddr)>> {
        tokio_rt::yield_to_foreign();
        match net::poll_accept(self.addr, Some(cx.waker())) {
            AcceptPoll::Ready(c, peer) => Poll::Ready(Ok((TcpStream::from_conn(c, Side::B), peer))),
            AcceptPoll::Closed => Poll::Ready(Err(io::Error::new(ErrorKind::ConnectionAborted, "listener closed"))),
            AcceptPoll::Pending(_) => Poll::Pending,
        }
    }
    pub async fn accept(&self) -> io::Result<(TcpStream, SocketAddr)> {
        poll_fn(|cx| self.poll_accept(cx)).await
    }
    /// Harness control: make pending and future accepts fail.
    pub fn close(&self) {
        net::close_listener(self.addr);
    }
}

impl Drop for TcpListener {
    fn drop(&mut self) {
        net::close_listener(self.addr);
    }
}
