//! `HashMap`/`HashSet` with a fixed hasher so iteration order is a function of the
//! contents only (std's `RandomState` is seeded per process).

use std::borrow::Borrow;
use std::collections::hash_map::DefaultHasher;
use std::hash::{BuildHasherDefault, Hash};
use std::ops::{Deref, DerefMut};

pub use std::collections::{BTreeMap, BTreeSet, VecDeque};
pub use std::collections::hash_map;

type Fixed = BuildHasherDefault<DefaultHasher>;
type Inner<K, V> = std::collections::HashMap<K, V, Fixed>;

#[derive(Clone, Debug)]
pub struct HashMap<K, V>(Inner<K, V>);

impl<K, V> HashMap<K, V> {
    pub fn new() -> Self {
        HashMap(Inner::default())
    }
    pub fn with_capacity(n: usize) -> Self {
        HashMap(Inner::with_capacity_and_hasher(n, Fixed::default()))
    }
}
impl<K, V> HashMap<K, V> {
    pub fn into_values(self) -> std::collections::hash_map::IntoValues<K, V> {
        self.0.into_values()
    }
    pub fn into_keys(self) -> std::collections::hash_map::IntoKeys<K, V> {
        self.0.into_keys()
    }
    pub fn into_std(self) -> Inner<K, V> {
        self.0
    }
}
impl<K, V> Default for HashMap<K, V> {
    fn default() -> Self {
        Self::new()
    }
}
impl<K, V> Deref for HashMap<K, V> {
    type Target = Inner<K, V>;
    fn deref(&self) -> &Inner<K, V> {
        &self.0
    }
}
impl<K, V> DerefMut for HashMap<K, V> {
    fn deref_mut(&mut self) -> &mut Inner<K, V> {
        &mut self.0
    }
}
impl<K: Eq + Hash, V> FromIterator<(K, V)> for HashMap<K, V> {
    fn from_iter<I: IntoIterator<Item = (K, V)>>(iter: I) -> Self {
        HashMap(Inner::from_iter(iter))
    }
}
impl<K, V> IntoIterator for HashMap<K, V> {
    type Item = (K, V);
    type IntoIter = std::collections::hash_map::IntoIter<K, V>;
    fn into_iter(self) -> Self::IntoIter {
        self.0.into_iter()
    }
}
impl<'a, K, V> IntoIterator for &'a HashMap<K, V> {
    type Item = (&'a K, &'a V);
    type IntoIter = std::collections::hash_map::Iter<'a, K, V>;
    fn into_iter(self) -> Self::IntoIter {
        self.0.iter()
    }
}
impl<'a, K, V> IntoIterator for &'a mut HashMap<K, V> {
    type Item = (&'a K, &'a mut V);
    type IntoIter = std::collections::hash_map::IterMut<'a, K, V>;
    fn into_iter(self) -> Self::IntoIter {
        self.0.iter_mut()
    }
}
impl<K: Eq + Hash, V> Extend<(K, V)> for HashMap<K, V> {
    fn extend<I: IntoIterator<Item = (K, V)>>(&mut self, iter: I) {
        self.0.extend(iter)
    }
}
impl<K: Eq + Hash, V: PartialEq> PartialEq for HashMap<K, V> {
    fn eq(&self, o: &Self) -> bool {
        self.0 == o.0
    }
}
impl<K: Eq + Hash + Borrow<Q>, Q: ?Sized + Eq + Hash, V> std::ops::Index<&Q> for HashMap<K, V> {
    type Output = V;
    fn index(&self, key: &Q) -> &V {
        self.0.get(key).expect("no entry found for key")
    }
}

type InnerSet<K> = std::collections::HashSet<K, Fixed>;

#[derive(Clone, Debug)]
pub struct HashSet<K>(InnerSet<K>);
impl<K> HashSet<K> {
    pub fn new() -> Self {
        HashSet(InnerSet::default())
    }
    pub fn with_capacity(n: usize) -> Self {
        HashSet(InnerSet::with_capacity_and_hasher(n, Fixed::default()))
    }
}
impl<K> Default for HashSet<K> {
    fn default() -> Self {
        Self::new()
    }
}
impl<K> Deref for HashSet<K> {
    type Target = InnerSet<K>;
    fn deref(&self) -> &InnerSet<K> {
        &self.0
    }
}
impl<K> DerefMut for HashSet<K> {
    fn deref_mut(&mut self) -> &mut InnerSet<K> {
        &mut self.0
    }
}
impl<K: Eq + Hash> FromIterator<K> for HashSet<K> {
    fn from_iter<I: IntoIterator<Item = K>>(iter: I) -> Self {
        HashSet(InnerSet::from_iter(iter))
    }
}
impl<K> IntoIterator for HashSet<K> {
    type Item = K;
    type IntoIter = std::collections::hash_set::IntoIter<K>;
    fn into_iter(self) -> Self::IntoIter {
        self.0.into_iter()
    }
}
impl<'a, K> IntoIterator for &'a HashSet<K> {
    type Item = &'a K;
    type IntoIter = std::collections::hash_set::Iter<'a, K>;
    fn into_iter(self) -> Self::IntoIter {
        self.0.iter()
    }
}
