//! Simulated TCP: a connection is two unidirectional byte pipes with a send-buffer
//! capacity, per-segment delivery delay, FIN/RST and reader-gone states. One core,
//! two faces: blocking (`TcpStream`/`TcpListener`, this module) and async
//! (`tokio_net`). Semantics follow Linux as listed in DESIGN.md §2.2.

use crate::kernel::{self, ResId, Wake, new_res};
use std::collections::{BTreeMap, VecDeque};
use std::io::{self, ErrorKind, Read, Write};
use std::net::SocketAddr;
use std::sync::atomic::{AtomicBool, AtomicU64, Ordering};
use std::sync::{Arc, Mutex as StdMutex};
use std::task::Waker;
use std::time::Duration;

pub use std::net::{Shutdown, ToSocketAddrs};

#[derive(Clone, Copy, PartialEq, Eq, Debug)]
pub enum Side {
    A,
    B,
}
impl Side {
    pub fn other(self) -> Side {
        match self {
            Side::A => Side::B,
            Side::B => Side::A,
        }
    }
}

/// One direction of a connection.
pub struct Pipe {
    pub res_r: ResId,
    pub res_w: ResId,
    pub inflight: VecDeque<(u64, Vec<u8>)>,
    pub readable: VecDeque<u8>,
    pub buffered: usize,
    pub capacity: usize,
    pub last_deliver_at: u64,
    /// writer sent FIN (deliverable at `fin_at`, after all data)
    pub fin: bool,
    pub fin_at: u64,
    /// connection reset as seen by the reader of this pipe
    pub reset: bool,
    /// reader closed its socket (or the connection was reset): writes fail
    pub reader_gone: bool,
    /// reader did shutdown(Read): incoming bytes are accepted and discarded
    pub reader_discards: bool,
    /// writes after `reader_gone` that were allowed to "succeed" once (RST not yet seen)
    pub grace_writes: u32,
    pub lat_min: u64,
    pub lat_max: u64,
    /// every byte the writer ever put on this pipe (the wire tap)
    pub tap: Vec<u8>,
    pub tap_enabled: bool,
    pub total_written: u64,
    pub total_read: u64,
    pub read_waker: Option<Waker>,
    pub write_waker: Option<Waker>,
}

impl Pipe {
    fn new(capacity: usize, lat_min: u64, lat_max: u64) -> Pipe {
        Pipe {
            res_r: new_res(),
            res_w: new_res(),
            inflight: VecDeque::new(),
            readable: VecDeque::new(),
            buffered: 0,
            capacity,
            last_deliver_at: 0,
            fin: false,
            fin_at: 0,
            reset: false,
            reader_gone: false,
            reader_discards: false,
            grace_writes: 0,
            lat_min,
            lat_max,
            tap: Vec::new(),
            tap_enabled: true,
            total_written: 0,
            total_read: 0,
            read_waker: None,
            write_waker: None,
        }
    }

    pub fn promote(&mut self, now: u64) {
        while let Some((at, _)) = self.inflight.front() {
            if *at <= now {
                let (_, data) = self.inflight.pop_front().unwrap();
                self.readable.extend(data);
            } else {
                break;
            }
        }
    }

    /// Earliest future time at which the reader's view changes by itself.
    pub fn next_event(&self, now: u64) -> Option<u64> {
        let mut t: Option<u64> = self.inflight.front().map(|(at, _)| *at);
        if self.fin && self.inflight.is_empty() && self.fin_at > now {
            t = Some(t.map_or(self.fin_at, |x| x.min(self.fin_at)));
        }
        t
    }

    pub fn eof_visible(&self, now: u64) -> bool {
        self.fin && self.inflight.is_empty() && self.readable.is_empty() && now >= self.fin_at
    }
}

pub struct Conn {
    pub id: u64,
    /// bytes written by side A, read by side B
    pub a2b: Pipe,
    pub b2a: Pipe,
    pub addr_a: SocketAddr,
    pub addr_b: SocketAddr,
}

impl Conn {
    pub fn out_pipe(&mut self, side: Side) -> &mut Pipe {
        match side {
            Side::A => &mut self.a2b,
            Side::B => &mut self.b2a,
        }
    }
    pub fn in_pipe(&mut self, side: Side) -> &mut Pipe {
        match side {
            Side::A => &mut self.b2a,
            Side::B => &mut self.a2b,
        }
    }
}

pub type ConnRef = Arc<StdMutex<Conn>>;

fn lockc(c: &ConnRef) -> std::sync::MutexGuard<'_, Conn> {
    c.lock().unwrap_or_else(|e| e.into_inner())
}

/// Wake whoever waits on `res` (kernel threads) and the given waker (async face).
fn wake(res: ResId, waker: Option<Waker>) {
    if let Some((k, _)) = kernel::current() {
        k.signal(res);
    }
    if let Some(w) = waker {
        w.wake();
    }
}

pub struct Sock {
    pub conn: ConnRef,
    pub side: Side,
    pub(crate) read_timeout: StdMutex<Option<Duration>>,
    pub(crate) write_timeout: StdMutex<Option<Duration>>,
    pub(crate) shut_rd: AtomicBool,
    pub(crate) shut_wr: AtomicBool,
    pub(crate) nonblocking: AtomicBool,
}

impl Drop for Sock {
    fn drop(&mut self) {
        close_side(&self.conn, self.side);
    }
}

/// Full close of one side: FIN on the outgoing pipe; the incoming pipe's reader is gone.
/// Closing with unread data pending resets the connection (Linux sends RST).
pub fn close_side(conn: &ConnRef, side: Side) {
    let (r1, w1, r2, w2);
    {
        let mut c = lockc(conn);
        let now = kernel::now_ns();
        let unread = {
            let p = c.in_pipe(side);
            p.promote(now);
            let unread = !p.readable.is_empty() || !p.inflight.is_empty();
            p.reader_gone = true;
            p.readable.clear();
            p.inflight.clear();
            p.buffered = 0;
            unread
        };
        let inp = c.in_pipe(side);
        r1 = (inp.res_w, inp.write_waker.take());
        w1 = (inp.res_r, inp.read_waker.take());
        let out = c.out_pipe(side);
        if unread {
            out.reset = true;
            kernel::count("net.close_with_unread_data_rst");
        }
        if !out.fin {
            out.fin = true;
            out.fin_at = out.last_deliver_at.max(now);
        }
        r2 = (out.res_r, out.read_waker.take());
        w2 = (out.res_w, out.write_waker.take());
    }
    wake(r1.0, r1.1);
    wake(w1.0, w1.1);
    wake(r2.0, r2.1);
    wake(w2.0, w2.1);
}

/// Abortive close as the peer of `side` would see it (RST): reads on both directions fail.
pub fn reset_conn(conn: &ConnRef) {
    kernel::count("fault.reset");
    reset_conn_quiet(conn);
}

/// Same as [`reset_conn`] without counting it as an injected fault (teardown).
pub fn reset_conn_quiet(conn: &ConnRef) {
    let mut wakes = Vec::new();
    {
        let mut g = lockc(conn);
        let c = &mut *g;
        for p in [&mut c.a2b, &mut c.b2a] {
            p.reset = true;
            p.reader_gone = true;
            p.inflight.clear();
            p.readable.clear();
            p.buffered = 0;
            wakes.push((p.res_r, p.read_waker.take()));
            wakes.push((p.res_w, p.write_waker.take()));
        }
    }
    for (r, w) in wakes {
        wake(r, w);
    }
}

// ------------------------------------------------------------------ the network

struct Listener {
    backlog: VecDeque<(ConnRef, SocketAddr)>,
    res: ResId,
    closed: bool,
    waker: Option<Waker>,
}

#[derive(Clone, Copy, Debug)]
pub struct NetConfig {
    pub capacity: usize,
    pub lat_min: u64,
    pub lat_max: u64,
    /// 0 = accept up to free capacity per write; otherwise cap each accepted write
    pub max_segment: usize,
}

impl Default for NetConfig {
    fn default() -> Self {
        NetConfig { capacity: 64 * 1024, lat_min: 10_000, lat_max: 10_000, max_segment: 0 }
    }
}

struct Net {
    listeners: BTreeMap<SocketAddr, Listener>,
    next_port: u16,
    next_conn: u64,
    cfg: NetConfig,
    conns: Vec<ConnRef>,
    refuse: BTreeMap<SocketAddr, u32>,
}

static NET: StdMutex<Option<Net>> = StdMutex::new(None);

fn with_net<R>(f: impl FnOnce(&mut Net) -> R) -> R {
    let mut g = NET.lock().unwrap_or_else(|e| e.into_inner());
    if g.is_none() {
        *g = Some(Net {
            listeners: BTreeMap::new(),
            next_port: 40_000,
            next_conn: 1,
            cfg: NetConfig::default(),
            conns: Vec::new(),
            refuse: BTreeMap::new(),
        });
    }
    f(g.as_mut().unwrap())
}

/// Fresh network for a new run.
pub fn reset(cfg: NetConfig) {
    let mut g = NET.lock().unwrap_or_else(|e| e.into_inner());
    *g = Some(Net {
        listeners: BTreeMap::new(),
        next_port: 40_000,
        next_conn: 1,
        cfg,
        conns: Vec::new(),
        refuse: BTreeMap::new(),
    });
}

pub fn set_config(cfg: NetConfig) {
    with_net(|n| n.cfg = cfg);
}

/// All connections created in this run (for wire-tap oracles), in creation order.
pub fn connections() -> Vec<ConnRef> {
    with_net(|n| n.conns.clone())
}

/// Make the next `count` connects to `addr` fail with ConnectionRefused even if a listener exists.
pub fn refuse_next(addr: SocketAddr, count: u32) {
    with_net(|n| {
        n.refuse.insert(addr, count);
    });
}

/// Close every listener and reset every connection (end-of-run teardown).
pub fn shutdown_all() {
    let (conns, lwakes) = with_net(|n| {
        let mut lw = Vec::new();
        for l in n.listeners.values_mut() {
            l.closed = true;
            lw.push((l.res, l.waker.take()));
        }
        (n.conns.clone(), lw)
    });
    for (r, w) in lwakes {
        wake(r, w);
    }
    for c in conns {
        reset_conn_quiet(&c);
    }
}

pub(crate) fn new_sock(conn: ConnRef, side: Side) -> Sock {
    Sock {
        conn,
        side,
        read_timeout: StdMutex::new(None),
        write_timeout: StdMutex::new(None),
        shut_rd: AtomicBool::new(false),
        shut_wr: AtomicBool::new(false),
        nonblocking: AtomicBool::new(false),
    }
}

fn resolve_one<A: ToSocketAddrs>(addr: A) -> io::Result<SocketAddr> {
    addr.to_socket_addrs()?
        .next()
        .ok_or_else(|| io::Error::new(ErrorKind::InvalidInput, "no address"))
}

pub(crate) fn do_bind(addr: SocketAddr) -> io::Result<SocketAddr> {
    with_net(|n| {
        let mut addr = addr;
        if addr.port() == 0 {
            addr.set_port(n.next_port);
            n.next_port += 1;
        }
        if n.listeners.get(&addr).is_some_and(|l| !l.closed) {
            return Err(io::Error::new(ErrorKind::AddrInUse, "address in use"));
        }
        n.listeners.insert(addr, Listener { backlog: VecDeque::new(), res: new_res(), closed: false, waker: None });
        Ok(addr)
    })
}

pub(crate) fn do_connect(addr: SocketAddr) -> io::Result<(ConnRef, SocketAddr)> {
    let r = with_net(|n| {
        if let Some(c) = n.refuse.get_mut(&addr)
            && *c > 0
        {
            *c -= 1;
            return Err(io::Error::new(ErrorKind::ConnectionRefused, "connection refused (injected)"));
        }
        let cfg = n.cfg;
        let id = n.next_conn;
        n.next_conn += 1;
        let local: SocketAddr = SocketAddr::new(addr.ip(), 50_000u16.wrapping_add(id as u16));
        let Some(l) = n.listeners.get_mut(&addr) else {
            return Err(io::Error::new(ErrorKind::ConnectionRefused, "connection refused"));
        };
        if l.closed {
            return Err(io::Error::new(ErrorKind::ConnectionRefused, "connection refused"));
        }
        let conn = Arc::new(StdMutex::new(Conn {
            id,
            a2b: Pipe::new(cfg.capacity, cfg.lat_min, cfg.lat_max),
            b2a: Pipe::new(cfg.capacity, cfg.lat_min, cfg.lat_max),
            addr_a: local,
            addr_b: addr,
        }));
        l.backlog.push_back((conn.clone(), local));
        n.conns.push(conn.clone());
        Ok((conn, local, l.res, l.waker.take()))
    });
    match r {
        Err(e) => {
            kernel::count("net.connect_refused");
            Err(e)
        }
        Ok((conn, local, res, waker)) => {
            wake(res, waker);
            Ok((conn, local))
        }
    }
}

pub(crate) enum AcceptPoll {
    Ready(ConnRef, SocketAddr),
    Closed,
    Pending(ResId),
}

pub(crate) fn poll_accept(addr: SocketAddr, waker: Option<&Waker>) -> AcceptPoll {
    with_net(|n| {
        let Some(l) = n.listeners.get_mut(&addr) else { return AcceptPoll::Closed };
        if let Some((c, peer)) = l.backlog.pop_front() {
            return AcceptPoll::Ready(c, peer);
        }
        if l.closed {
            return AcceptPoll::Closed;
        }
        if let Some(w) = waker {
            l.waker = Some(w.clone());
        }
        AcceptPoll::Pending(l.res)
    })
}

pub(crate) fn close_listener(addr: SocketAddr) {
    let r = with_net(|n| {
        n.listeners.get_mut(&addr).map(|l| {
            l.closed = true;
            // connections still in the backlog are reset
            let pend: Vec<ConnRef> = l.backlog.drain(..).map(|(c, _)| c).collect();
            (l.res, l.waker.take(), pend)
        })
    });
    if let Some((res, w, pend)) = r {
        wake(res, w);
        for c in pend {
            reset_conn(&c);
        }
    }
}

// ------------------------------------------------------------------ core I/O steps (shared by both faces)

pub(crate) enum Step {
    Done(io::Result<usize>),
    /// nothing to do now: wait on `res` until `wake_at` (if any)
    Wait { res: ResId, wake_at: Option<u64> },
}

/// One non-blocking read attempt on `side`'s incoming pipe.
pub(crate) fn read_step(conn: &ConnRef, side: Side, buf: &mut [u8], shut_rd: bool, waker: Option<&Waker>) -> Step {
    let now = kernel::now_ns();
    let mut c = lockc(conn);
    let p = c.in_pipe(side);
    if shut_rd {
        return Step::Done(Ok(0));
    }
    if buf.is_empty() {
        return Step::Done(Ok(0));
    }
    p.promote(now);
    if !p.readable.is_empty() {
        let mut n = buf.len().min(p.readable.len());
        if n > 1 && kernel::buggify("short_read", 1, 4) {
            n = 1 + kernel::choose(n as u32 - 1) as usize;
        }
        for (i, b) in p.readable.drain(..n).enumerate() {
            buf[i] = b;
        }
        p.buffered -= n;
        p.total_read += n as u64;
        let (res_w, ww) = (p.res_w, p.write_waker.take());
        let id = c.id;
        drop(c);
        kernel::event_nums("net.read conn/side/bytes", id, side as u64, n as u64);
        wake(res_w, ww);
        return Step::Done(Ok(n));
    }
    if p.reset {
        return Step::Done(Err(io::Error::new(ErrorKind::ConnectionReset, "connection reset by peer")));
    }
    if p.eof_visible(now) {
        return Step::Done(Ok(0));
    }
    if let Some(w) = waker {
        p.read_waker = Some(w.clone());
    }
    Step::Wait { res: p.res_r, wake_at: p.next_event(now) }
}

/// Like `read_step` but leaves the bytes in the pipe (`TcpStream::peek`).
pub(crate) fn peek_step(conn: &ConnRef, side: Side, buf: &mut [u8], waker: Option<&Waker>) -> Step {
    let now = kernel::now_ns();
    let mut c = lockc(conn);
    let p = c.in_pipe(side);
    p.promote(now);
    if !p.readable.is_empty() {
        let n = buf.len().min(p.readable.len());
        for (i, b) in p.readable.iter().take(n).enumerate() {
            buf[i] = *b;
        }
        return Step::Done(Ok(n));
    }
    if p.reset {
        return Step::Done(Err(io::Error::new(ErrorKind::ConnectionReset, "connection reset by peer")));
    }
    if p.eof_visible(now) {
        return Step::Done(Ok(0));
    }
    if let Some(w) = waker {
        p.read_waker = Some(w.clone());
    }
    Step::Wait { res: p.res_r, wake_at: p.next_event(now) }
}

/// One non-blocking write attempt on `side`'s outgoing pipe.
pub(crate) fn write_step(conn: &ConnRef, side: Side, buf: &[u8], shut_wr: bool, waker: Option<&Waker>) -> Step {
    let now = kernel::now_ns();
    let max_segment = with_net(|n| n.cfg.max_segment);
    let mut c = lockc(conn);
    let p = c.out_pipe(side);
    if shut_wr {
        return Step::Done(Err(io::Error::new(ErrorKind::BrokenPipe, "broken pipe (write after shutdown)")));
    }
    if p.reset {
        return Step::Done(Err(io::Error::new(ErrorKind::ConnectionReset, "connection reset by peer")));
    }
    if p.reader_gone {
        // The peer closed. The first write after that may still be accepted by the local
        // kernel (the RST has not come back yet); later ones fail with EPIPE.
        if p.grace_writes == 0 && kernel::choose(2) == 1 {
            p.grace_writes += 1;
            p.tap_enabled = false;
            kernel::count("net.write_accepted_after_peer_close");
            return Step::Done(Ok(buf.len()));
        }
        p.grace_writes += 1;
        return Step::Done(Err(io::Error::new(ErrorKind::BrokenPipe, "broken pipe")));
    }
    if buf.is_empty() {
        return Step::Done(Ok(0));
    }
    if p.reader_discards {
        p.total_written += buf.len() as u64;
        if p.tap_enabled {
            p.tap.extend_from_slice(buf);
        }
        return Step::Done(Ok(buf.len()));
    }
    let free = p.capacity.saturating_sub(p.buffered);
    if free == 0 {
        if let Some(w) = waker {
            p.write_waker = Some(w.clone());
        }
        return Step::Wait { res: p.res_w, wake_at: None };
    }
    let mut n = buf.len().min(free);
    if max_segment > 0 {
        n = n.min(max_segment);
    }
    if n > 1 && kernel::buggify("short_write", 1, 4) {
        n = 1 + kernel::choose(n as u32 - 1) as usize;
    }
    let lat = if p.lat_max > p.lat_min {
        p.lat_min + kernel::choose(((p.lat_max - p.lat_min) / 1000 + 1).min(u32::MAX as u64) as u32) as u64 * 1000
    } else {
        p.lat_min
    };
    let at = (now + lat).max(p.last_deliver_at);
    p.last_deliver_at = at;
    p.inflight.push_back((at, buf[..n].to_vec()));
    p.buffered += n;
    p.total_written += n as u64;
    if p.tap_enabled {
        p.tap.extend_from_slice(&buf[..n]);
    }
    let (res_r, rw) = (p.res_r, p.read_waker.take());
    let id = c.id;
    drop(c);
    kernel::event_nums("net.write conn/side/bytes", id, side as u64, n as u64);
    wake(res_r, rw);
    Step::Done(Ok(n))
}

pub(crate) fn shutdown_step(conn: &ConnRef, side: Side, how: Shutdown) {
    let mut wakes = Vec::new();
    {
        let now = kernel::now_ns();
        let mut c = lockc(conn);
        if matches!(how, Shutdown::Write | Shutdown::Both) {
            let p = c.out_pipe(side);
            if !p.fin {
                p.fin = true;
                p.fin_at = p.last_deliver_at.max(now);
            }
            wakes.push((p.res_r, p.read_waker.take()));
            wakes.push((p.res_w, p.write_waker.take()));
        }
        if matches!(how, Shutdown::Read | Shutdown::Both) {
            let p = c.in_pipe(side);
            p.reader_discards = true;
            p.readable.clear();
            p.inflight.clear();
            p.buffered = 0;
            wakes.push((p.res_r, p.read_waker.take()));
            wakes.push((p.res_w, p.write_waker.take()));
        }
    }
    for (r, w) in wakes {
        wake(r, w);
    }
}

// ------------------------------------------------------------------ blocking face

#[derive(Clone)]
pub struct TcpStream(pub(crate) Arc<Sock>);

impl std::fmt::Debug for TcpStream {
    fn fmt(&self, f: &mut std::fmt::Formatter<'_>) -> std::fmt::Result {
        write!(f, "sim::TcpStream(conn {} side {:?})", lockc(&self.0.conn).id, self.0.side)
    }
}

fn dur_ns(d: Duration) -> u64 {
    d.as_nanos().min(u64::MAX as u128) as u64
}

impl TcpStream {
    pub(crate) fn from_conn(conn: ConnRef, side: Side) -> TcpStream {
        TcpStream(Arc::new(Sock {
            conn,
            side,
            read_timeout: StdMutex::new(None),
            write_timeout: StdMutex::new(None),
            shut_rd: AtomicBool::new(false),
            shut_wr: AtomicBool::new(false),
            nonblocking: AtomicBool::new(false),
        }))
    }

    pub fn connect<A: ToSocketAddrs>(addr: A) -> io::Result<TcpStream> {
        kernel::yield_point();
        let addr = resolve_one(addr)?;
        let (conn, _local) = do_connect(addr)?;
        Ok(TcpStream::from_conn(conn, Side::A))
    }

    pub fn connect_timeout(addr: &SocketAddr, _timeout: Duration) -> io::Result<TcpStream> {
        TcpStream::connect(addr)
    }

    pub fn conn(&self) -> ConnRef {
        self.0.conn.clone()
    }
    pub fn side(&self) -> Side {
        self.0.side
    }

    pub fn set_nodelay(&self, _v: bool) -> io::Result<()> {
        Ok(())
    }
    pub fn nodelay(&self) -> io::Result<bool> {
        Ok(true)
    }
    pub fn set_read_timeout(&self, d: Option<Duration>) -> io::Result<()> {
        if d == Some(Duration::ZERO) {
            return Err(io::Error::new(ErrorKind::InvalidInput, "cannot set a 0 duration timeout"));
        }
        *self.0.read_timeout.lock().unwrap() = d;
        Ok(())
    }
    pub fn set_write_timeout(&self, d: Option<Duration>) -> io::Result<()> {
        if d == Some(Duration::ZERO) {
            return Err(io::Error::new(ErrorKind::InvalidInput, "cannot set a 0 duration timeout"));
        }
        *self.0.write_timeout.lock().unwrap() = d;
        Ok(())
    }
    pub fn read_timeout(&self) -> io::Result<Option<Duration>> {
        Ok(*self.0.read_timeout.lock().unwrap())
    }
    pub fn write_timeout(&self) -> io::Result<Option<Duration>> {
        Ok(*self.0.write_timeout.lock().unwrap())
    }
    pub fn set_nonblocking(&self, v: bool) -> io::Result<()> {
        self.0.nonblocking.store(v, Ordering::SeqCst);
        Ok(())
    }
    pub fn try_clone(&self) -> io::Result<TcpStream> {
        Ok(TcpStream(self.0.clone()))
    }
    pub fn local_addr(&self) -> io::Result<SocketAddr> {
        let c = lockc(&self.0.conn);
        Ok(if self.0.side == Side::A { c.addr_a } else { c.addr_b })
    }
    pub fn peer_addr(&self) -> io::Result<SocketAddr> {
        let c = lockc(&self.0.conn);
        Ok(if self.0.side == Side::A { c.addr_b } else { c.addr_a })
    }
    pub fn shutdown(&self, how: Shutdown) -> io::Result<()> {
        kernel::yield_point();
        if matches!(how, Shutdown::Read | Shutdown::Both) {
            self.0.shut_rd.store(true, Ordering::SeqCst);
        }
        if matches!(how, Shutdown::Write | Shutdown::Both) {
            self.0.shut_wr.store(true, Ordering::SeqCst);
        }
        shutdown_step(&self.0.conn, self.0.side, how);
        Ok(())
    }

    fn do_read(&self, buf: &mut [u8]) -> io::Result<usize> {
        kernel::yield_point();
        if kernel::buggify("eintr_read", 1, 24) {
            return Err(io::Error::new(ErrorKind::Interrupted, "interrupted (injected)"));
        }
        let timeout = *self.0.read_timeout.lock().unwrap();
        let deadline = timeout.map(|d| kernel::now_ns().saturating_add(dur_ns(d)));
        loop {
            let shut = self.0.shut_rd.load(Ordering::SeqCst);
            match read_step(&self.0.conn, self.0.side, buf, shut, None) {
                Step::Done(r) => return r,
                Step::Wait { res, wake_at } => {
                    if self.0.nonblocking.load(Ordering::SeqCst) {
                        return Err(io::Error::new(ErrorKind::WouldBlock, "would block"));
                    }
                    if let Some(d) = deadline
                        && kernel::now_ns() >= d
                    {
                        kernel::count("net.read_timeout_fired");
                        return Err(io::Error::new(ErrorKind::WouldBlock, "read timed out"));
                    }
                    let until = match (deadline, wake_at) {
                        (Some(a), Some(b)) => Some(a.min(b)),
                        (a, b) => a.or(b),
                    };
                    block_on(res, until, "TcpStream::read");
                }
            }
        }
    }

    fn do_write(&self, buf: &[u8]) -> io::Result<usize> {
        kernel::yield_point();
        if kernel::buggify("eintr_write", 1, 24) {
            return Err(io::Error::new(ErrorKind::Interrupted, "interrupted (injected)"));
        }
        let timeout = *self.0.write_timeout.lock().unwrap();
        let deadline = timeout.map(|d| kernel::now_ns().saturating_add(dur_ns(d)));
        loop {
            let shut = self.0.shut_wr.load(Ordering::SeqCst);
            match write_step(&self.0.conn, self.0.side, buf, shut, None) {
                Step::Done(r) => return r,
                Step::Wait { res, wake_at } => {
                    if self.0.nonblocking.load(Ordering::SeqCst) {
                        return Err(io::Error::new(ErrorKind::WouldBlock, "would block"));
                    }
                    if let Some(d) = deadline
                        && kernel::now_ns() >= d
                    {
                        kernel::count("fault.write_timeout_fired");
                        return Err(io::Error::new(ErrorKind::WouldBlock, "write timed out"));
                    }
                    let until = match (deadline, wake_at) {
                        (Some(a), Some(b)) => Some(a.min(b)),
                        (a, b) => a.or(b),
                    };
                    block_on(res, until, "TcpStream::write");
                }
            }
        }
    }
}

fn block_on(res: ResId, until: Option<u64>, what: &'static str) -> Wake {
    match kernel::current() {
        Some((k, me)) => k.block(me, res, until, what),
        None => {
            // outside a simulation there is nobody to wake us: poll
            std::thread::sleep(Duration::from_millis(1));
            Wake::Signal
        }
    }
}

impl Read for TcpStream {
    fn read(&mut self, buf: &mut [u8]) -> io::Result<usize> {
        self.do_read(buf)
    }
}
impl Read for &TcpStream {
    fn read(&mut self, buf: &mut [u8]) -> io::Result<usize> {
        self.do_read(buf)
    }
}
impl Write for TcpStream {
    fn write(&mut self, buf: &[u8]) -> io::Result<usize> {
        self.do_write(buf)
    }
    fn flush(&mut self) -> io::Result<()> {
        Ok(())
    }
}
impl Write for &TcpStream {
    fn write(&mut self, buf: &[u8]) -> io::Result<usize> {
        self.do_write(buf)
    }
    fn flush(&mut self) -> io::Result<()> {
        Ok(())
    }
}

pub struct TcpListener {
    addr: SocketAddr,
    nonblocking: AtomicBool,
    _id: AtomicU64,
}

impl TcpListener {
    pub fn bind<A: ToSocketAddrs>(addr: A) -> io::Result<TcpListener> {
        let addr = resolve_one(addr)?;
        let addr = do_bind(addr)?;
        Ok(TcpListener { addr, nonblocking: AtomicBool::new(false), _id: AtomicU64::new(0) })
    }
    pub fn local_addr(&self) -> io::Result<SocketAddr> {
        Ok(self.addr)
    }
    pub fn set_nonblocking(&self, v: bool) -> io::Result<()> {
        self.nonblocking.store(v, Ordering::SeqCst);
        Ok(())
    }
    pub fn accept(&self) -> io::Result<(TcpStream, SocketAddr)> {
        kernel::yield_point();
        loop {
            match poll_accept(self.addr, None) {
                AcceptPoll::Ready(c, peer) => return Ok((TcpStream::from_conn(c, Side::B), peer)),
                AcceptPoll::Closed => {
                    return Err(io::Error::new(ErrorKind::ConnectionAborted, "listener closed"));
                }
                AcceptPoll::Pending(res) => {
                    if self.nonblocking.load(Ordering::SeqCst) {
                        return Err(io::Error::new(ErrorKind::WouldBlock, "would block"));
                    }
                    block_on(res, None, "TcpListener::accept");
                }
            }
        }
    }
    pub fn incoming(&self) -> Incoming<'_> {
        Incoming { l: self }
    }
    /// Harness control: make a blocked/future `accept` fail (the listener goes away).
    pub fn close(&self) {
        close_listener(self.addr);
    }
}

impl Drop for TcpListener {
    fn drop(&mut self) {
        close_listener(self.addr);
    }
}

pub struct Incoming<'a> {
    l: &'a TcpListener,
}
impl Iterator for Incoming<'_> {
    type Item = io::Result<TcpStream>;
    fn next(&mut self) -> Option<Self::Item> {
        Some(self.l.accept().map(|(s, _)| s))
    }
}

// ------------------------------------------------------------------ harness-side controls

/// Tap of everything `side` has written on `conn` so far.
pub fn tap_of(conn: &ConnRef, side: Side) -> Vec<u8> {
    let mut c = lockc(conn);
    c.out_pipe(side).tap.clone()
}

pub fn set_capacity(conn: &ConnRef, side: Side, capacity: usize) {
    let mut c = lockc(conn);
    c.out_pipe(side).capacity = capacity;
}

pub fn set_latency(conn: &ConnRef, side: Side, min_ns: u64, max_ns: u64) {
    let mut c = lockc(conn);
    let p = c.out_pipe(side);
    p.lat_min = min_ns;
    p.lat_max = max_ns.max(min_ns);
}

/// Harness control: put raw bytes on the wire as if `side` had written them (ignores the
/// send-buffer capacity; used to send bytes no well-behaved endpoint would produce).
pub fn inject_bytes(conn: &ConnRef, side: Side, bytes: &[u8]) {
    let now = kernel::now_ns();
    let (res_r, rw);
    {
        let mut c = lockc(conn);
        let p = c.out_pipe(side);
        if p.reader_gone || p.reset || p.fin {
            return;
        }
        let at = (now + p.lat_min).max(p.last_deliver_at);
        p.last_deliver_at = at;
        p.inflight.push_back((at, bytes.to_vec()));
        p.buffered += bytes.len();
        p.total_written += bytes.len() as u64;
        res_r = p.res_r;
        rw = p.read_waker.take();
    }
    kernel::count("fault.raw_bytes_injected");
    wake(res_r, rw);
}

/// Bytes written by `side` that its peer has not consumed yet.
pub fn unread_bytes(conn: &ConnRef, side: Side) -> usize {
    let mut c = lockc(conn);
    c.out_pipe(side).buffered
}

pub fn conn_id(conn: &ConnRef) -> u64 {
    lockc(conn).id
}
