//! Drop-in replacements for the `std::sync` primitives the repository uses. Inside a
//! simulation every operation is a scheduling point owned by the kernel; outside
//! one they behave exactly like the std primitive they wrap.

use crate::kernel::{self, ResId, Wake, new_res};
use std::ops::{Deref, DerefMut};
use std::sync::atomic::{AtomicU64, Ordering};
use std::sync::{LockResult, PoisonError, TryLockError};
use std::time::Duration;

pub use std::sync::{Arc, Weak};

fn lazy_res(slot: &AtomicU64) -> ResId {
    let v = slot.load(Ordering::Relaxed);
    if v != 0 {
        return v;
    }
    let n = new_res();
    match slot.compare_exchange(0, n, Ordering::Relaxed, Ordering::Relaxed) {
        Ok(_) => n,
        Err(existing) => existing,
    }
}

// ------------------------------------------------------------------ Mutex

pub struct Mutex<T: ?Sized> {
    res: AtomicU64,
    inner: std::sync::Mutex<T>,
}

pub struct MutexGuard<'a, T: ?Sized + 'a> {
    lock: &'a Mutex<T>,
    guard: Option<std::sync::MutexGuard<'a, T>>,
}

impl<T> Mutex<T> {
    pub const fn new(t: T) -> Self {
        Mutex { res: AtomicU64::new(0), inner: std::sync::Mutex::new(t) }
    }
    pub fn into_inner(self) -> LockResult<T> {
        self.inner.into_inner()
    }
}

impl<T: ?Sized> Mutex<T> {
    fn res(&self) -> ResId {
        lazy_res(&self.res)
    }

    fn wrap<'a>(&'a self, r: LockResult<std::sync::MutexGuard<'a, T>>) -> LockResult<MutexGuard<'a, T>> {
        match r {
            Ok(g) => Ok(MutexGuard { lock: self, guard: Some(g) }),
            Err(p) => Err(PoisonError::new(MutexGuard { lock: self, guard: Some(p.into_inner()) })),
        }
    }

    /// Acquire without the leading scheduling point (used when re-acquiring after a
    /// condvar wait, where the wake-up itself was the scheduling point).
    fn lock_inner(&self, yield_first: bool) -> LockResult<MutexGuard<'_, T>> {
        match kernel::current() {
            None => self.wrap(self.inner.lock()),
            Some((k, me)) => {
                if yield_first {
                    k.yield_now(me);
                }
                loop {
                    match self.inner.try_lock() {
                        Ok(g) => return self.wrap(Ok(g)),
                        Err(TryLockError::Poisoned(p)) => return self.wrap(Err(p)),
                        Err(TryLockError::WouldBlock) => {
                            k.block(me, self.res(), None, "Mutex::lock");
                        }
                    }
                }
            }
        }
    }

    pub fn lock(&self) -> LockResult<MutexGuard<'_, T>> {
        self.lock_inner(true)
    }

    pub fn try_lock(&self) -> Result<MutexGuard<'_, T>, TryLockError<MutexGuard<'_, T>>> {
        kernel::yield_point();
        match self.inner.try_lock() {
            Ok(g) => Ok(MutexGuard { lock: self, guard: Some(g) }),
            Err(TryLockError::Poisoned(p)) => Err(TryLockError::Poisoned(PoisonError::new(MutexGuard {
                lock: self,
                guard: Some(p.into_inner()),
            }))),
            Err(TryLockError::WouldBlock) => Err(TryLockError::WouldBlock),
        }
    }

    pub fn is_poisoned(&self) -> bool {
        self.inner.is_poisoned()
    }

    pub fn get_mut(&mut self) -> LockResult<&mut T> {
        self.inner.get_mut()
    }
}

impl<T: Default> Default for Mutex<T> {
    fn default() -> Self {
        Mutex::new(T::default())
    }
}

impl<T: ?Sized + std::fmt::Debug> std::fmt::Debug for Mutex<T> {
    fn fmt(&self, f: &mut std::fmt::Formatter<'_>) -> std::fmt::Result {
        f.write_str("sim::Mutex{..}")
    }
}

impl<T> From<T> for Mutex<T> {
    fn from(t: T) -> Self {
        Mutex::new(t)
    }
}

impl<T: ?Sized> Deref for MutexGuard<'_, T> {
    type Target = T;
    fn deref(&self) -> &T {
        self.guard.as_ref().expect("guard")
    }
}
impl<T: ?Sized> DerefMut for MutexGuard<'_, T> {
    fn deref_mut(&mut self) -> &mut T {
        self.guard.as_mut().expect("guard")
    }
}
impl<T: ?Sized + std::fmt::Debug> std::fmt::Debug for MutexGuard<'_, T> {
    fn fmt(&self, f: &mut std::fmt::Formatter<'_>) -> std::fmt::Result {
        (**self).fmt(f)
    }
}

impl<T: ?Sized> Drop for MutexGuard<'_, T> {
    fn drop(&mut self) {
        if let Some(g) = self.guard.take() {
            drop(g);
            if let Some((k, me)) = kernel::current() {
                let res = self.lock.res.load(Ordering::Relaxed);
                if res != 0 {
                    k.signal(res);
                }
                // Unlock is a scheduling point too, except while unwinding (a
                // reschedule inside a panic's cleanup adds nothing we need).
                if !std::thread::panicking() {
                    k.yield_now(me);
                }
            }
        }
    }
}

// ---------------------------------------------------------------- Condvar

#[derive(Debug, PartialEq, Eq, Copy, Clone)]
pub struct WaitTimeoutResult(bool);
impl WaitTimeoutResult {
    pub fn timed_out(&self) -> bool {
        self.0
    }
}

pub struct Condvar {
    res: AtomicU64,
    real: std::sync::Condvar,
    waiters: std::sync::Mutex<Vec<usize>>,
}

impl Default for Condvar {
    fn default() -> Self {
        Self::new()
    }
}

impl std::fmt::Debug for Condvar {
    fn fmt(&self, f: &mut std::fmt::Formatter<'_>) -> std::fmt::Result {
        f.write_str("sim::Condvar{..}")
    }
}

impl Condvar {
    pub const fn new() -> Self {
        Condvar {
            res: AtomicU64::new(0),
            real: std::sync::Condvar::new(),
            waiters: std::sync::Mutex::new(Vec::new()),
        }
    }

    fn res(&self) -> ResId {
        lazy_res(&self.res)
    }

    fn sim_wait<'a, T>(
        &self,
        mut guard: MutexGuard<'a, T>,
        deadline: Option<u64>,
    ) -> (LockResult<MutexGuard<'a, T>>, bool) {
        let (k, me) = kernel::current().expect("sim_wait outside simulation");
        let lock = guard.lock;
        // Atomically (we hold the baton): register as a waiter, release the mutex.
        self.waiters.lock().unwrap().push(me);
        let inner = guard.guard.take();
        drop(inner);
        drop(guard); // guard.guard is None: no signal/yield from Drop
        let mres = lock.res.load(Ordering::Relaxed);
        if mres != 0 {
            k.signal(mres);
        }
        // Legal-but-unusual: a spurious wake-up (the waiter is made runnable again
        // without any notify). Only fires for a non-zero draw.
        let spurious = kernel::buggify("spurious_wakeup", 1, 8);
        let wake = if spurious {
            k.yield_now(me);
            Wake::Signal
        } else {
            k.block(me, self.res(), deadline, "Condvar::wait")
        };
        {
            let mut w = self.waiters.lock().unwrap();
            if let Some(pos) = w.iter().position(|&t| t == me) {
                w.remove(pos);
            }
        }
        let timed_out = wake == Wake::Timeout;
        (lock.lock_inner(false), timed_out)
    }

    pub fn wait<'a, T>(&self, guard: MutexGuard<'a, T>) -> LockResult<MutexGuard<'a, T>> {
        if kernel::in_sim() {
            return self.sim_wait(guard, None).0;
        }
        let mut guard = guard;
        let lock = guard.lock;
        let inner = guard.guard.take().expect("guard");
        drop(guard);
        lock.wrap(self.real.wait(inner))
    }

    pub fn wait_timeout<'a, T>(
        &self,
        guard: MutexGuard<'a, T>,
        dur: Duration,
    ) -> LockResult<(MutexGuard<'a, T>, WaitTimeoutResult)> {
        if kernel::in_sim() {
            let deadline = kernel::now_ns().saturating_add(dur.as_nanos().min(u64::MAX as u128) as u64);
            let (r, to) = self.sim_wait(guard, Some(deadline));
            return match r {
                Ok(g) => Ok((g, WaitTimeoutResult(to))),
                Err(p) => Err(PoisonError::new((p.into_inner(), WaitTimeoutResult(to)))),
            };
        }
        let mut guard = guard;
        let lock = guard.lock;
        let inner = guard.guard.take().expect("guard");
        drop(guard);
        match self.real.wait_timeout(inner, dur) {
            Ok((g, t)) => Ok((MutexGuard { lock, guard: Some(g) }, WaitTimeoutResult(t.timed_out()))),
            Err(p) => {
                let (g, t) = p.into_inner();
                Err(PoisonError::new((MutexGuard { lock, guard: Some(g) }, WaitTimeoutResult(t.timed_out()))))
            }
        }
    }

    pub fn wait_while<'a, T, F>(&self, mut guard: MutexGuard<'a, T>, mut condition: F) -> LockResult<MutexGuard<'a, T>>
    where
        F: FnMut(&mut T) -> bool,
    {
        while condition(&mut *guard) {
            guard = self.wait(guard)?;
        }
        Ok(guard)
    }

    pub fn notify_one(&self) {
        if let Some((k, me)) = kernel::current() {
            let target = {
                let mut w = self.waiters.lock().unwrap();
                if w.is_empty() {
                    None
                } else {
                    let i = kernel::choose(w.len() as u32) as usize;
                    Some(w.remove(i))
                }
            };
            if let Some(t) = target {
                k.wake_thread(t, self.res());
            }
            k.yield_now(me);
        } else {
            self.real.notify_one();
        }
    }

    pub fn notify_all(&self) {
        if let Some((k, me)) = kernel::current() {
            let all: Vec<usize> = std::mem::take(&mut *self.waiters.lock().unwrap());
            for t in all {
                k.wake_thread(t, self.res());
            }
            k.yield_now(me);
        } else {
            self.real.notify_all();
        }
    }
}

// ----------------------------------------------------------------- RwLock

pub struct RwLock<T: ?Sized> {
    res: AtomicU64,
    inner: std::sync::RwLock<T>,
}

pub struct RwLockReadGuard<'a, T: ?Sized + 'a> {
    lock: &'a RwLock<T>,
    guard: Option<std::sync::RwLockReadGuard<'a, T>>,
}
pub struct RwLockWriteGuard<'a, T: ?Sized + 'a> {
    lock: &'a RwLock<T>,
    guard: Option<std::sync::RwLockWriteGuard<'a, T>>,
}

impl<T> RwLock<T> {
    pub const fn new(t: T) -> Self {
        RwLock { res: AtomicU64::new(0), inner: std::sync::RwLock::new(t) }
    }
    pub fn into_inner(self) -> LockResult<T> {
        self.inner.into_inner()
    }
}

impl<T: Default> Default for RwLock<T> {
    fn default() -> Self {
        RwLock::new(T::default())
    }
}

impl<T: ?Sized> RwLock<T> {
    fn res(&self) -> ResId {
        lazy_res(&self.res)
    }

    pub fn read(&self) -> LockResult<RwLockReadGuard<'_, T>> {
        match kernel::current() {
            None => match self.inner.read() {
                Ok(g) => Ok(RwLockReadGuard { lock: self, guard: Some(g) }),
                Err(p) => Err(PoisonError::new(RwLockReadGuard { lock: self, guard: Some(p.into_inner()) })),
            },
            Some((k, me)) => {
                k.yield_now(me);
                loop {
                    match self.inner.try_read() {
                        Ok(g) => return Ok(RwLockReadGuard { lock: self, guard: Some(g) }),
                        Err(TryLockError::Poisoned(p)) => {
                            return Err(PoisonError::new(RwLockReadGuard {
                                lock: self,
                                guard: Some(p.into_inner()),
                            }));
                        }
                        Err(TryLockError::WouldBlock) => {
                            k.block(me, self.res(), None, "RwLock::read");
                        }
                    }
                }
            }
        }
    }

    pub fn write(&self) -> LockResult<RwLockWriteGuard<'_, T>> {
        match kernel::current() {
            None => match self.inner.write() {
                Ok(g) => Ok(RwLockWriteGuard { lock: self, guard: Some(g) }),
                Err(p) => Err(PoisonError::new(RwLockWriteGuard { lock: self, guard: Some(p.into_inner()) })),
            },
            Some((k, me)) => {
                k.yield_now(me);
                loop {
                    match self.inner.try_write() {
                        Ok(g) => return Ok(RwLockWriteGuard { lock: self, guard: Some(g) }),
                        Err(TryLockError::Poisoned(p)) => {
                            return Err(PoisonError::new(RwLockWriteGuard {
                                lock: self,
                                guard: Some(p.into_inner()),
                            }));
                        }
                        Err(TryLockError::WouldBlock) => {
                            k.block(me, self.res(), None, "RwLock::write");
                        }
                    }
                }
            }
        }
    }

    pub fn is_poisoned(&self) -> bool {
        self.inner.is_poisoned()
    }
}

impl<T: ?Sized> Deref for RwLockReadGuard<'_, T> {
    type Target = T;
    fn deref(&self) -> &T {
        self.guard.as_ref().expect("guard")
    }
}
impl<T: ?Sized> Deref for RwLockWriteGuard<'_, T> {
    type Target = T;
    fn deref(&self) -> &T {
        self.guard.as_ref().expect("guard")
    }
}
impl<T: ?Sized> DerefMut for RwLockWriteGuard<'_, T> {
    fn deref_mut(&mut self) -> &mut T {
        self.guard.as_mut().expect("guard")
    }
}

fn rw_release(res: &AtomicU64) {
    if let Some((k, me)) = kernel::current() {
        let r = res.load(Ordering::Relaxed);
        if r != 0 {
            k.signal(r);
        }
        if !std::thread::panicking() {
            k.yield_now(me);
        }
    }
}

impl<T: ?Sized> Drop for RwLockReadGuard<'_, T> {
    fn drop(&mut self) {
        if let Some(g) = self.guard.take() {
            drop(g);
            rw_release(&self.lock.res);
        }
    }
}
impl<T: ?Sized> Drop for RwLockWriteGuard<'_, T> {
    fn drop(&mut self) {
        if let Some(g) = self.guard.take() {
            drop(g);
            rw_release(&self.lock.res);
        }
    }
}

// ------------------------------------------------------------------- mpsc

pub mod mpsc {
    use super::lazy_res;
    use crate::kernel::{self, Wake};
    use std::collections::VecDeque;
    use std::sync::Arc;
    use std::sync::atomic::{AtomicU64, AtomicUsize, Ordering};
    pub use std::sync::mpsc::{RecvError, RecvTimeoutError, SendError, TryRecvError, TrySendError};
    use std::time::Duration;

    struct Chan<T> {
        q: std::sync::Mutex<VecDeque<T>>,
        cv: std::sync::Condvar,
        res: AtomicU64,
        senders: AtomicUsize,
        receiver_alive: std::sync::atomic::AtomicBool,
        bound: Option<usize>,
        /// number of items ever taken by the receiver (rendezvous support)
        taken: AtomicU64,
        pushed: AtomicU64,
    }

    impl<T> Chan<T> {
        fn res(&self) -> u64 {
            lazy_res(&self.res)
        }
        fn signal(&self) {
            if let Some((k, _)) = kernel::current() {
                let r = self.res.load(Ordering::Relaxed);
                if r != 0 {
                    k.signal(r);
                }
            }
            self.cv.notify_all();
        }
        /// Block the caller until something about the channel changes (or `deadline`).
        /// The caller holds no lock.
        fn wait(&self, deadline: Option<u64>, what: &'static str) -> Wake {
            match kernel::current() {
                Some((k, me)) => k.block(me, self.res(), deadline, what),
                None => {
                    let g = self.q.lock().unwrap_or_else(|e| e.into_inner());
                    match deadline {
                        None => {
                            let _g = self.cv.wait_timeout(g, Duration::from_millis(50));
                            Wake::Signal
                        }
                        Some(d) => {
                            let now = kernel::now_ns();
                            if now >= d {
                                return Wake::Timeout;
                            }
                            let _g = self
                                .cv
                                .wait_timeout(g, Duration::from_nanos((d - now).min(50_000_000)));
                            Wake::Signal
                        }
                    }
                }
            }
        }
    }

    pub struct Sender<T> {
        ch: Arc<Chan<T>>,
    }
    pub struct SyncSender<T> {
        ch: Arc<Chan<T>>,
    }
    pub struct Receiver<T> {
        ch: Arc<Chan<T>>,
    }

    pub fn channel<T>() -> (Sender<T>, Receiver<T>) {
        let ch = Arc::new(Chan {
            q: std::sync::Mutex::new(VecDeque::new()),
            cv: std::sync::Condvar::new(),
            res: AtomicU64::new(0),
            senders: AtomicUsize::new(1),
            receiver_alive: std::sync::atomic::AtomicBool::new(true),
            bound: None,
            taken: AtomicU64::new(0),
            pushed: AtomicU64::new(0),
        });
        (Sender { ch: ch.clone() }, Receiver { ch })
    }

    pub fn sync_channel<T>(bound: usize) -> (SyncSender<T>, Receiver<T>) {
        let ch = Arc::new(Chan {
            q: std::sync::Mutex::new(VecDeque::new()),
            cv: std::sync::Condvar::new(),
            res: AtomicU64::new(0),
            senders: AtomicUsize::new(1),
            receiver_alive: std::sync::atomic::AtomicBool::new(true),
            bound: Some(bound),
            taken: AtomicU64::new(0),
            pushed: AtomicU64::new(0),
        });
        (SyncSender { ch: ch.clone() }, Receiver { ch })
    }

    impl<T> Clone for Sender<T> {
        fn clone(&self) -> Self {
            self.ch.senders.fetch_add(1, Ordering::SeqCst);
            Sender { ch: self.ch.clone() }
        }
    }
    impl<T> Clone for SyncSender<T> {
        fn clone(&self) -> Self {
            self.ch.senders.fetch_add(1, Ordering::SeqCst);
            SyncSender { ch: self.ch.clone() }
        }
    }
    fn drop_sender<T>(ch: &Chan<T>) {
        if ch.senders.fetch_sub(1, Ordering::SeqCst) == 1 {
            ch.signal();
        }
    }
    impl<T> Drop for Sender<T> {
        fn drop(&mut self) {
            drop_sender(&self.ch);
        }
    }
    impl<T> Drop for SyncSender<T> {
        fn drop(&mut self) {
            drop_sender(&self.ch);
        }
    }
    impl<T> Drop for Receiver<T> {
        fn drop(&mut self) {
            self.ch.receiver_alive.store(false, Ordering::SeqCst);
            // std drops queued messages when the receiver goes away
            let drained: Vec<T> = {
                let mut q = self.ch.q.lock().unwrap_or_else(|e| e.into_inner());
                q.drain(..).collect()
            };
            drop(drained);
            self.ch.signal();
        }
    }

    impl<T> Sender<T> {
        pub fn send(&self, t: T) -> Result<(), SendError<T>> {
            kernel::yield_point();
            if !self.ch.receiver_alive.load(Ordering::SeqCst) {
                return Err(SendError(t));
            }
            self.ch.q.lock().unwrap_or_else(|e| e.into_inner()).push_back(t);
            self.ch.pushed.fetch_add(1, Ordering::SeqCst);
            self.ch.signal();
            Ok(())
        }
    }

    impl<T> SyncSender<T> {
        pub fn send(&self, t: T) -> Result<(), SendError<T>> {
            kernel::yield_point();
            let bound = self.ch.bound.unwrap_or(usize::MAX);
            let mut item = Some(t);
            loop {
                if !self.ch.receiver_alive.load(Ordering::SeqCst) {
                    return Err(SendError(item.take().unwrap()));
                }
                {
                    let mut q = self.ch.q.lock().unwrap_or_else(|e| e.into_inner());
                    // bound 0 (rendezvous): allow one parked item, then wait for it to be taken.
                    if q.len() < bound.max(1) {
                        q.push_back(item.take().unwrap());
                    }
                }
                if item.is_none() {
                    let my_seq = self.ch.pushed.fetch_add(1, Ordering::SeqCst) + 1;
                    self.ch.signal();
                    if bound == 0 {
                        // wait until the receiver has taken it (or went away)
                        while self.ch.taken.load(Ordering::SeqCst) < my_seq
                            && self.ch.receiver_alive.load(Ordering::SeqCst)
                        {
                            self.ch.wait(None, "SyncSender::send(rendezvous)");
                        }
                    }
                    return Ok(());
                }
                self.ch.wait(None, "SyncSender::send(full)");
            }
        }

        pub fn try_send(&self, t: T) -> Result<(), TrySendError<T>> {
            kernel::yield_point();
            if !self.ch.receiver_alive.load(Ordering::SeqCst) {
                return Err(TrySendError::Disconnected(t));
            }
            let bound = self.ch.bound.unwrap_or(usize::MAX);
            {
                let mut q = self.ch.q.lock().unwrap_or_else(|e| e.into_inner());
                if q.len() >= bound {
                    return Err(TrySendError::Full(t));
                }
                q.push_back(t);
            }
            self.ch.pushed.fetch_add(1, Ordering::SeqCst);
            self.ch.signal();
            Ok(())
        }
    }

    impl<T> Receiver<T> {
        fn pop(&self) -> Option<T> {
            let v = self.ch.q.lock().unwrap_or_else(|e| e.into_inner()).pop_front();
            if v.is_some() {
                self.ch.taken.fetch_add(1, Ordering::SeqCst);
                // a slot became free / a rendezvous completed
                self.ch.signal();
            }
            v
        }

        pub fn recv(&self) -> Result<T, RecvError> {
            kernel::yield_point();
            loop {
                if let Some(v) = self.pop() {
                    return Ok(v);
                }
                if self.ch.senders.load(Ordering::SeqCst) == 0 {
                    return Err(RecvError);
                }
                self.ch.wait(None, "Receiver::recv");
            }
        }

        pub fn try_recv(&self) -> Result<T, TryRecvError> {
            kernel::yield_point();
            if let Some(v) = self.pop() {
                return Ok(v);
            }
            if self.ch.senders.load(Ordering::SeqCst) == 0 {
                return Err(TryRecvError::Disconnected);
            }
            Err(TryRecvError::Empty)
        }

        pub fn recv_timeout(&self, timeout: Duration) -> Result<T, RecvTimeoutError> {
            kernel::yield_point();
            let deadline = kernel::now_ns().saturating_add(timeout.as_nanos().min(u64::MAX as u128) as u64);
            loop {
                if let Some(v) = self.pop() {
                    return Ok(v);
                }
                if self.ch.senders.load(Ordering::SeqCst) == 0 {
                    return Err(RecvTimeoutError::Disconnected);
                }
                if kernel::now_ns() >= deadline {
                    return Err(RecvTimeoutError::Timeout);
                }
                self.ch.wait(Some(deadline), "Receiver::recv_timeout");
            }
        }

        pub fn iter(&self) -> Iter<'_, T> {
            Iter { rx: self }
        }
    }

    pub struct Iter<'a, T> {
        rx: &'a Receiver<T>,
    }
    impl<T> Iterator for Iter<'_, T> {
        type Item = T;
        fn next(&mut self) -> Option<T> {
            self.rx.recv().ok()
        }
    }
    pub struct IntoIter<T> {
        rx: Receiver<T>,
    }
    impl<T> Iterator for IntoIter<T> {
        type Item = T;
        fn next(&mut self) -> Option<T> {
            self.rx.recv().ok()
        }
    }
    impl<T> IntoIterator for Receiver<T> {
        type Item = T;
        type IntoIter = IntoIter<T>;
        fn into_iter(self) -> IntoIter<T> {
            IntoIter { rx: self }
        }
    }
}
