//! simkernel: deterministic simulation kernel for repe-rs verification.
//!
//! One scheduler for every thread, one clock, one choice source. See
//! /verif/DESIGN.md §2.

pub mod collections;
pub mod fsprobe;
pub mod kernel;
pub mod net;
pub mod rng;
pub mod sync;
pub mod thread;
pub mod time;
pub mod tokio_net;
pub mod tokio_rt;

pub use fsprobe::fs_event;
pub use kernel::{
    crash_disarm, crash_self_after,
    ExpectedPanic, Limits, Outcome, RunReport, RunSetup, buggify, chance, choose, count, count_by, event, in_sim,
    now_ns, run, yield_point,
};
pub use rng::Choices;
pub use tokio_rt::{block_until, tokio_mpsc, tokio_shim};
