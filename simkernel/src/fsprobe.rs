//! File-system probes: the repository reports commit-path events (created, synced,
//! before/after rename, removed) here under the guard. Each probe is a scheduling point (so
//! it is a crash point) and is recorded with the file's length at that instant for the
//! durability oracle. Files themselves are real.

use crate::kernel;
use std::path::{Path, PathBuf};
use std::sync::Mutex as StdMutex;

#[derive(Clone, Debug)]
pub struct FsEvent {
    pub kind: &'static str,
    pub path: PathBuf,
    pub path2: Option<PathBuf>,
    /// length of `path` when the probe fired (None if it does not exist)
    pub len: Option<u64>,
    pub at_ns: u64,
}

static EVENTS: StdMutex<Vec<FsEvent>> = StdMutex::new(Vec::new());
static CRASH_ON: StdMutex<Option<&'static str>> = StdMutex::new(None);
type Observer = Box<dyn Fn(&FsEvent) + Send>;
static OBSERVER: StdMutex<Option<Observer>> = StdMutex::new(None);

/// Harness hook called at every probe, before anything else can run: what the oracle
/// snapshots here is exactly what a process kill at this instant would leave behind.
pub fn set_observer(f: Option<Observer>) {
    *OBSERVER.lock().unwrap_or_else(|e| e.into_inner()) = f;
}

/// Simulated kill exactly at the next probe of this kind (None disarms).
pub fn crash_at_probe(kind: Option<&'static str>) {
    *CRASH_ON.lock().unwrap_or_else(|e| e.into_inner()) = kind;
}

pub fn fs_event(kind: &'static str, path: &Path, path2: Option<&Path>) {
    let len = std::fs::metadata(path).ok().map(|m| m.len());
    let ev = FsEvent { kind, path: path.to_path_buf(), path2: path2.map(|p| p.to_path_buf()), len, at_ns: kernel::now_ns() };
    kernel::event(|| format!("fs {kind} {:?} len={len:?}", path.file_name()));
    if let Some(obs) = OBSERVER.lock().unwrap_or_else(|e| e.into_inner()).as_ref() {
        obs(&ev);
    }
    EVENTS.lock().unwrap_or_else(|e| e.into_inner()).push(ev);
    let crash_here = {
        let mut c = CRASH_ON.lock().unwrap_or_else(|e| e.into_inner());
        if *c == Some(kind) {
            *c = None;
            true
        } else {
            false
        }
    };
    if crash_here {
        kernel::crash_self_after(1);
    }
    kernel::yield_point();
}

pub fn take_fs_events() -> Vec<FsEvent> {
    std::mem::take(&mut *EVENTS.lock().unwrap_or_else(|e| e.into_inner()))
}

pub fn peek_fs_events() -> Vec<FsEvent> {
    EVENTS.lock().unwrap_or_else(|e| e.into_inner()).clone()
}
