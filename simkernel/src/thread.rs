//! `std::thread` subset on simulated threads.

use crate::kernel::{self, ResId, Tid};
use std::sync::{Arc, Mutex as StdMutex};
use std::time::Duration;

pub use std::thread::{Result, panicking};

enum Handle<T> {
    Sim { tid: Tid, done_res: ResId, slot: Arc<StdMutex<Option<Result<T>>>>, kernel: Arc<kernel::Kernel> },
    Real(std::thread::JoinHandle<T>),
}

pub struct JoinHandle<T>(Handle<T>);

impl<T> JoinHandle<T> {
    pub fn join(self) -> Result<T> {
        match self.0 {
            Handle::Real(h) => h.join(),
            Handle::Sim { tid, done_res, slot, kernel: k } => {
                let me = kernel::current().map(|(_, me)| me);
                match me {
                    Some(me) => {
                        k.yield_now(me);
                        loop {
                            if let Some(r) = slot.lock().unwrap().take() {
                                return r;
                            }
                            if k.is_finished(tid) {
                                // finished without a result: only possible if the slot was taken
                                return Err(Box::new("sim thread finished without result"));
                            }
                            k.block(me, done_res, None, "JoinHandle::join");
                        }
                    }
                    None => {
                        // joining a sim thread from outside: spin on the slot
                        loop {
                            if let Some(r) = slot.lock().unwrap().take() {
                                return r;
                            }
                            std::thread::sleep(Duration::from_millis(1));
                        }
                    }
                }
            }
        }
    }

    /// Like `join`, but returns `None` if the thread was frozen by a simulated kill.
    pub fn join_or_crashed(self) -> Option<Result<T>> {
        match self.0 {
            Handle::Real(h) => Some(h.join()),
            Handle::Sim { tid, done_res, slot, kernel: k } => {
                let me = kernel::current().map(|(_, me)| me)?;
                k.yield_now(me);
                loop {
                    if let Some(r) = slot.lock().unwrap().take() {
                        return Some(r);
                    }
                    if k.is_crashed(tid) {
                        return None;
                    }
                    if k.is_finished(tid) {
                        return Some(Err(Box::new("sim thread finished without result")));
                    }
                    k.block(me, done_res, None, "JoinHandle::join");
                }
            }
        }
    }

    pub fn is_finished(&self) -> bool {
        match &self.0 {
            Handle::Real(h) => h.is_finished(),
            Handle::Sim { slot, .. } => slot.lock().unwrap().is_some(),
        }
    }
}

fn spawn_named<F, T>(name: Option<String>, f: F) -> JoinHandle<T>
where
    F: FnOnce() -> T + Send + 'static,
    T: Send + 'static,
{
    match kernel::current() {
        None => {
            let b = std::thread::Builder::new();
            let b = match name {
                Some(n) => b.name(n),
                None => b,
            };
            JoinHandle(Handle::Real(b.spawn(f).expect("spawn")))
        }
        Some((k, me)) => {
            let slot: Arc<StdMutex<Option<Result<T>>>> = Arc::new(StdMutex::new(None));
            let slot2 = slot.clone();
            let k2 = k.clone();
            let body = Box::new(move || {
                let r = std::panic::catch_unwind(std::panic::AssertUnwindSafe(f));
                let r = match r {
                    Ok(v) => Ok(v),
                    Err(p) => {
                        if let Some(msg) = kernel::describe_panic(&*p) {
                            k2.record_panic(format!("spawned thread: {msg}"));
                        }
                        Err(p)
                    }
                };
                *slot2.lock().unwrap() = Some(r);
            });
            let (tid, done_res) = k.spawn_thread(name.unwrap_or_else(|| "thread".to_string()), body);
            k.yield_now(me);
            JoinHandle(Handle::Sim { tid, done_res, slot, kernel: k })
        }
    }
}

pub fn spawn<F, T>(f: F) -> JoinHandle<T>
where
    F: FnOnce() -> T + Send + 'static,
    T: Send + 'static,
{
    spawn_named(None, f)
}

#[derive(Default)]
pub struct Builder {
    name: Option<String>,
}

impl Builder {
    pub fn new() -> Self {
        Builder { name: None }
    }
    pub fn name(mut self, name: String) -> Self {
        self.name = Some(name);
        self
    }
    pub fn stack_size(self, _size: usize) -> Self {
        self
    }
    pub fn spawn<F, T>(self, f: F) -> std::io::Result<JoinHandle<T>>
    where
        F: FnOnce() -> T + Send + 'static,
        T: Send + 'static,
    {
        Ok(spawn_named(self.name, f))
    }
}

pub fn sleep(dur: Duration) {
    match kernel::current() {
        None => std::thread::sleep(dur),
        Some((k, me)) => {
            let deadline = k.now().saturating_add(dur.as_nanos().min(u64::MAX as u128) as u64);
            let res = kernel::new_res();
            loop {
                if k.now() >= deadline {
                    // still a scheduling point
                    k.yield_now(me);
                    return;
                }
                k.block(me, res, Some(deadline), "thread::sleep");
            }
        }
    }
}

pub fn yield_now() {
    match kernel::current() {
        None => std::thread::yield_now(),
        Some((k, me)) => k.yield_now(me),
    }
}

pub fn available_parallelism() -> std::io::Result<std::num::NonZeroUsize> {
    match kernel::current() {
        None => std::thread::available_parallelism(),
        Some((k, _)) => Ok(std::num::NonZeroUsize::new(k.parallelism()).unwrap()),
    }
}
