//! Small deterministic PRNG and the "choice source": every decision a run makes
//! (workload, scheduling, faults) is one bounded draw from here, so a run is a
//! pure function of (scenario, choice list).

#[derive(Clone, Debug)]
pub struct Xoshiro {
    s: [u64; 4],
}

pub fn splitmix64(x: &mut u64) -> u64 {
    *x = x.wrapping_add(0x9E37_79B9_7F4A_7C15);
    let mut z = *x;
    z = (z ^ (z >> 30)).wrapping_mul(0xBF58_476D_1CE4_E5B9);
    z = (z ^ (z >> 27)).wrapping_mul(0x94D0_49BB_1331_11EB);
    z ^ (z >> 31)
}

impl Xoshiro {
    pub fn new(seed: u64) -> Self {
        let mut x = seed;
        let s = [
            splitmix64(&mut x),
            splitmix64(&mut x),
            splitmix64(&mut x),
            splitmix64(&mut x),
        ];
        Xoshiro { s }
    }
    pub fn next_u64(&mut self) -> u64 {
        let result = self.s[1].wrapping_mul(5).rotate_left(7).wrapping_mul(9);
        let t = self.s[1] << 17;
        self.s[2] ^= self.s[0];
        self.s[3] ^= self.s[1];
        self.s[1] ^= self.s[2];
        self.s[0] ^= self.s[3];
        self.s[2] ^= t;
        self.s[3] = self.s[3].rotate_left(45);
        result
    }
}

/// Where draws come from: a seeded PRNG (recording what it produced) or an
/// explicit list (replay / minimisation). Past the end of a replay list every
/// draw is 0, which by convention is always the most benign alternative
/// (keep running the current thread, no fault, smallest delay).
#[derive(Clone, Debug)]
pub struct Choices {
    rng: Option<Xoshiro>,
    replay: Option<Vec<u32>>,
    pos: usize,
    pub record: Vec<u32>,
    pub hash: u64,
    pub draws: u64,
}

pub const FNV_OFFSET: u64 = 0xcbf2_9ce4_8422_2325;
pub fn fnv_mix(h: u64, v: u64) -> u64 {
    let mut h = h;
    for i in 0..8 {
        h ^= (v >> (i * 8)) & 0xff;
        h = h.wrapping_mul(0x0000_0100_0000_01B3);
    }
    h
}

impl Choices {
    pub fn from_seed(seed: u64) -> Self {
        Choices {
            rng: Some(Xoshiro::new(seed)),
            replay: None,
            pos: 0,
            record: Vec::new(),
            hash: FNV_OFFSET,
            draws: 0,
        }
    }
    pub fn from_list(list: Vec<u32>) -> Self {
        Choices {
            rng: None,
            replay: Some(list),
            pos: 0,
            record: Vec::new(),
            hash: FNV_OFFSET,
            draws: 0,
        }
    }
    /// Uniform draw in `0..n`. `n <= 1` consumes nothing.
    pub fn draw(&mut self, n: u32) -> u32 {
        if n <= 1 {
            return 0;
        }
        let v = if let Some(list) = &self.replay {
            let raw = list.get(self.pos).copied().unwrap_or(0);
            if raw >= n { n - 1 } else { raw }
        } else {
            let r = self.rng.as_mut().expect("rng").next_u64();
            ((r >> 11) % n as u64) as u32
        };
        self.pos += 1;
        self.draws += 1;
        self.record.push(v);
        self.hash = fnv_mix(self.hash, ((n as u64) << 32) | v as u64);
        v
    }
    pub fn is_replay(&self) -> bool {
        self.replay.is_some()
    }
}
