//! The simulation kernel: every simulated thread is a real OS thread, but exactly
//! one holds the baton at any instant. Who runs next, how long things take and
//! which faults fire are all draws from one `Choices` source.

use crate::rng::{Choices, fnv_mix};
use std::any::Any;
use std::cell::RefCell;
use std::collections::BTreeMap;
use std::sync::atomic::{AtomicU64, Ordering};
use std::sync::{Arc, Condvar as StdCondvar, Mutex as StdMutex};
use std::time::Duration;

pub type Tid = usize;
pub type ResId = u64;

static NEXT_RES: AtomicU64 = AtomicU64::new(16);
/// Resource the tokio runtime thread parks on while foreign (simulated) threads run.
pub const IDLE_RES: ResId = 1;
pub fn new_res() -> ResId {
    NEXT_RES.fetch_add(1, Ordering::Relaxed)
}

pub(crate) struct Sem {
    m: StdMutex<bool>,
    cv: StdCondvar,
}
impl Sem {
    fn new() -> Self {
        Sem { m: StdMutex::new(false), cv: StdCondvar::new() }
    }
    fn post(&self) {
        let mut g = self.m.lock().unwrap_or_else(|e| e.into_inner());
        *g = true;
        self.cv.notify_one();
    }
    fn wait(&self) {
        let mut g = self.m.lock().unwrap_or_else(|e| e.into_inner());
        while !*g {
            g = self.cv.wait(g).unwrap_or_else(|e| e.into_inner());
        }
        *g = false;
    }
}

#[derive(Clone, Copy, Debug, PartialEq, Eq)]
pub enum Wake {
    /// Made runnable by a signal on the resource it waited for (or it never blocked).
    Signal,
    /// Its deadline was reached on the simulated clock.
    Timeout,
}

#[derive(Clone, Debug)]
enum TState {
    Runnable,
    Blocked { res: ResId, deadline: Option<u64>, what: &'static str },
    Finished,
}

struct Th {
    name: String,
    state: TState,
    sem: Arc<Sem>,
    wake: Wake,
    prio: u64,
    /// resource signalled when this thread finishes (join)
    done_res: ResId,
    /// simulated process kill: freeze this thread at its n-th next scheduling point
    crash_in: Option<u64>,
    crashed: bool,
}

#[derive(Clone, Debug, PartialEq, Eq)]
pub enum Outcome {
    /// The main thread returned and the remaining threads wound down (or stayed blocked).
    Completed,
    /// The main thread is still alive, nothing is runnable and nothing has a deadline.
    Deadlock(Vec<String>),
    StepLimit,
    TimeLimit,
    /// Real-time watchdog expired (harness error, never a verdict).
    WallTimeout,
}

#[derive(Clone, Debug)]
pub struct Limits {
    pub max_steps: u64,
    pub max_sim_ns: u64,
    pub winddown_sim_ns: u64,
    pub wall: Duration,
    pub trace: bool,
}
impl Default for Limits {
    fn default() -> Self {
        Limits {
            max_steps: 400_000,
            max_sim_ns: 3_600 * 1_000_000_000,
            winddown_sim_ns: 600 * 1_000_000_000,
            wall: Duration::from_secs(120),
            trace: false,
        }
    }
}

enum Sched {
    Sticky { preempt_pct: u32 },
    Random,
    Pct { change_points: Vec<u64>, next_low: u64 },
}

struct KInner {
    threads: Vec<Th>,
    current: Tid,
    now: u64,
    choices: Choices,
    sched: Sched,
    steps: u64,
    limits: Limits,
    outcome: Option<Outcome>,
    main_done: bool,
    main_done_at: u64,
    hash: u64,
    trace: Option<Vec<String>>,
    counters: BTreeMap<String, u64>,
    panics: Vec<String>,
    hook_panics: Vec<String>,
    parallelism: usize,
    switches: u64,
    time_advances: u64,
    external_clock: bool,
    buggify_sites: BTreeMap<&'static str, bool>,
}

pub struct Kernel {
    inner: StdMutex<KInner>,
    done_cv: StdCondvar,
}

thread_local! {
    static CUR: RefCell<Option<(Arc<Kernel>, Tid)>> = const { RefCell::new(None) };
    static LAST_PANIC_LOC: RefCell<Option<String>> = const { RefCell::new(None) };
}

pub fn current() -> Option<(Arc<Kernel>, Tid)> {
    CUR.with(|c| c.borrow().clone())
}
pub fn in_sim() -> bool {
    CUR.with(|c| c.borrow().is_some())
}

#[derive(Debug, Clone)]
pub struct RunReport {
    pub outcome: Outcome,
    pub steps: u64,
    pub switches: u64,
    pub sim_ns: u64,
    pub time_advances: u64,
    pub hash: u64,
    pub choices: Vec<u32>,
    pub panics: Vec<String>,
    /// every non-expected panic the panic hook saw, including ones caught by a runtime
    pub hook_panics: Vec<String>,
    pub counters: BTreeMap<String, u64>,
    pub threads: usize,
    pub leaked: usize,
    pub trace: Vec<String>,
}

/// Payload type harness code may panic with on purpose (e.g. a test handler that
/// is meant to panic). Such panics are not recorded as unexpected.
pub struct ExpectedPanic(pub &'static str);

pub fn install_panic_hook() {
    static ONCE: std::sync::Once = std::sync::Once::new();
    ONCE.call_once(|| {
        let prev = std::panic::take_hook();
        std::panic::set_hook(Box::new(move |info| {
            if in_sim() {
                let loc = info
                    .location()
                    .map(|l| format!("{}:{}", l.file(), l.line()))
                    .unwrap_or_default();
                // Panics that some runtime catches before they reach a simulated thread's root
                // (tokio tasks) would otherwise go unnoticed: journal every one here.
                if let Some(msg) = payload_to_string(info.payload())
                    && let Some((k, _)) = current()
                {
                    k.lock().hook_panics.push(format!("{msg} @ {loc}"));
                }
                LAST_PANIC_LOC.with(|c| *c.borrow_mut() = Some(loc));
            } else {
                prev(info);
            }
        }));
    });
}

fn payload_to_string(p: &(dyn Any + Send)) -> Option<String> {
    if p.downcast_ref::<ExpectedPanic>().is_some() {
        return None;
    }
    let msg = if let Some(s) = p.downcast_ref::<&'static str>() {
        (*s).to_string()
    } else if let Some(s) = p.downcast_ref::<String>() {
        s.clone()
    } else {
        "<non-string panic payload>".to_string()
    };
    Some(msg)
}

/// Describe a caught panic payload the way the kernel would record it, or `None`
/// if it is an [`ExpectedPanic`]. Consumes the thread-local location.
pub fn describe_panic(p: &(dyn Any + Send)) -> Option<String> {
    let loc = LAST_PANIC_LOC.with(|c| c.borrow_mut().take()).unwrap_or_default();
    payload_to_string(p).map(|m| format!("{m} @ {loc}"))
}

impl Kernel {
    fn lock(&self) -> std::sync::MutexGuard<'_, KInner> {
        self.inner.lock().unwrap_or_else(|e| e.into_inner())
    }

    fn park_forever(&self) -> ! {
        loop {
            std::thread::park();
        }
    }

    fn log(inner: &mut KInner, f: impl FnOnce() -> String) {
        let (steps, now, cur) = (inner.steps, inner.now, inner.current);
        if let Some(t) = inner.trace.as_mut() {
            let s = f();
            t.push(format!("[{steps:>6} t={now}ns T{cur}] {s}"));
        }
    }

    fn end(&self, inner: &mut KInner, outcome: Outcome) {
        if inner.outcome.is_none() {
            inner.outcome = Some(outcome);
        }
        self.done_cv.notify_all();
    }

    /// Pick the next thread to run. `None` means nothing is runnable even after
    /// advancing the clock: the run is over (the outcome has been set).
    fn pick(&self, inner: &mut KInner) -> Option<Tid> {
        loop {
            let cur = inner.current;
            let mut runnable: Vec<Tid> = Vec::new();
            if matches!(inner.threads[cur].state, TState::Runnable) {
                runnable.push(cur);
            }
            for (i, t) in inner.threads.iter().enumerate() {
                if i != cur && matches!(t.state, TState::Runnable) {
                    runnable.push(i);
                }
            }
            if !runnable.is_empty() {
                let n = runnable.len() as u32;
                let cur_runnable = runnable[0] == cur;
                let idx = match &mut inner.sched {
                    Sched::Random => inner.choices.draw(n) as usize,
                    Sched::Sticky { preempt_pct } => {
                        let p = *preempt_pct;
                        if cur_runnable {
                            if n > 1 && p > 0 && inner.choices.draw(100) >= 100 - p {
                                1 + inner.choices.draw(n - 1) as usize
                            } else {
                                0
                            }
                        } else {
                            inner.choices.draw(n) as usize
                        }
                    }
                    Sched::Pct { change_points, next_low } => {
                        if change_points.contains(&inner.steps) && cur_runnable {
                            inner.threads[cur].prio = *next_low;
                            *next_low = next_low.saturating_sub(1);
                        }
                        let mut best = 0usize;
                        for (k, &t) in runnable.iter().enumerate() {
                            let (pb, pt) = (inner.threads[runnable[best]].prio, inner.threads[t].prio);
                            if pt > pb || (pt == pb && t < runnable[best]) {
                                best = k;
                            }
                        }
                        best
                    }
                };
                return Some(runnable[idx]);
            }
            // Nothing runnable: quiescence. Advance the clock to the earliest deadline.
            if inner.external_clock {
                // The clock belongs to tokio. The runtime thread (T0) parks on IDLE_RES while
                // foreign threads run; once none of them can move it gets the baton back and
                // lets tokio advance the clock (which is how their deadlines fire).
                if let TState::Blocked { res, .. } = inner.threads[0].state
                    && res == IDLE_RES
                {
                    inner.threads[0].state = TState::Runnable;
                    inner.threads[0].wake = Wake::Signal;
                    continue;
                }
                if inner.main_done {
                    self.end(inner, Outcome::Completed);
                    return None;
                }
                // The runtime thread itself is blocked on a simulated primitive and nobody
                // can release it without time passing: fall through to the kernel-owned
                // clock advance (tokio's clock catches up lazily, see tokio_rt::rt_now).
            }
            let mut min_deadline: Option<u64> = None;
            for t in &inner.threads {
                if let TState::Blocked { deadline: Some(d), .. } = t.state {
                    min_deadline = Some(min_deadline.map_or(d, |m: u64| m.min(d)));
                }
            }
            match min_deadline {
                None => {
                    if inner.main_done {
                        self.end(inner, Outcome::Completed);
                    } else {
                        let report = inner
                            .threads
                            .iter()
                            .enumerate()
                            .filter_map(|(i, t)| match &t.state {
                                TState::Blocked { what, .. } => {
                                    Some(format!("T{i} '{}' blocked in {}", t.name, what))
                                }
                                _ => None,
                            })
                            .collect();
                        self.end(inner, Outcome::Deadlock(report));
                    }
                    return None;
                }
                Some(d) => {
                    let d = d.max(inner.now);
                    if inner.main_done && d > inner.main_done_at + inner.limits.winddown_sim_ns {
                        self.end(inner, Outcome::Completed);
                        return None;
                    }
                    if d > inner.limits.max_sim_ns {
                        self.end(inner, Outcome::TimeLimit);
                        return None;
                    }
                    if d > inner.now {
                        inner.time_advances += 1;
                        inner.hash = fnv_mix(inner.hash, d);
                    }
                    inner.now = d;
                    Self::log(inner, || format!("clock -> {d}"));
                    for t in inner.threads.iter_mut() {
                        if let TState::Blocked { deadline: Some(dl), .. } = t.state
                            && dl <= d
                        {
                            t.state = TState::Runnable;
                            t.wake = Wake::Timeout;
                        }
                    }
                }
            }
        }
    }

    /// The single scheduling point. Sets the caller's new state, picks who runs
    /// next and hands the baton over. Returns why the caller was resumed.
    fn reschedule(self: &Arc<Self>, me: Tid, new_state: TState) -> Wake {
        let my_sem;
        let finished = matches!(new_state, TState::Finished);
        let rt_now = crate::tokio_rt::rt_now();
        {
            let mut inner = self.lock();
            if let Some(ns) = rt_now
                && ns > inner.now
            {
                inner.now = ns;
            }
            if inner.outcome.is_some() {
                drop(inner);
                self.park_forever();
            }
            debug_assert_eq!(inner.current, me, "thread without the baton is running");
            inner.steps += 1;
            if let TState::Blocked { what, deadline, .. } = &new_state {
                let (what, deadline) = (*what, *deadline);
                Self::log(&mut inner, || format!("block {what} deadline={deadline:?}"));
            }
            inner.threads[me].state = new_state;
            inner.threads[me].wake = Wake::Signal;
            if !finished
                && let Some(n) = inner.threads[me].crash_in
            {
                if n <= 1 {
                    // The simulated kill: this thread never runs again. No destructor of
                    // its frames runs, exactly as for a killed process.
                    inner.threads[me].crash_in = None;
                    inner.threads[me].crashed = true;
                    inner.threads[me].state = TState::Blocked { res: new_res(), deadline: None, what: "crashed (simulated kill)" };
                    *inner.counters.entry("fault.crash".to_string()).or_insert(0) += 1;
                    Self::log(&mut inner, || "CRASH (simulated kill)".to_string());
                    let done_res = inner.threads[me].done_res;
                    for t in inner.threads.iter_mut() {
                        if let TState::Blocked { res: r, .. } = t.state
                            && r == done_res
                        {
                            t.state = TState::Runnable;
                            t.wake = Wake::Signal;
                        }
                    }
                } else {
                    inner.threads[me].crash_in = Some(n - 1);
                }
            }
            if inner.steps > inner.limits.max_steps {
                self.end(&mut inner, Outcome::StepLimit);
                drop(inner);
                if finished {
                    return Wake::Signal;
                }
                self.park_forever();
            }
            let next = match self.pick(&mut inner) {
                Some(n) => n,
                None => {
                    drop(inner);
                    if finished {
                        return Wake::Signal;
                    }
                    self.park_forever();
                }
            };
            if next == me {
                return inner.threads[me].wake;
            }
            inner.switches += 1;
            inner.hash = fnv_mix(inner.hash, next as u64);
            inner.current = next;
            Self::log(&mut inner, || format!("switch -> T{next}"));
            my_sem = inner.threads[me].sem.clone();
            let next_sem = inner.threads[next].sem.clone();
            next_sem.post();
        }
        if finished {
            return Wake::Signal;
        }
        my_sem.wait();
        let inner = self.lock();
        if inner.outcome.is_some() {
            drop(inner);
            self.park_forever();
        }
        inner.threads[me].wake
    }

    pub fn block(self: &Arc<Self>, me: Tid, res: ResId, deadline: Option<u64>, what: &'static str) -> Wake {
        self.reschedule(me, TState::Blocked { res, deadline, what })
    }

    pub fn yield_now(self: &Arc<Self>, me: Tid) {
        self.reschedule(me, TState::Runnable);
    }

    /// Make every thread blocked on `res` runnable.
    pub fn signal(&self, res: ResId) {
        let mut inner = self.lock();
        for t in inner.threads.iter_mut() {
            if let TState::Blocked { res: r, .. } = t.state
                && r == res
            {
                t.state = TState::Runnable;
                t.wake = Wake::Signal;
            }
        }
    }

    /// Make one specific thread runnable if it is blocked on `res`.
    pub fn wake_thread(&self, tid: Tid, res: ResId) -> bool {
        let mut inner = self.lock();
        if let TState::Blocked { res: r, .. } = inner.threads[tid].state
            && r == res
        {
            inner.threads[tid].state = TState::Runnable;
            inner.threads[tid].wake = Wake::Signal;
            return true;
        }
        false
    }

    pub fn now(&self) -> u64 {
        self.lock().now
    }

    pub fn set_now_external(&self, now: u64) {
        let mut inner = self.lock();
        if now > inner.now {
            inner.now = now;
        }
    }

    pub fn choose(&self, n: u32) -> u32 {
        self.lock().choices.draw(n)
    }

    pub fn count(&self, name: &str, by: u64) {
        let mut inner = self.lock();
        *inner.counters.entry(name.to_string()).or_insert(0) += by;
    }

    pub fn event(&self, f: impl FnOnce() -> String) {
        let mut guard = self.lock();
        let inner = &mut *guard;
        let s = f();
        let mut h = inner.hash;
        for b in s.as_bytes() {
            h ^= *b as u64;
            h = h.wrapping_mul(0x0000_0100_0000_01B3);
        }
        inner.hash = h;
        if let Some(t) = inner.trace.as_mut() {
            let line = format!("[{:>6} t={}ns T{}] {}", inner.steps, inner.now, inner.current, s);
            t.push(line);
        }
    }

    /// Cheap oracle-visible event: the numbers are hashed; text is built only when tracing.
    pub fn event_nums(&self, tag: &'static str, a: u64, b: u64, c: u64) {
        let mut guard = self.lock();
        let inner = &mut *guard;
        let mut h = inner.hash;
        for b in tag.as_bytes() {
            h ^= *b as u64;
            h = h.wrapping_mul(0x0000_0100_0000_01B3);
        }
        inner.hash = fnv_mix(fnv_mix(fnv_mix(h, a), b), c);
        if let Some(t) = inner.trace.as_mut() {
            let line = format!("[{:>6} t={}ns T{}] {tag} {a} {b} {c}", inner.steps, inner.now, inner.current);
            t.push(line);
        }
    }

    /// Cooperative fault point: each named site is enabled for about half of the
    /// runs (decided by a draw at first use) and, when enabled, fires with
    /// probability `num/den`. A zero draw never enables and never fires.
    pub fn buggify(&self, site: &'static str, num: u32, den: u32) -> bool {
        let mut inner = self.lock();
        let enabled = match inner.buggify_sites.get(site) {
            Some(e) => *e,
            None => {
                let e = inner.choices.draw(2) == 1;
                inner.buggify_sites.insert(site, e);
                e
            }
        };
        if !enabled {
            return false;
        }
        let fired = inner.choices.draw(den) >= den - num.min(den);
        if fired {
            *inner.counters.entry(format!("buggify.{site}")).or_insert(0) += 1;
        }
        fired
    }

    pub fn parallelism(&self) -> usize {
        self.lock().parallelism
    }

    pub fn record_panic(&self, msg: String) {
        let mut inner = self.lock();
        inner.panics.push(msg);
    }

    /// Register and start a new simulated thread. The OS thread waits for the baton.
    pub fn spawn_thread(
        self: &Arc<Self>,
        name: String,
        f: Box<dyn FnOnce() + Send + 'static>,
    ) -> (Tid, ResId) {
        let sem = Arc::new(Sem::new());
        let done_res = new_res();
        let tid;
        {
            let mut inner = self.lock();
            tid = inner.threads.len();
            let prio = match inner.sched {
                Sched::Pct { .. } => 1_000_000 + inner.choices.draw(1_000_000) as u64,
                _ => 0,
            };
            inner.threads.push(Th {
                name: name.clone(),
                state: TState::Runnable,
                sem: sem.clone(),
                wake: Wake::Signal,
                prio,
                done_res,
                crash_in: None,
                crashed: false,
            });
            Self::log(&mut inner, || format!("spawn T{tid} '{name}'"));
        }
        crate::tokio_rt::thread_spawned();
        let k = self.clone();
        let builder = std::thread::Builder::new().name(format!("sim-{name}"));
        builder
            .spawn(move || {
                sem.wait();
                {
                    let inner = k.lock();
                    if inner.outcome.is_some() {
                        drop(inner);
                        k.park_forever();
                    }
                }
                CUR.with(|c| *c.borrow_mut() = Some((k.clone(), tid)));
                let r = std::panic::catch_unwind(std::panic::AssertUnwindSafe(f));
                if let Err(p) = r
                    && let Some(msg) = describe_panic(&*p)
                {
                    let tname = k.lock().threads[tid].name.clone();
                    k.record_panic(format!("thread '{tname}': {msg}"));
                }
                k.finish(tid);
            })
            .expect("spawn OS thread");
        (tid, done_res)
    }

    fn finish(self: &Arc<Self>, me: Tid) {
        let done_res = {
            let mut inner = self.lock();
            if me == 0 {
                inner.main_done = true;
                inner.main_done_at = inner.now;
            }
            Self::log(&mut inner, || "finish".to_string());
            inner.threads[me].done_res
        };
        self.signal(done_res);
        CUR.with(|c| *c.borrow_mut() = None);
        self.reschedule(me, TState::Finished);
    }

    /// Threads other than `me` that have not finished (and were not frozen by a crash).
    pub fn live_others(&self, me: Tid) -> usize {
        let inner = self.lock();
        inner
            .threads
            .iter()
            .enumerate()
            .filter(|(i, t)| *i != me && !matches!(t.state, TState::Finished) && !t.crashed)
            .count()
    }

    pub fn is_external_clock(&self) -> bool {
        self.lock().external_clock
    }

    pub fn is_crashed(&self, tid: Tid) -> bool {
        self.lock().threads[tid].crashed
    }

    /// Freeze the calling thread at its `n`-th scheduling point from now (simulated kill).
    pub fn crash_after(&self, tid: Tid, n: u64) {
        self.lock().threads[tid].crash_in = Some(n.max(1));
    }

    /// Scheduling points this thread has passed are not tracked per thread; callers count
    /// with `steps_of_run` deltas in single-actor phases or use a dry run.
    pub fn steps_so_far(&self) -> u64 {
        self.lock().steps
    }

    pub fn is_finished(&self, tid: Tid) -> bool {
        matches!(self.lock().threads[tid].state, TState::Finished)
    }

    /// Number of threads that are neither finished nor the caller.
    pub fn live_threads(&self) -> usize {
        let inner = self.lock();
        inner.threads.iter().filter(|t| !matches!(t.state, TState::Finished)).count()
    }

    // ---- used by the tokio pump (external clock mode) ----

    /// Earliest deadline among blocked threads.
    pub fn earliest_deadline(&self) -> Option<u64> {
        let inner = self.lock();
        inner
            .threads
            .iter()
            .filter_map(|t| match t.state {
                TState::Blocked { deadline: Some(d), .. } => Some(d),
                _ => None,
            })
            .min()
    }

    /// Wake blocked threads whose deadline has passed on the (external) clock.
    pub fn fire_deadlines(&self, now: u64) {
        let mut inner = self.lock();
        if now > inner.now {
            inner.now = now;
        }
        for t in inner.threads.iter_mut() {
            if let TState::Blocked { deadline: Some(dl), .. } = t.state
                && dl <= now
            {
                t.state = TState::Runnable;
                t.wake = Wake::Timeout;
            }
        }
    }

    /// Is any thread other than `me` runnable?
    pub fn others_runnable(&self, me: Tid) -> bool {
        let inner = self.lock();
        inner
            .threads
            .iter()
            .enumerate()
            .any(|(i, t)| i != me && matches!(t.state, TState::Runnable))
    }

    /// Are there threads (other than `me`) blocked (not finished)?
    pub fn others_blocked(&self, me: Tid) -> Vec<String> {
        let inner = self.lock();
        inner
            .threads
            .iter()
            .enumerate()
            .filter_map(|(i, t)| match &t.state {
                TState::Blocked { what, .. } if i != me => Some(format!("T{i} '{}' in {}", t.name, what)),
                _ => None,
            })
            .collect()
    }
}

pub struct RunSetup {
    pub choices: Choices,
    pub limits: Limits,
    /// The tokio runtime owns the clock (the kernel never advances time itself).
    pub external_clock: bool,
}

/// Run `main` as simulated thread 0 under a fresh kernel and wait (in real time)
/// for the run to end.
pub fn run(setup: RunSetup, main: impl FnOnce() + Send + 'static) -> RunReport {
    install_panic_hook();
    let mut choices = setup.choices;
    // Scheduler parameters are the first draws of every run.
    let kind = choices.draw(3);
    let sched = match kind {
        0 => {
            let p = [0u32, 2, 10, 30, 60][choices.draw(5) as usize];
            Sched::Sticky { preempt_pct: p }
        }
        1 => Sched::Random,
        _ => {
            let d = choices.draw(4) as usize;
            let horizon = [50u32, 200, 1000, 5000][choices.draw(4) as usize];
            let mut cps = Vec::new();
            for _ in 0..d {
                cps.push(choices.draw(horizon) as u64 + 1);
            }
            Sched::Pct { change_points: cps, next_low: 1000 }
        }
    };
    let parallelism = [1usize, 2, 4, 16][choices.draw(4) as usize];
    let trace = setup.limits.trace;
    let wall = setup.limits.wall;
    let kernel = Arc::new(Kernel {
        inner: StdMutex::new(KInner {
            threads: Vec::new(),
            current: 0,
            now: 0,
            choices,
            sched,
            steps: 0,
            limits: setup.limits,
            outcome: None,
            main_done: false,
            main_done_at: 0,
            hash: crate::rng::FNV_OFFSET,
            trace: if trace { Some(Vec::new()) } else { None },
            counters: BTreeMap::new(),
            panics: Vec::new(),
            hook_panics: Vec::new(),
            parallelism,
            switches: 0,
            time_advances: 0,
            external_clock: setup.external_clock,
            buggify_sites: BTreeMap::new(),
        }),
        done_cv: StdCondvar::new(),
    });
    let (tid, _) = kernel.spawn_thread("main".to_string(), Box::new(main));
    assert_eq!(tid, 0);
    // hand the baton to main
    {
        let inner = kernel.lock();
        inner.threads[0].sem.post();
    }
    let mut inner = kernel.lock();
    // The real-time watchdog counts *observed* 200 ms waits during which the run made no step,
    // not elapsed wall-clock time: a machine that is paused or snapshotted for minutes (it
    // happens to this sandbox) must not make every run in flight look frozen.
    let idle_limit = (wall.as_millis() / 200).max(1) as u64;
    let (mut idle_ticks, mut last_steps) = (0u64, inner.steps);
    while inner.outcome.is_none() {
        let (g, to) = kernel
            .done_cv
            .wait_timeout(inner, Duration::from_millis(200))
            .unwrap_or_else(|e| e.into_inner());
        inner = g;
        if to.timed_out() && inner.outcome.is_none() {
            if inner.steps == last_steps {
                idle_ticks += 1;
            } else {
                idle_ticks = 0;
                last_steps = inner.steps;
            }
            if idle_ticks > idle_limit {
                inner.outcome = Some(Outcome::WallTimeout);
            }
        }
    }
    let leaked = inner.threads.iter().filter(|t| !matches!(t.state, TState::Finished)).count();
    let hash = fnv_mix(fnv_mix(inner.hash, inner.choices.hash), inner.now);
    RunReport {
        outcome: inner.outcome.clone().unwrap(),
        steps: inner.steps,
        switches: inner.switches,
        sim_ns: inner.now,
        time_advances: inner.time_advances,
        hash,
        choices: std::mem::take(&mut inner.choices.record),
        panics: inner.panics.clone(),
        hook_panics: inner.hook_panics.clone(),
        counters: inner.counters.clone(),
        threads: inner.threads.len(),
        leaked,
        trace: inner.trace.take().unwrap_or_default(),
    }
}

// ---- free functions used by primitives and harness code ----

/// A scheduling point (no-op outside a simulation).
pub fn yield_point() {
    if let Some((k, me)) = current() {
        k.yield_now(me);
    }
}

/// Uniform draw in `0..n` from the run's choice source. Outside a simulation
/// returns 0.
pub fn choose(n: u32) -> u32 {
    match current() {
        Some((k, _)) => k.choose(n),
        None => 0,
    }
}

/// `true` with probability `num/den`; a zero draw is always `false`.
pub fn chance(num: u32, den: u32) -> bool {
    if num == 0 {
        return false;
    }
    choose(den) >= den - num.min(den)
}

/// See [`Kernel::buggify`]. Always `false` outside a simulation.
pub fn buggify(site: &'static str, num: u32, den: u32) -> bool {
    match current() {
        Some((k, _)) => k.buggify(site, num, den),
        None => false,
    }
}

/// Simulated process kill of the calling thread at its `n`-th scheduling point from now.
pub fn crash_self_after(n: u64) {
    if let Some((k, me)) = current() {
        k.crash_after(me, n);
    }
}

/// Disarm a pending [`crash_self_after`].
pub fn crash_disarm() -> bool {
    if let Some((k, me)) = current() {
        let mut inner = k.lock();
        return inner.threads[me].crash_in.take().is_some();
    }
    false
}

pub fn event_nums(tag: &'static str, a: u64, b: u64, c: u64) {
    if let Some((k, _)) = current() {
        k.event_nums(tag, a, b, c);
    }
}

pub fn now_ns() -> u64 {
    match current() {
        Some((k, _)) => {
            if let Some(ns) = crate::tokio_rt::rt_now() {
                k.set_now_external(ns);
            }
            k.now()
        }
        None => {
            static START: std::sync::OnceLock<std::time::Instant> = std::sync::OnceLock::new();
            START.get_or_init(std::time::Instant::now).elapsed().as_nanos() as u64
        }
    }
}

pub fn count(name: &str) {
    if let Some((k, _)) = current() {
        k.count(name, 1);
    }
}
pub fn count_by(name: &str, by: u64) {
    if let Some((k, _)) = current() {
        k.count(name, by);
    }
}

/// Record an oracle-visible event: hashed into the run's event-log hash and, when
/// tracing, appended to the textual trace.
pub fn event(f: impl FnOnce() -> String) {
    if let Some((k, _)) = current() {
        k.event(f);
    }
}
