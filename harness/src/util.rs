//! Shared helpers for scenarios.
