//! C02 on the live tokio endpoints: a hostile peer sends malformed bytes to the real
//! `AsyncServer`, and (as a server) to the real `AsyncClient` with calls in flight.

use crate::codec::Frame;
use crate::families::aio::{self, FrameReader};
use crate::families::c03_common::{Counters, build_router};
use crate::families::client_blocking::draw_net;
use crate::families::hostile::gen_live_input;
use crate::framework::{Case, Family, range};
use repe::{AsyncClient, AsyncServer};
use serde_json::json;
use simkernel::net;
use simkernel::tokio_net::{TcpListener, TcpStream};
use std::sync::Arc;
use std::time::Duration;
use tokio::io::{AsyncReadExt, AsyncWriteExt};
use tokio::time::timeout;

pub fn families() -> Vec<Family> {
    vec![
        Family::new(
            "c02_live_async_server",
            "C02",
            "hostile peer sends malformed bytes to the real AsyncServer; a second healthy connection must still be served",
            c02_live_async_server,
        )
        .runs(100_000, 6_000_000)
        .aborts()
        .tokio(),
        Family::new(
            "c02_live_async_client",
            "C02",
            "hostile server answers the real AsyncClient with malformed bytes while calls are in flight; calls fail, process survives",
            c02_live_async_client,
        )
        .runs(100_000, 6_000_000)
        .aborts()
        .tokio(),
        Family::new(
            "c02_live_ws_server",
            "C02",
            "hostile peer sends malformed bytes as WebSocket binary messages to the real WebSocketServer; the connection is failed, a second healthy connection must still be served",
            c02_live_ws_server,
        )
        .runs(30_000, 1_800_000)
        .aborts()
        .tokio(),
        Family::new(
            "c02_live_ws_client",
            "C02",
            "hostile server answers the real WebSocketClient with malformed bytes in binary messages while calls are in flight; calls fail, process survives",
            c02_live_ws_client,
        )
        .runs(30_000, 1_800_000)
        .aborts()
        .tokio(),
    ]
}

fn c02_live_async_server(case: &Case) {
    net::reset(draw_net());
    let (input, desc) = gen_live_input();
    let valid_first = simkernel::choose(2) == 0;
    case.sample(json!({"hostile_bytes": desc, "len": input.len(), "valid_request_first": valid_first}));
    let case = case.clone();
    aio::run(&case.clone(), 3_600, async move {
        let counters = Arc::new(Counters::default());
        let router = build_router(&counters, 0, true);
        let listener = AsyncServer::listen("127.0.0.1:0").await.unwrap();
        let addr = listener.local_addr().unwrap();
        let server = tokio::spawn(async move {
            let _ = AsyncServer::new(router).read_timeout(Some(Duration::from_millis(500))).serve(listener).await;
        });
        if let Ok(s) = TcpStream::connect(addr).await {
            let (mut rd, mut wr) = s.into_split();
            let inp = input.clone();
            // write from a helper task and drain here, so neither side is back-pressured
            // into a plain TCP deadlock
            let w = tokio::spawn(async move {
                if valid_first {
                    let _ = wr.write_all(&Frame::new(1, b"/json/echo", b"{\"a\":1}").with_formats(1, 2).encode()).await;
                }
                let _ = wr.write_all(&inp).await;
                wr
            });
            let mut got = Vec::new();
            let mut buf = [0u8; 4096];
            loop {
                match timeout(Duration::from_millis(200), rd.read(&mut buf)).await {
                    Ok(Ok(0)) | Ok(Err(_)) | Err(_) => break,
                    Ok(Ok(n)) => got.extend_from_slice(&buf[..n]),
                }
            }
            let _ = w.await;
            let shape = crate::codec::split_stream(&got);
            case.check(shape.garbage_at.is_none(), "server-wrote-garbage", || format!("server answered hostile bytes [{desc}] with a stream that is not frames: {:?}", shape.garbage_at));
        }
        match TcpStream::connect(addr).await {
            Ok(s) => {
                let (rd, mut wr) = s.into_split();
                let req = Frame::new(42, b"/json/echo", b"{\"ok\":true}").with_formats(1, 2);
                let _ = wr.write_all(&req.encode()).await;
                let mut fr = FrameReader::new(rd);
                match timeout(Duration::from_millis(2_000), fr.next()).await {
                    Ok(Ok(Some(f))) => {
                        case.check(f.id == 42 && f.ec == 0 && f.body == b"{\"echo\":{\"ok\":true}}", "healthy-connection-not-served", || format!("after hostile bytes [{desc}] a healthy request got {f:?}"));
                    }
                    other => case.fail("healthy-connection-not-served", format!("after hostile bytes [{desc}] a healthy request got {other:?}")),
                }
            }
            Err(e) => case.fail("healthy-connection-not-served", format!("connect after hostile bytes failed: {e}")),
        }
        case.nontrivial();
        server.abort();
        let _ = server.await;
    });
}

fn c02_live_async_client(case: &Case) {
    net::reset(draw_net());
    let (input, desc) = gen_live_input();
    let ncalls = range(1, 4);
    case.sample(json!({"hostile_bytes": desc, "len": input.len(), "calls_in_flight": ncalls}));
    let case = case.clone();
    aio::run(&case.clone(), 3_600, async move {
        let listener = TcpListener::bind("127.0.0.1:0").await.unwrap();
        let addr = listener.local_addr().unwrap();
        let inp = input.clone();
        let server = tokio::spawn(async move {
            let Ok((s, _)) = listener.accept().await else { return };
            let (rd, mut wr) = s.into_split();
            let mut fr = FrameReader::new(rd);
            let _ = timeout(Duration::from_millis(20), fr.next()).await;
            // the peer always drains what the client writes (a non-draining peer is C05's
            // quantifier): drain here, write the hostile bytes from a helper task
            let w = tokio::spawn(async move {
                let _ = wr.write_all(&inp).await;
                wr
            });
            loop {
                match timeout(Duration::from_millis(3_000), fr.drain_some(1024)).await {
                    Ok(Ok(n)) if n > 0 => {}
                    _ => break,
                }
            }
            let _ = w.await;
        });
        let Ok(client) = AsyncClient::connect(addr).await else {
            case.harness_error("connect failed");
            return;
        };
        let mut hs = Vec::new();
        for t in 0..ncalls {
            let c = client.clone();
            hs.push(tokio::spawn(async move {
                // bounded by a per-call timeout: hostile bytes that happen to be a valid frame
                // with a foreign id are legitimately ignored by the client
                let _ = c.call_json_with_timeout(format!("/x/{t}"), &json!({"t": t}), Duration::from_millis(1_000)).await;
            }));
        }
        for h in hs {
            if let Err(e) = h.await
                && e.is_panic()
            {
                case.fail("panic", format!("caller task panicked: {e}"));
            }
        }
        case.check(client.verif_pending_len() == 0, "pending-residue", || format!("{} pending entries after hostile bytes [{desc}]", client.verif_pending_len()));
        drop(client);
        case.nontrivial();
        let _ = server.await;
    });
}


fn c02_live_ws_server(case: &Case) {
    use crate::families::ws_common::{Inbox, raw_connect, send_frame, spawn_collector, wait_until};
    use futures_util::{SinkExt, StreamExt};
    use repe::websocket_server::WebSocketServer;
    use tokio_tungstenite::tungstenite::Message as WsMessage;
    net::reset(draw_net());
    let (input, desc) = gen_live_input();
    let valid_first = simkernel::choose(2) == 0;
    case.sample(json!({"hostile_bytes": desc, "len": input.len(), "valid_request_first": valid_first}));
    let case = case.clone();
    aio::run(&case.clone(), 3_600, async move {
        let counters = Arc::new(Counters::default());
        let router = build_router(&counters, 0, true);
        let listener = WebSocketServer::listen("127.0.0.1:0").await.unwrap();
        let addr = listener.local_addr().unwrap();
        let server = tokio::spawn(async move {
            let _ = WebSocketServer::new(router).on_error(|_| {}).serve_listener(listener, "/repe").await;
        });
        if let Ok(ws) = raw_connect(addr, "/repe").await {
            let (mut sink, stream) = ws.split();
            let inbox = Arc::new(Inbox::default());
            let collector = spawn_collector(stream, inbox.clone());
            if valid_first {
                let _ = send_frame(&mut sink, &Frame::new(1, b"/json/echo", b"{\"a\":1}").with_formats(1, 2)).await;
            }
            let _ = timeout(Duration::from_secs(2), sink.send(WsMessage::Binary(input.clone()))).await;
            let ib = inbox.clone();
            wait_until(300, || ib.ended()).await;
            if let Some(b) = inbox.bad() {
                case.fail("server-wrote-garbage", format!("server answered hostile bytes [{desc}] with {b}"));
            }
            let _ = timeout(Duration::from_secs(1), sink.close()).await;
            collector.abort();
            let _ = collector.await;
        }
        match raw_connect(addr, "/repe").await {
            Ok(ws) => {
                let (mut sink, stream) = ws.split();
                let inbox = Arc::new(Inbox::default());
                let collector = spawn_collector(stream, inbox.clone());
                let _ = send_frame(&mut sink, &Frame::new(42, b"/json/echo", b"{\"ok\":true}").with_formats(1, 2)).await;
                let ib = inbox.clone();
                wait_until(2_000, || !ib.responses_for(42).is_empty() || ib.ended()).await;
                let rs = inbox.responses_for(42);
                case.check(rs.len() == 1 && rs[0].ec == 0 && rs[0].body == b"{\"echo\":{\"ok\":true}}", "healthy-connection-not-served", || format!("after hostile bytes [{desc}] a healthy request got {:?}", rs.iter().map(|f| (f.ec, String::from_utf8_lossy(&f.body).to_string())).collect::<Vec<_>>()));
                let _ = timeout(Duration::from_secs(1), sink.close()).await;
                collector.abort();
                let _ = collector.await;
            }
            Err(e) => case.fail("healthy-connection-not-served", format!("connect after hostile bytes failed: {e}")),
        }
        case.nontrivial();
        server.abort();
        let _ = server.await;
    });
}

fn c02_live_ws_client(case: &Case) {
    use crate::families::ws_common::unlimited_config;
    use futures_util::{SinkExt, StreamExt};
    use tokio_tungstenite::tungstenite::Message as WsMessage;
    net::reset(draw_net());
    let (input, desc) = gen_live_input();
    let ncalls = range(1, 4);
    case.sample(json!({"hostile_bytes": desc, "len": input.len(), "calls_in_flight": ncalls}));
    let case = case.clone();
    aio::run(&case.clone(), 3_600, async move {
        let listener = TcpListener::bind("127.0.0.1:0").await.unwrap();
        let addr = listener.local_addr().unwrap();
        let inp = input.clone();
        let server = tokio::spawn(async move {
            let Ok((stream, _)) = listener.accept().await else { return };
            let Ok(ws) = tokio_tungstenite::accept_async_with_config(stream, Some(unlimited_config())).await else { return };
            let (mut sink, mut stream) = ws.split();
            let _ = timeout(Duration::from_millis(20), stream.next()).await;
            let _ = timeout(Duration::from_secs(2), sink.send(WsMessage::Binary(inp))).await;
            loop {
                match timeout(Duration::from_millis(3_000), stream.next()).await {
                    Ok(Some(Ok(_))) => {}
                    _ => break,
                }
            }
        });
        let Ok(client) = repe::WebSocketClient::connect(&format!("ws://{addr}/repe")).await else {
            case.harness_error("connect failed");
            return;
        };
        let mut hs = Vec::new();
        for t in 0..ncalls {
            let c = client.clone();
            hs.push(tokio::spawn(async move {
                let _ = c.call_json_with_timeout(format!("/x/{t}"), &json!({"t": t}), Duration::from_millis(1_000)).await;
            }));
        }
        for h in hs {
            if let Err(e) = h.await
                && e.is_panic()
            {
                case.fail("panic", format!("caller task panicked: {e}"));
            }
        }
        case.check(client.verif_pending_len() == 0, "pending-residue", || format!("{} pending entries after hostile bytes [{desc}]", client.verif_pending_len()));
        drop(client);
        case.nontrivial();
        let _ = timeout(Duration::from_secs(10), server).await;
    });
}
