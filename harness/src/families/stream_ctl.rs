//! C11 / C12 / C13: the real `TransferControl` (mutex + condvar + deadlines on the
//! simulated clock) driven by simulated producer/handler threads.

use crate::framework::{Case, Family, OnDeadlock, coin, pick, range};
use repe::peer::{NotifyBody, PeerHandle, PeerId, PeerSendError, PeerSink};
use repe::stream::{CreditError, ReconnectOutcome, ResumeRejection, TransferControl};
use serde_json::json;
use simkernel::sync::{Arc, Mutex};
use simkernel::thread;
use simkernel::time::{Duration, Instant};

pub fn families() -> Vec<Family> {
    vec![
        Family::new(
            "c12_wake",
            "C12",
            "one real waiter in wait_for_credit/wait_for_reconnect, 1-3 signaller threads, quiescence monitor",
            c12_wake,
        )
        .runs(80_000, 4_800_000)
        .steps(100_000),
        Family::new(
            "c11_history",
            "C11",
            "operation histories on the real TransferControl vs. a credit model (expired-deadline waits)",
            c11_history,
        )
        .runs(200_000, 12_000_000)
        .deadlock(OnDeadlock::HarnessError),
        Family::new(
            "c11_producer",
            "C11",
            "documented producer loop against concurrent ack/advance/resume/cancel threads",
            c11_producer,
        )
        .runs(50_000, 3_000_000)
        .steps(200_000),
        Family::new(
            "c11_cancel_race",
            "C11",
            "2-4 threads cancel one TransferControl with different reasons (plain, or converted slowly) while a producer is parked in wait_for_credit / wait_for_reconnect: the pending wait, every later wait, cancel_reason() and a resume all report one and the same reason",
            c11_cancel_race,
        )
        .runs(60_000, 3_600_000)
        .steps(100_000),
        Family::new(
            "c13_history",
            "C13",
            "push/evict/resume/advance/cancel histories on the real replay ring vs. a retained-suffix model",
            c13_history,
        )
        .runs(200_000, 12_000_000)
        .deadlock(OnDeadlock::HarnessError),
    ]
}

struct NullSink;
impl PeerSink for NullSink {
    fn send_notify(&self, _method: &str, _body: NotifyBody) -> Result<(), PeerSendError> {
        Ok(())
    }
    fn is_connected(&self) -> bool {
        true
    }
}
fn peer(id: u64) -> PeerHandle {
    PeerHandle::new(PeerId(id), Arc::new(NullSink))
}

const MS: u64 = 1_000_000;

// =========================================================================== C12

#[derive(Clone, Debug)]
enum SigOp {
    Ack { file: u32, off: u64 },
    Cancel(String),
    /// cancel whose reason takes `nap` ns to convert, inside the control's critical section
    SlowCancel(String, u64),
    Advance(u32),
    Resume { file: u32, off: u64 },
    Send(u64),
}

#[derive(Clone, Debug)]
enum WaitResult {
    Credit(Result<(), String>), // Err("timeout") | Err("cancelled:<r>")
    Reconnect(String),          // "resume:<off>" | "cancelled:<r>" | "timeout"
}

struct C12Shared {
    /// (sim time ns, description) of every signaller op, appended when the op returns
    ops: Vec<(u64, String)>,
    returned: Option<(u64, WaitResult)>,
    /// reconnect mode: model of the pending-resume slot (exact: resume/advance are serialised)
    pending: bool,
    cancel_reasons: Vec<String>,
    /// (entered, left) the slow conversion inside `cancel`'s critical section, sim ns
    slow_cancel: Option<(u64, u64)>,
}

/// A cancel reason whose conversion to `String` (evaluated by `cancel` while it holds the
/// control's lock) takes simulated time: the signaller's critical section can then straddle
/// the waiter's deadline.
struct SlowReason {
    text: String,
    nap_ns: u64,
    log: Arc<std::sync::Mutex<C12Shared>>,
}
impl From<SlowReason> for String {
    fn from(r: SlowReason) -> String {
        let t_in = simkernel::now_ns();
        thread::sleep(Duration::from_nanos(r.nap_ns));
        let t_out = simkernel::now_ns();
        r.log.lock().unwrap().slow_cancel = Some((t_in, t_out));
        simkernel::count("fault.slow_critical_section_across_deadline");
        r.text
    }
}

fn c12_wake(case: &Case) {
    let reconnect_mode = simkernel::choose(10) >= 7;
    let window: u64 = pick(&[1u64, 4, 16, 100, 1 << 20]);
    let ring_cap: u64 = pick(&[0u64, 8, 64, 1 << 20]);
    let ctl = TransferControl::with_replay_capacity(window, ring_cap);
    ctl.set_peer(peer(1));
    // ring + sent offset
    let nchunks = range(1, 4) as u64;
    let mut off = 0u64;
    let mut boundaries = vec![0u64];
    for i in 0..nchunks {
        let d = pick(&[1u64, 2, 5, 16]);
        ctl.push_replay(off, d, i + 1 == nchunks, vec![i as u8; d as usize]);
        off += d;
        boundaries.push(off);
    }
    let sent = off;
    ctl.record_sent(sent);
    // acked so that something is in flight
    let acked = simkernel::choose(sent as u32) as u64; // < sent
    if acked > 0 {
        ctl.record_ack(0, acked);
    }
    let in_flight = sent - acked;
    // chunk length that does NOT fit right now
    let len: u64 = if in_flight > window { range(0, 3) as u64 } else { window - in_flight + 1 + simkernel::choose(3) as u64 };

    // deadline plan
    let never = simkernel::choose(8) == 7; // signallers only issue non-satisfying ops
    let deadline_ns: u64 = if never || simkernel::choose(4) == 3 {
        // near deadline, on or off the signal grid
        pick(&[2 * MS, 3 * MS, 3 * MS + MS / 4, 5 * MS, 7 * MS + 1])
    } else {
        1_000_000 * MS
    };

    let nsig = range(1, 3) as usize;
    let mut plans: Vec<Vec<(u64, SigOp)>> = Vec::new();
    let mut max_t = 0u64;
    for s in 0..nsig {
        let nops = range(1, 4);
        let mut t = 0u64;
        let mut plan = Vec::new();
        for j in 0..nops {
            t += pick(&[0u64, 0, 1, 1, 2]) * MS;
            let op = if never {
                match simkernel::choose(3) {
                    0 => SigOp::Ack { file: 7, off: u64::MAX },
                    1 => SigOp::Ack { file: 0, off: acked },
                    _ => SigOp::Send(sent + 1 + simkernel::choose(4) as u64),
                }
            } else {
                match simkernel::choose(10) {
                    0..=3 => {
                        let off = match simkernel::choose(6) {
                            0 => acked,
                            1 => sent,
                            2 => sent + 10,
                            3 => u64::MAX,
                            _ => acked + 1 + simkernel::choose((sent - acked) as u32) as u64,
                        };
                        SigOp::Ack { file: if simkernel::choose(6) == 5 { 3 } else { 0 }, off }
                    }
                    4 => SigOp::Cancel(format!("r{s}.{j}")),
                    // (a later file, or the active file started over: both reset the offsets)
                    5 => SigOp::Advance(simkernel::choose(3)),
                    6 | 7 => {
                        let off = if simkernel::choose(5) == 4 {
                            sent + 3
                        } else {
                            boundaries[simkernel::choose(boundaries.len() as u32) as usize]
                        };
                        SigOp::Resume { file: if simkernel::choose(6) == 5 { 9 } else { 0 }, off }
                    }
                    _ => SigOp::Send(sent + 1 + simkernel::choose(8) as u64),
                }
            };
            plan.push((t, op));
        }
        max_t = max_t.max(t);
        plans.push(plan);
    }
    // a signaller whose critical section is still open when the waiter's deadline passes
    let mut slow_planned = false;
    if !never && deadline_ns < 100 * MS && simkernel::choose(3) == 0 {
        'outer: for plan in plans.iter_mut() {
            for (t, op) in plan.iter_mut() {
                if *t < deadline_ns
                    && let SigOp::Cancel(r) = op
                {
                    *op = SigOp::SlowCancel(r.clone(), deadline_ns - *t + MS);
                    slow_planned = true;
                    break 'outer;
                }
            }
        }
    }
    case.sample(json!({
        "mode": if reconnect_mode { "wait_for_reconnect" } else { "wait_for_credit" },
        "window": window, "ring_cap": ring_cap, "sent": sent, "acked": acked, "chunk_len": len,
        "deadline_ns": deadline_ns, "never_satisfied": never,
        "signallers": plans.iter().map(|p| p.iter().map(|(t, o)| format!("t={}ms {:?}", t / MS, o)).collect::<Vec<_>>()).collect::<Vec<_>>(),
    }));

    let shared = Arc::new(std::sync::Mutex::new(C12Shared {
        ops: Vec::new(),
        returned: None,
        pending: false,
        cancel_reasons: Vec::new(),
        slow_cancel: None,
    }));
    // serialises resume/advance so the pending-resume model is exact
    let order = Arc::new(Mutex::new(()));

    let t_start = Instant::now();
    // In reconnect mode the producer may have been quiet for a while (since its last chunk and
    // ack) before it notices the dead link and parks: the window it asks for starts then.
    // (kept off the monitor's half-millisecond grid, where it expects nothing else to be runnable)
    let quiet_ns = if reconnect_mode {
        let q = pick(&[0u64, 0, MS / 4, MS + MS / 4, 2 * MS + MS / 4]).min(deadline_ns / 2);
        if q % MS == MS / 2 { q - MS / 4 } else { q }
    } else {
        0
    };
    let started = Arc::new(std::sync::atomic::AtomicBool::new(false));
    let (w_started, m_started) = (started.clone(), started.clone());
    // ---- waiter
    let w_ctl = ctl.clone();
    let w_sh = shared.clone();
    let waiter = thread::spawn(move || {
        if quiet_ns > 0 {
            simkernel::count("probe.quiet_period_before_the_reconnect_wait");
            thread::sleep(Duration::from_nanos(quiet_ns));
        }
        w_started.store(true, std::sync::atomic::Ordering::SeqCst);
        let r = if reconnect_mode {
            let out = w_ctl.wait_for_reconnect(Duration::from_nanos(deadline_ns - quiet_ns));
            WaitResult::Reconnect(match out {
                ReconnectOutcome::ResumeReady(p) => format!("resume:{}", p.resume_at_offset),
                ReconnectOutcome::Cancelled(r) => format!("cancelled:{r}"),
                ReconnectOutcome::Timeout => "timeout".to_string(),
            })
        } else {
            let out = w_ctl.wait_for_credit(len, t_start + Duration::from_nanos(deadline_ns));
            WaitResult::Credit(match out {
                Ok(()) => Ok(()),
                Err(CreditError::Cancelled(r)) => Err(format!("cancelled:{r}")),
                Err(CreditError::Timeout) => Err("timeout".to_string()),
            })
        };
        let now = simkernel::now_ns();
        simkernel::event(|| format!("waiter returned {r:?}"));
        w_sh.lock().unwrap().returned = Some((now, r));
    });
    // ---- signallers
    let mut sigs = Vec::new();
    for plan in plans.clone() {
        let ctl = ctl.clone();
        let sh = shared.clone();
        let sig_case = case.clone();
        let order = order.clone();
        sigs.push(thread::spawn(move || {
            let mut now_t = 0u64;
            for (t, op) in plan {
                if t > now_t {
                    thread::sleep(Duration::from_nanos(t - now_t));
                    now_t = t;
                }
                let desc = format!("{op:?}");
                match op {
                    SigOp::Ack { file, off } => ctl.record_ack(file, off),
                    SigOp::Cancel(r) => {
                        sh.lock().unwrap().cancel_reasons.push(r.clone());
                        ctl.cancel(r)
                    }
                    SigOp::SlowCancel(r, nap_ns) => {
                        sh.lock().unwrap().cancel_reasons.push(r.clone());
                        ctl.cancel(SlowReason { text: r, nap_ns, log: sh.clone() })
                    }
                    SigOp::Advance(f) => {
                        let _g = order.lock().unwrap();
                        ctl.advance_to_file(f);
                        sh.lock().unwrap().pending = false;
                        // a file advance - to a later file or to the active one started over -
                        // resets the offsets (sends are serialised with it through `order`)
                        let (s, a) = ctl.offsets();
                        if (s, a) != (0, 0) {
                            sig_case.fail("advance-not-applied", format!("advance_to_file({f}) returned but the offsets are still ({s},{a}): the waiter cannot have been woken by it"));
                        }
                    }
                    SigOp::Resume { file, off } => {
                        let _g = order.lock().unwrap();
                        // A waiter that already consumed the slot keeps `returned` set, so the
                        // model bit is only consulted while the waiter is still parked.
                        if ctl.request_resume(peer(2), file, off).is_ok() {
                            sh.lock().unwrap().pending = true;
                        }
                    }
                    SigOp::Send(o) => {
                        let _g = order.lock().unwrap();
                        ctl.record_sent(o)
                    }
                }
                let now = simkernel::now_ns();
                simkernel::event(|| format!("op {desc}"));
                sh.lock().unwrap().ops.push((now, desc));
            }
        }));
    }
    // ---- quiescence monitor: wakes half a grid step after each instant; the clock only
    // advances when nothing is runnable, so what it sees is the settled state.
    let m_ctl = ctl.clone();
    let m_sh = shared.clone();
    let m_case = case.clone();
    let m_order = order.clone();
    let monitor = thread::spawn(move || {
        let mut t = 0u64;
        let last = max_t.max(deadline_ns.min(8 * MS)) + 2 * MS;
        while t <= last {
            let target = t + MS / 2;
            let now = simkernel::now_ns();
            if target > now {
                thread::sleep(Duration::from_nanos(target - now));
            }
            let _g = m_order.lock().unwrap();
            let (s, a) = m_ctl.offsets();
            let cancelled = m_ctl.is_cancelled();
            let (returned, pending) = {
                let sh = m_sh.lock().unwrap();
                (sh.returned.clone(), sh.pending)
            };
            let in_flight = s.saturating_sub(a);
            let pred = if reconnect_mode {
                cancelled || pending
            } else {
                cancelled || in_flight == 0 || in_flight + len <= window
            };
            let now = simkernel::now_ns();
            let expired = now >= deadline_ns;
            // (when a signaller's critical section is stretched across the deadline the monitor's
            // own reads queue behind that lock, so what it sees is no longer a quiescent state:
            // such runs are judged by their final outcome only)
            if returned.is_none() && !slow_planned && m_started.load(std::sync::atomic::Ordering::SeqCst) {
                if pred {
                    m_case.fail(
                        "lost-wakeup",
                        format!(
                            "waiter still parked at quiescence t={now}ns although its condition holds (sent={s} acked={a} window={window} len={len} cancelled={cancelled} pending_resume={pending})"
                        ),
                    );
                    return;
                }
                if expired {
                    m_case.fail(
                        "missed-deadline",
                        format!("waiter still parked at t={now}ns, past its deadline {deadline_ns}ns"),
                    );
                    return;
                }
            }
            t += MS;
        }
    });

    for s in sigs {
        s.join().ok();
    }
    monitor.join().ok();
    // release a waiter that is legitimately still parked (far deadline, condition false)
    let still_parked = shared.lock().unwrap().returned.is_none();
    if still_parked && !case.failed() {
        case.probe("waiter_released_by_final_cancel");
        ctl.cancel("harness-final");
        shared.lock().unwrap().cancel_reasons.push("harness-final".into());
    } else if still_parked {
        ctl.cancel("harness-final");
    }
    waiter.join().ok();
    if case.failed() {
        return;
    }
    case.nontrivial();
    let sh = shared.lock().unwrap();
    let Some((t_ret, res)) = sh.returned.clone() else {
        case.fail("hang", "waiter never returned");
        return;
    };
    let res_str = match &res {
        WaitResult::Credit(Ok(())) => "ok".to_string(),
        WaitResult::Credit(Err(e)) => e.clone(),
        WaitResult::Reconnect(s) => s.clone(),
    };
    if res_str == "timeout" {
        case.probe("waiter_timed_out");
        // A cancel whose critical section was open from before the deadline until after it:
        // the waiter could not have looked at the state in between, so when it finally got
        // the lock the cancel had been applied - reporting Timeout discards it.
        if let Some((t_in, t_out)) = sh.slow_cancel
            && t_in < deadline_ns
            && t_out > deadline_ns
        {
            case.fail(
                "timeout-despite-applied-cancel",
                format!("a cancel held the control's lock from t={t_in}ns to t={t_out}ns, across the waiter's deadline {deadline_ns}ns; the waiter returned Timeout at t={t_ret}ns although the transfer was cancelled by then"),
            );
            return;
        }
        case.check(t_ret == deadline_ns || (slow_planned && t_ret >= deadline_ns), "timeout-not-at-deadline", || {
            format!("wait returned Timeout at t={t_ret}ns, deadline was {deadline_ns}ns")
        });
    } else {
        case.probe("waiter_woken_by_signal");
        if t_ret == deadline_ns {
            case.probe("deadline_coincided_with_signal");
        }
        if let Some(r) = res_str.strip_prefix("cancelled:") {
            case.check(sh.cancel_reasons.iter().any(|x| x == r), "bogus-cancel-reason", || {
                format!("wait reported cancel reason {r:?}, issued reasons {:?}", sh.cancel_reasons)
            });
            // the first reason wins, for good: what the parked waiter was told is what everybody
            // is told from now on, however many cancels overlapped
            let now_reason = ctl.cancel_reason();
            case.check(now_reason.as_deref() == Some(r), "cancel-reason-changed", || {
                format!("the parked waiter was told {r:?}; after all signallers finished cancel_reason() says {now_reason:?} (issued: {:?})", sh.cancel_reasons)
            });
            let later = match ctl.wait_for_credit(1, Instant::now() + Duration::from_millis(1)) {
                Err(CreditError::Cancelled(x)) => x,
                other => format!("{other:?}"),
            };
            case.check(later == r, "cancel-reason-changed", || format!("the parked waiter was told {r:?}; a later wait_for_credit reports {later:?}"));
            if sh.cancel_reasons.len() >= 2 {
                case.probe("several_cancels_issued");
            }
        }
        if never && res_str != "cancelled:harness-final" {
            case.fail(
                "woken-without-condition",
                format!("wait returned {res_str} at t={t_ret}ns although no op could satisfy it; ops={:?}", sh.ops),
            );
        }
    }
    // Was a satisfying signal undone (ack then send) inside one instant while the waiter stayed parked?
    let undone = sh
        .ops
        .windows(2)
        .any(|w| w[0].0 == w[1].0 && w[0].1.starts_with("Ack") && w[1].1.starts_with("Send") && t_ret > w[0].0);
    if undone {
        case.probe("signal_undone_before_waiter_ran");
    }
}

// =========================================================================== C11

/// A reason whose conversion to `String` is a scheduling point (and takes simulated time).
struct NappingReason(String, u64);
impl From<NappingReason> for String {
    fn from(r: NappingReason) -> String {
        thread::sleep(Duration::from_nanos(r.1));
        r.0
    }
}

fn c11_cancel_race(case: &Case) {
    let reconnect_mode = coin();
    let ctl = TransferControl::with_replay_capacity(4, 64);
    ctl.set_peer(peer(1));
    ctl.record_sent(4); // window full: wait_for_credit(1) parks
    let n_cancellers = range(2, 4) as usize;
    let plans: Vec<(u64, u64, bool)> = (0..n_cancellers).map(|_| (pick(&[0u64, 0, 1_000, 50_000]), pick(&[0u64, 1_000, 200_000]), coin())).collect();
    case.sample(json!({"waiter": if reconnect_mode {"wait_for_reconnect"} else {"wait_for_credit"}, "cancellers": plans.iter().map(|(d, n, slow)| json!({"start_after_ns": d, "slow_reason": slow, "nap_ns": n})).collect::<Vec<_>>()}));
    let far = Instant::now() + Duration::from_secs(3_600);
    let w_ctl = ctl.clone();
    let waiter = thread::spawn(move || -> String {
        if reconnect_mode {
            match w_ctl.wait_for_reconnect(Duration::from_secs(3_600)) {
                ReconnectOutcome::Cancelled(r) => r,
                other => format!("<{other:?}>"),
            }
        } else {
            match w_ctl.wait_for_credit(1, far) {
                Err(CreditError::Cancelled(r)) => r,
                other => format!("<{other:?}>"),
            }
        }
    });
    let hs: Vec<_> = plans
        .iter()
        .enumerate()
        .map(|(k, (delay, nap, slow))| {
            let (c, delay, nap, slow) = (ctl.clone(), *delay, *nap, *slow);
            thread::spawn(move || {
                thread::sleep(Duration::from_nanos(delay));
                if slow { c.cancel(NappingReason(format!("reason-{k}"), nap)) } else { c.cancel(format!("reason-{k}")) }
            })
        })
        .collect();
    for h in hs {
        h.join().ok();
    }
    let Ok(told) = waiter.join() else {
        case.fail("panic", "waiter panicked");
        return;
    };
    let issued: Vec<String> = (0..n_cancellers).map(|k| format!("reason-{k}")).collect();
    if !case.check(issued.contains(&told), "cancel-not-reported", || format!("the parked wait returned {told:?}; cancels issued: {issued:?}")) {
        return;
    }
    let now_reason = ctl.cancel_reason();
    case.check(now_reason.as_deref() == Some(told.as_str()), "cancel-reason-changed", || format!("the pending wait was told {told:?}; afterwards cancel_reason() says {now_reason:?}"));
    let later_credit = match ctl.wait_for_credit(1, Instant::now()) {
        Err(CreditError::Cancelled(r)) => r,
        other => format!("<{other:?}>"),
    };
    case.check(later_credit == told, "cancel-reason-changed", || format!("the pending wait was told {told:?}; a later wait_for_credit reports {later_credit:?}"));
    let later_reconnect = match ctl.wait_for_reconnect(Duration::from_nanos(0)) {
        ReconnectOutcome::Cancelled(r) => r,
        other => format!("<{other:?}>"),
    };
    case.check(later_reconnect == told, "cancel-reason-changed", || format!("the pending wait was told {told:?}; a later wait_for_reconnect reports {later_reconnect:?}"));
    let resume = ctl.request_resume(peer(2), 0, 0);
    case.check(matches!(resume, Err(ResumeRejection::Cancelled)), "resume-after-cancel", || format!("request_resume after cancel returned {resume:?}"));
    // one more cancel, afterwards: still the first reason
    ctl.cancel("too-late");
    let fin = ctl.cancel_reason();
    case.check(fin.as_deref() == Some(told.as_str()), "cancel-reason-changed", || format!("a later cancel replaced the reason {told:?} by {fin:?}"));
    case.nontrivial();
}

/// Reference model of the credit accounting (no repository code).
/// A file index that is not `cur`: a later one, or an *earlier* one (a late or hostile
/// acknowledgement / resume for a file that is already finished), or an extreme.
fn other_file(cur: u32) -> u32 {
    let f = match simkernel::choose(5) {
        0 | 1 => cur.wrapping_add(1 + simkernel::choose(3)),
        2 | 3 => cur.wrapping_sub(1 + simkernel::choose(3)),
        _ => pick(&[0u32, u32::MAX]),
    };
    if f == cur { cur.wrapping_add(1) } else { f }
}

#[derive(Clone, Debug)]
struct CreditModel {
    window: u64,
    sent: u64,
    acked: u64,
    file: u32,
    cancelled: Option<String>,
}

impl CreditModel {
    fn grant(&self, len: u64) -> bool {
        let in_flight = self.sent - self.acked;
        in_flight == 0 || (in_flight as u128 + len as u128) <= self.window as u128
    }
}

/// Retained-suffix model of the replay ring.
#[derive(Clone, Debug, Default)]
struct RingModel {
    cap: u64,
    /// every chunk pushed for the current file: (offset, data_len, last, body)
    all: Vec<(u64, u64, bool, Vec<u8>)>,
}

impl RingModel {
    /// index of the first retained chunk under the documented eviction rule
    fn retained_from(&self) -> usize {
        // evict oldest while held > cap and more than one chunk retained
        let mut start = 0usize;
        // replay the pushes incrementally (eviction happens at push time)
        let mut held: u128 = 0;
        for (i, c) in self.all.iter().enumerate() {
            held += c.3.len() as u128;
            while held > self.cap as u128 && i > start {
                held -= self.all[start].3.len() as u128;
                start += 1;
            }
        }
        start
    }
    fn retained(&self) -> &[(u64, u64, bool, Vec<u8>)] {
        &self.all[self.retained_from()..]
    }
    fn covers(&self, off: u64) -> bool {
        let r = self.retained();
        if r.is_empty() {
            return off == 0;
        }
        r.iter().any(|c| c.0 == off) || r.last().map(|c| c.0 + c.1) == Some(off)
    }
}

fn small_or_hostile(base: u64) -> u64 {
    match simkernel::choose(10) {
        0 => u64::MAX,
        1 => u64::MAX - simkernel::choose(4) as u64,
        2 => base.wrapping_add(1u64 << 40),
        3 => 0,
        _ => base.saturating_add(simkernel::choose(12) as u64).saturating_sub(4),
    }
}

fn c11_history(case: &Case) {
    let small = simkernel::choose(4) != 0;
    let window: u64 = if small { pick(&[0u64, 1, 2, 3, 8]) } else { pick(&[64u64, 1 << 20, 1 << 48, u64::MAX]) };
    let cap: u64 = pick(&[0u64, 4, 64, 1 << 20]);
    let ctl = TransferControl::with_replay_capacity(window, cap);
    ctl.set_peer(peer(1));
    let mut m = CreditModel { window, sent: 0, acked: 0, file: 0, cancelled: None };
    let mut ring = RingModel { cap, all: Vec::new() };
    let mut next_push = 0u64;
    let nops = if small { range(1, 7) } else { range(5, 200) };
    let mut log: Vec<String> = Vec::new();
    let expired = Instant::now(); // already-expired deadline: wait_for_credit never parks
    let mut granted = 0u64;
    let mut refused = 0u64;
    for step in 0..nops {
        let k = simkernel::choose(16);
        let desc;
        match k {
            0..=2 => {
                // record_sent
                // Producer-side values stay in the producer's contract: offsets are sums of at
                // most 200 chunk lengths <= 2^48 (the property's bound), so < 2^56. Only
                // receiver-side values (acks, resume offsets, file indices) are hostile.
                let o = if small {
                    simkernel::choose(6) as u64
                } else {
                    match simkernel::choose(6) {
                        0 => 0,
                        1 => (m.sent + (1u64 << 40)).min(1 << 56),
                        2 => (m.sent + (1u64 << 48)).min(1 << 56),
                        _ => (m.sent + simkernel::choose(12) as u64).saturating_sub(4),
                    }
                };
                // documented loop only ever sends forward; stale values must be ignored
                ctl.record_sent(o);
                if o > m.sent {
                    m.sent = o;
                }
                desc = format!("record_sent({o})");
            }
            3..=6 => {
                let file = if simkernel::choose(5) == 0 { other_file(m.file) } else { m.file };
                let o = if small { simkernel::choose(7) as u64 } else { small_or_hostile(m.acked) };
                if file != m.file || o > m.sent {
                    case.probe("hostile_ack");
                }
                ctl.record_ack(file, o);
                if file == m.file {
                    let capped = o.min(m.sent);
                    if capped > m.acked {
                        m.acked = capped;
                    }
                }
                desc = format!("record_ack({file},{o})");
            }
            7 => {
                let f = m.file.wrapping_add(1 + simkernel::choose(2));
                ctl.advance_to_file(f);
                m.file = f;
                m.sent = 0;
                m.acked = 0;
                ring.all.clear();
                next_push = 0;
                desc = format!("advance_to_file({f})");
            }
            8 => {
                let r = format!("why{step}");
                ctl.cancel(r.clone());
                if m.cancelled.is_none() {
                    m.cancelled = Some(r.clone());
                }
                desc = format!("cancel({r})");
            }
            9 => {
                let d = pick(&[1u64, 2, 3]);
                let body = vec![step as u8; pick(&[1usize, 2, 5])];
                ctl.push_replay(next_push, d, false, body.clone());
                ring.all.push((next_push, d, false, body));
                next_push += d;
                desc = format!("push_replay(+{d})");
            }
            10 | 11 => {
                let file = if simkernel::choose(6) == 0 { other_file(m.file) } else { m.file };
                let off = if small { simkernel::choose(7) as u64 } else { small_or_hostile(next_push) };
                let r = ctl.request_resume(peer(5), file, off);
                let expect: Result<u64, ResumeRejection> = if m.cancelled.is_some() {
                    Err(ResumeRejection::Cancelled)
                } else if file != m.file {
                    Err(ResumeRejection::WrongFileIndex { requested: file, current: m.file })
                } else if !ring.covers(off) {
                    Err(ResumeRejection::OutOfWindow)
                } else {
                    Ok(off)
                };
                if !case.check(r == expect, "resume-decision", || {
                    format!("request_resume({file},{off}) = {r:?}, model {expect:?}; log={log:?}")
                }) {
                    return;
                }
                if r.is_ok() && off > m.acked && off <= m.sent {
                    m.acked = off;
                }
                desc = format!("request_resume({file},{off})={r:?}");
            }
            12 => {
                let out = ctl.wait_for_reconnect(Duration::from_nanos(0));
                let got = match out {
                    ReconnectOutcome::Cancelled(r) => format!("cancelled:{r}"),
                    ReconnectOutcome::ResumeReady(p) => format!("resume:{}", p.resume_at_offset),
                    ReconnectOutcome::Timeout => "timeout".into(),
                };
                if let Some(r) = &m.cancelled {
                    if !case.check(got == format!("cancelled:{r}"), "cancel-not-sticky", || {
                        format!("wait_for_reconnect after cancel({r}) returned {got}; log={log:?}")
                    }) {
                        return;
                    }
                }
                desc = format!("wait_for_reconnect(0)={got}");
            }
            _ => {
                // credit probe with an already-expired deadline
                let len = if small {
                    simkernel::choose(5) as u64
                } else {
                    pick(&[0u64, 1, 1 << 20, 1 << 47, (1 << 48) - 1, 1 << 48])
                };
                let r = ctl.wait_for_credit(len, expired);
                let got = match &r {
                    Ok(()) => "ok".to_string(),
                    Err(CreditError::Cancelled(x)) => format!("cancelled:{x}"),
                    Err(CreditError::Timeout) => "timeout".into(),
                };
                let want = if let Some(rn) = &m.cancelled {
                    format!("cancelled:{rn}")
                } else if m.grant(len) {
                    granted += 1;
                    "ok".to_string()
                } else {
                    refused += 1;
                    "timeout".into()
                };
                if !case.check(got == want, "credit-decision", || {
                    format!(
                        "wait_for_credit({len}) = {got}, model {want} (sent={} acked={} window={}); log={log:?}",
                        m.sent, m.acked, m.window
                    )
                }) {
                    return;
                }
                desc = format!("wait_for_credit({len})={got}");
            }
        }
        log.push(desc);
        let (s, a) = ctl.offsets();
        if !case.check(s == m.sent && a == m.acked, "offsets-diverge", || {
            format!("offsets()=({s},{a}) model=({},{}) after {log:?}", m.sent, m.acked)
        }) {
            return;
        }
        if !case.check(a <= s, "acked-exceeds-sent", || format!("acked {a} > sent {s} after {log:?}")) {
            return;
        }
        if !case.check(ctl.cancel_reason() == m.cancelled && ctl.is_cancelled() == m.cancelled.is_some(), "cancel-reason", || {
            format!("cancel_reason()={:?} model={:?} after {log:?}", ctl.cancel_reason(), m.cancelled)
        }) {
            return;
        }
    }
    if granted > 0 {
        case.probe_by("credit_granted", granted);
    }
    if refused > 0 {
        case.probe_by("credit_refused", refused);
    }
    if granted + refused > 0 {
        case.nontrivial();
    }
    case.sample(json!({"window": window, "ring_cap": cap, "ops": log.iter().take(24).collect::<Vec<_>>(), "total_ops": log.len()}));
}

/// The loop from docs/streaming.md, against concurrent handlers.
fn c11_producer(case: &Case) {
    let window: u64 = pick(&[1u64, 4, 8, 32]);
    let nchunks = range(2, 10) as u64;
    let chunk_sizes: Vec<u64> = (0..nchunks).map(|_| pick(&[1u64, 2, 3, 4, 8, 40])).collect();
    let max_chunk = *chunk_sizes.iter().max().unwrap();
    let ctl = TransferControl::with_replay_capacity(window, pick(&[0u64, 16, 1 << 20]));
    ctl.set_peer(peer(1));
    let nfiles = range(1, 2);
    let do_cancel = simkernel::choose(6) == 0;
    let hostile_acks = coin();
    case.sample(json!({"window": window, "chunks": chunk_sizes, "files": nfiles, "cancel": do_cancel, "hostile_acks": hostile_acks}));

    // what the receiver has "received": the producer publishes (file, offset) after each send
    let wire = Arc::new(std::sync::Mutex::new((0u32, 0u64, false))); // (file, sent offset, producer done)
    let max_in_flight = Arc::new(std::sync::Mutex::new(0u64));

    let p_ctl = ctl.clone();
    let p_wire = wire.clone();
    let p_case = case.clone();
    let p_max = max_in_flight.clone();
    let sizes = chunk_sizes.clone();
    let producer = thread::spawn(move || {
        'files: for file in 0..nfiles {
            if file > 0 {
                p_ctl.advance_to_file(file);
                *p_wire.lock().unwrap() = (file, 0, false);
            }
            let mut off = 0u64;
            for (i, len) in sizes.iter().enumerate() {
                let deadline = Instant::now() + Duration::from_secs(30);
                match p_ctl.wait_for_credit(*len, deadline) {
                    Ok(()) => {}
                    Err(CreditError::Cancelled(_)) => break 'files,
                    Err(CreditError::Timeout) => {
                        p_case.probe("producer_credit_timeout");
                        break 'files;
                    }
                }
                p_ctl.push_replay(off, *len, i + 1 == sizes.len(), vec![0u8; *len as usize]);
                // "send"
                off += len;
                p_ctl.record_sent(off);
                {
                    let mut w = p_wire.lock().unwrap();
                    *w = (file, off, false);
                }
                let (s, a) = p_ctl.offsets();
                let inflight = s.saturating_sub(a);
                let mut m = p_max.lock().unwrap();
                if inflight > *m {
                    *m = inflight;
                }
                let bound = window.max(*len);
                if inflight > bound {
                    p_case.fail(
                        "over-granted",
                        format!("producer following the documented loop has {inflight} bytes unacknowledged (window {window}, chunk {len})"),
                    );
                    break 'files;
                }
                simkernel::event(|| format!("sent file={file} off={off} inflight={inflight}"));
            }
            // wait until the file is fully acked before advancing (receiver's "file complete")
            let deadline = Instant::now() + Duration::from_secs(30);
            loop {
                let (s, a) = p_ctl.offsets();
                if a >= s || p_ctl.is_cancelled() || Instant::now() >= deadline {
                    break;
                }
                thread::sleep(Duration::from_millis(1));
            }
        }
        p_wire.lock().unwrap().2 = true;
    });

    // receiver: acks what it has seen, sometimes late, sometimes hostile
    let r_ctl = ctl.clone();
    let r_wire = wire.clone();
    let receiver = thread::spawn(move || {
        let mut idle = 0;
        loop {
            let (file, off, done) = *r_wire.lock().unwrap();
            let (s, a) = r_ctl.offsets();
            if done && a >= s {
                break;
            }
            if r_ctl.is_cancelled() {
                break;
            }
            if hostile_acks {
                match simkernel::choose(6) {
                    0 => r_ctl.record_ack(file, u64::MAX),
                    1 => r_ctl.record_ack(other_file(file), pick(&[off, u64::MAX])),
                    2 => r_ctl.record_ack(file, off.saturating_sub(1)),
                    _ => {}
                }
            }
            // honest ack of a prefix of what was received
            let upto = if off > 0 && simkernel::choose(3) == 0 { off - simkernel::choose(off.min(4) as u32) as u64 } else { off };
            r_ctl.record_ack(file, upto);
            thread::sleep(Duration::from_micros(pick(&[0u64, 100, 1000])));
            idle += 1;
            if idle > 2000 {
                break;
            }
        }
    });
    let c_ctl = ctl.clone();
    let canceller = thread::spawn(move || {
        if do_cancel {
            thread::sleep(Duration::from_micros(pick(&[0u64, 500, 3000])));
            c_ctl.cancel("stop");
        }
    });
    producer.join().ok();
    wire.lock().unwrap().2 = true;
    receiver.join().ok();
    canceller.join().ok();
    let m = *max_in_flight.lock().unwrap();
    if m > 0 {
        case.nontrivial();
    }
    if m >= window.min(max_chunk) {
        case.probe("window_filled");
    }
    let (s, a) = ctl.offsets();
    case.check(a <= s, "acked-exceeds-sent", || format!("acked {a} > sent {s}"));
}

// =========================================================================== C13

fn c13_history(case: &Case) {
    let small = simkernel::choose(4) != 0;
    let cap: u64 = if small { pick(&[0u64, 1, 2, 3, 4, 6]) } else { pick(&[0u64, 10, 100, 4096, 1 << 30]) };
    let ctl = TransferControl::with_replay_capacity(pick(&[1u64, 64, 1 << 30]), cap);
    ctl.set_peer(peer(1));
    let mut ring = RingModel { cap, all: Vec::new() };
    let mut file = 0u32;
    let mut next_off = 0u64;
    let mut sent = 0u64;
    let mut acked = 0u64;
    let mut cancelled = false;
    let mut pending: Option<u64> = None;
    let mut cur_peer = 1u64;
    let mut next_peer = 10u64;
    let mut uniq = 0u8;
    let nops = if small { range(1, 8) } else { range(8, 120) };
    let mut log: Vec<String> = Vec::new();
    let mut accepted = 0u64;
    let mut rejected = 0u64;
    for _ in 0..nops {
        let k = simkernel::choose(12);
        match k {
            0..=4 => {
                let d = if small { pick(&[1u64, 2, 3]) } else { pick(&[1u64, 7, 64, 1000]) };
                let overhead = if small { pick(&[0usize, 0, 1, 2]) } else { pick(&[0usize, 3, 16]) };
                uniq = uniq.wrapping_add(1);
                let mut body = vec![uniq; d as usize + overhead];
                if let Some(b) = body.first_mut() {
                    *b = uniq ^ 0x5a;
                }
                let last = simkernel::choose(8) == 0;
                ctl.push_replay(next_off, d, last, body.clone());
                ring.all.push((next_off, d, last, body));
                log.push(format!("push(off={next_off},len={d},wire={})", d as usize + overhead));
                next_off += d;
                if coin() {
                    ctl.record_sent(next_off);
                    sent = sent.max(next_off);
                }
            }
            5..=7 => {
                // resume at: a pushed boundary (retained or evicted), inside a chunk, trailing edge, far
                let f = if simkernel::choose(8) == 0 { other_file(file) } else { file };
                let off = match simkernel::choose(6) {
                    0 => next_off,
                    1 => 0,
                    2 => next_off + 1 + simkernel::choose(3) as u64,
                    3 if !ring.all.is_empty() => {
                        let c = &ring.all[simkernel::choose(ring.all.len() as u32) as usize];
                        c.0 + if c.1 > 1 { 1 + simkernel::choose((c.1 - 1) as u32) as u64 } else { 0 }
                    }
                    _ if !ring.all.is_empty() => ring.all[simkernel::choose(ring.all.len() as u32) as usize].0,
                    _ => simkernel::choose(4) as u64,
                };
                next_peer += 1;
                let r = ctl.request_resume(peer(next_peer), f, off);
                let expect: Result<u64, ResumeRejection> = if cancelled {
                    Err(ResumeRejection::Cancelled)
                } else if f != file {
                    Err(ResumeRejection::WrongFileIndex { requested: f, current: file })
                } else if !ring.covers(off) {
                    Err(ResumeRejection::OutOfWindow)
                } else {
                    Ok(off)
                };
                log.push(format!("resume(file={f},off={off})={r:?}"));
                if !case.check(r == expect, "resume-decision", || {
                    format!("request_resume = {r:?}, model {expect:?} (retained from {:?}); log={log:?}", ring.retained().first().map(|c| c.0))
                }) {
                    return;
                }
                if r.is_ok() {
                    accepted += 1;
                    if ring.retained_from() > 0 {
                        case.probe("resume_after_eviction");
                    }
                    pending = Some(off);
                    cur_peer = next_peer;
                    if off > acked && off <= sent {
                        acked = off;
                    }
                    // the replay offered for this resume: starts exactly at `off`, contiguous,
                    // byte-identical, up to the last byte pushed
                    let chunks = ctl.replay_chunks_from(off);
                    let want: Vec<&(u64, u64, bool, Vec<u8>)> = ring.all.iter().filter(|c| c.0 >= off).collect();
                    let mut ok = chunks.len() == want.len();
                    let mut pos = off;
                    for (g, w) in chunks.iter().zip(want.iter()) {
                        ok &= g.offset == pos && g.offset == w.0 && g.data_len == w.1 && g.last == w.2 && *g.body_bytes == w.3;
                        pos = g.offset + g.data_len;
                    }
                    ok &= pos == next_off || (chunks.is_empty() && off == next_off);
                    if !case.check(ok, "replay-gap", || {
                        format!(
                            "accepted resume at {off}: replay offers {:?}, pushed {:?}, end {next_off}; log={log:?}",
                            chunks.iter().map(|c| (c.offset, c.data_len)).collect::<Vec<_>>(),
                            want.iter().map(|c| (c.0, c.1)).collect::<Vec<_>>()
                        )
                    }) {
                        return;
                    }
                    let p = ctl.peer().map(|p| p.peer_id().0);
                    if !case.check(p == Some(cur_peer), "peer-not-installed", || format!("peer() = {p:?}, want {cur_peer}")) {
                        return;
                    }
                } else {
                    rejected += 1;
                }
            }
            8 => {
                let out = ctl.wait_for_reconnect(Duration::from_nanos(0));
                let got = match out {
                    ReconnectOutcome::Cancelled(_) => "cancelled".to_string(),
                    ReconnectOutcome::ResumeReady(p) => format!("resume:{}", p.resume_at_offset),
                    ReconnectOutcome::Timeout => "timeout".into(),
                };
                let want = if cancelled {
                    "cancelled".to_string()
                } else if let Some(o) = pending.take() {
                    format!("resume:{o}")
                } else {
                    "timeout".into()
                };
                log.push(format!("wait_for_reconnect(0)={got}"));
                if !case.check(got == want, "reconnect-outcome", || format!("got {got}, model {want}; log={log:?}")) {
                    return;
                }
            }
            9 => {
                file += 1 + simkernel::choose(2);
                ctl.advance_to_file(file);
                ring.all.clear();
                next_off = 0;
                sent = 0;
                acked = 0;
                pending = None;
                log.push(format!("advance({file})"));
            }
            10 => {
                if simkernel::choose(3) == 0 {
                    ctl.cancel("c");
                    cancelled = true;
                    log.push("cancel".into());
                }
            }
            _ => {
                let o = simkernel::choose(1 + next_off as u32) as u64;
                ctl.record_ack(file, o);
                let capped = o.min(sent);
                if capped > acked {
                    acked = capped;
                }
                log.push(format!("ack({o})"));
            }
        }
        // ring invariant after every step: retained = contiguous suffix, bounded, newest kept
        let got = ctl.replay_chunks_from(0);
        let want = ring.retained();
        let same = got.len() == want.len()
            && got
                .iter()
                .zip(want.iter())
                .all(|(g, w)| g.offset == w.0 && g.data_len == w.1 && g.last == w.2 && *g.body_bytes == w.3);
        if !case.check(same, "ring-content", || {
            format!(
                "ring holds {:?}, model retains {:?} (cap {cap}); log={log:?}",
                got.iter().map(|c| (c.offset, c.body_bytes.len())).collect::<Vec<_>>(),
                want.iter().map(|c| (c.0, c.3.len())).collect::<Vec<_>>()
            )
        }) {
            return;
        }
        let held: u64 = got.iter().map(|c| c.body_bytes.len() as u64).sum();
        if !case.check(got.len() <= 1 || held <= cap, "ring-unbounded", || format!("ring holds {held} wire bytes in {} chunks, cap {cap}", got.len())) {
            return;
        }
        if !ring.all.is_empty() && !case.check(!got.is_empty(), "newest-chunk-evicted", || "ring empty after a push".to_string()) {
            return;
        }
        let (s, a) = ctl.offsets();
        if !case.check((s, a) == (sent, acked), "offsets-diverge", || format!("offsets ({s},{a}) model ({sent},{acked}); log={log:?}")) {
            return;
        }
    }
    if accepted > 0 {
        case.probe_by("resume_accepted", accepted);
        case.nontrivial();
    }
    if rejected > 0 {
        case.probe_by("resume_rejected", rejected);
    }
    case.sample(json!({"ring_cap": cap, "ops": log.iter().take(24).collect::<Vec<_>>(), "total_ops": log.len()}));
}
