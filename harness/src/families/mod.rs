//! Scenario families, one module per property group.

use crate::framework::Family;

pub mod stream_ctl;

pub fn all() -> &'static [Family] {
    static ALL: std::sync::OnceLock<Vec<Family>> = std::sync::OnceLock::new();
    ALL.get_or_init(|| {
        let mut v = Vec::new();
        v.extend(stream_ctl::families());
        v
    })
}
