//! Scenario families, one module per property group.

use crate::framework::Family;

pub mod aio;
pub mod async_fleet;
pub mod async_hostile;
pub mod async_tcp;
pub mod c03_common;
pub mod client_blocking;
pub mod server_blocking;
pub mod fleet_blocking;
pub mod frames;
pub mod hostile;
pub mod peers;
pub mod registry_tree;
pub mod stream_ctl;
pub mod svs;
pub mod svs_async;
pub mod ws_client;
pub mod ws_common;
pub mod ws_dispatch;
pub mod ws_lifecycle;
pub mod ws_limits;
pub mod ws_offreader;
pub mod ws_registry;

pub fn all() -> &'static [Family] {
    static ALL: std::sync::OnceLock<Vec<Family>> = std::sync::OnceLock::new();
    ALL.get_or_init(|| {
        let mut v = Vec::new();
        v.extend(stream_ctl::families());
        v.extend(peers::families());
        v.extend(client_blocking::families());
        v.extend(fleet_blocking::families());
        v.extend(server_blocking::families());
        v.extend(hostile::families());
        v.extend(svs::families());
        v.extend(registry_tree::families());
        v.extend(async_tcp::families());
        v.extend(async_fleet::families());
        v.extend(async_hostile::families());
        v.extend(ws_offreader::families());
        v.extend(ws_lifecycle::families());
        v.extend(ws_limits::families());
        v.extend(ws_registry::families());
        v.extend(ws_client::families());
        v.extend(ws_dispatch::families());
        v.extend(svs_async::families());
        v.extend(frames::families());
        v
    })
}
