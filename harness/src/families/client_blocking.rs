//! C04 / C05 / C06 on the real blocking `Client` (reader thread, writer mutex, pending map,
//! mpsc one-shots, recv_timeout) against a scripted peer on the simulated network.

use crate::codec::{self, Frame, is_pattern, pattern, read_frame, split_stream, write_all_retry};
use crate::framework::{Case, Family, coin, pick, range};
use repe::Client;
use serde_json::{Value, json};
use simkernel::net::{self, NetConfig, Shutdown, Side, TcpListener, TcpStream};
use simkernel::sync::Arc;
use simkernel::thread;
use simkernel::time::Duration;
use std::io::ErrorKind;

pub fn families() -> Vec<Family> {
    vec![
        Family::new(
            "c04_client",
            "C04",
            "1-64 concurrent callers/batches on one blocking Client vs. scripted server replying in seeded order with unknown-id and duplicate frames",
            c04_client,
        )
        .runs(1_500, 90_000)
        .steps(600_000),
        Family::new(
            "c06_client",
            "C06",
            "blocking Client with 0-16 calls in flight; server closes/resets/sends malformed frames at every protocol step; timeouts racing responses",
            c06_client,
        )
        .runs(25_000, 1_500_000)
        .steps(600_000),
        Family::new(
            "c05_client",
            "C05",
            "up to 32 concurrent writers on one blocking Client, tiny socket buffers, stalled reader, write timeouts; wire tap shape oracle",
            c05_client,
        )
        .runs(1_200, 72_000)
        .steps(1_500_000),
    ]
}

pub const MS: u64 = 1_000_000;

pub fn draw_net() -> NetConfig {
    let capacity = pick(&[64usize, 256, 1024, 4096, 65_536, 1 << 20]);
    let lat_min = pick(&[0u64, 10_000, 100_000, 1_000_000]);
    let lat_max = lat_min + pick(&[0u64, 0, 50_000, 2_000_000]);
    let max_segment = pick(&[0usize, 0, 1, 7, 512]);
    NetConfig { capacity, lat_min, lat_max, max_segment }
}

fn token_value(t: u64) -> Value {
    json!({"t": t})
}

#[derive(Clone, Copy, Debug)]
enum CallKind {
    Json,
    TypedJson,
    TypedBeve,
    TypedSlice(usize),
    Raw(usize),
    Empty,
}

/// One call through one of the client's public entry points; returns Ok(()) iff the reply
/// is this call's own (token echoed), Err(description) otherwise.
fn do_call(client: &Client, kind: CallKind, token: u64, timeout: Option<Duration>) -> Result<(), String> {
    let path = format!("/echo/{token}");
    match kind {
        CallKind::Json => {
            let r = match timeout {
                Some(d) => client.call_json_with_timeout(&path, &token_value(token), d),
                None => client.call_json(&path, &token_value(token)),
            };
            match r {
                Ok(v) if v == token_value(token) => Ok(()),
                Ok(v) => Err(format!("WRONG-RESPONSE call {token} got {v}")),
                Err(e) => Err(format!("error: {e}")),
            }
        }
        CallKind::TypedJson => {
            let r: Result<Value, _> = match timeout {
                Some(d) => client.call_typed_json_with_timeout(&path, &token_value(token), d),
                None => client.call_typed_json(&path, &token_value(token)),
            };
            match r {
                Ok(v) if v == token_value(token) => Ok(()),
                Ok(v) => Err(format!("WRONG-RESPONSE call {token} got {v}")),
                Err(e) => Err(format!("error: {e}")),
            }
        }
        CallKind::TypedBeve => {
            let body = (token, format!("tok-{token}"));
            let r: Result<(u64, String), _> = match timeout {
                Some(d) => client.call_typed_beve_with_timeout(&path, &body, d),
                None => client.call_typed_beve(&path, &body),
            };
            match r {
                Ok(v) if v == body => Ok(()),
                Ok(v) => Err(format!("WRONG-RESPONSE call {token} got {v:?}")),
                Err(e) => Err(format!("error: {e}")),
            }
        }
        CallKind::TypedSlice(n) => {
            let body: Vec<f64> = (0..n).map(|i| token as f64 + i as f64 / 8.0).collect();
            let r: Result<Vec<f64>, _> = match timeout {
                Some(d) => client.call_typed_slice_with_timeout(&path, &body, d),
                None => client.call_typed_slice(&path, &body),
            };
            match r {
                Ok(v) if v == body => Ok(()),
                Ok(v) => Err(format!("WRONG-RESPONSE call {token} got a slice of {} (first {:?})", v.len(), v.first())),
                Err(e) => Err(format!("error: {e}")),
            }
        }
        CallKind::Raw(len) => {
            let body = pattern(token, len);
            let r = match timeout {
                Some(d) => client.call_with_formats_and_timeout(&path, 1, Some(&body), 0, d),
                None => client.call_with_formats(&path, 1, Some(&body), 0),
            };
            match r {
                Ok(m) if m.body == body && m.query == path.as_bytes() => Ok(()),
                Ok(m) => Err(format!("WRONG-RESPONSE call {token} got query {:?} body len {}", String::from_utf8_lossy(&m.query), m.body.len())),
                Err(e) => Err(format!("error: {e}")),
            }
        }
        CallKind::Empty => {
            let r = match timeout {
                Some(d) => client.call_message_with_timeout(&path, d),
                None => client.call_message(&path),
            };
            match r {
                Ok(m) if m.query == path.as_bytes() && m.body.is_empty() => Ok(()),
                Ok(m) => Err(format!("WRONG-RESPONSE call {token} got query {:?}", String::from_utf8_lossy(&m.query))),
                Err(e) => Err(format!("error: {e}")),
            }
        }
    }
}

fn draw_kind() -> CallKind {
    match simkernel::choose(8) {
        0 | 1 => CallKind::Json,
        2 => CallKind::TypedJson,
        3 => CallKind::Empty,
        4 => CallKind::TypedBeve,
        5 => CallKind::TypedSlice(pick(&[0usize, 1, 3, 600])),
        _ => CallKind::Raw(pick(&[0usize, 1, 47, 48, 49, 300, 5000])),
    }
}

/// The echo response for a request frame.
fn echo_of(req: &Frame) -> Frame {
    let mut f = Frame::new(req.id, &req.query, &req.body);
    f.query_format = req.query_format;
    f.body_format = req.body_format;
    f
}

// =========================================================================== C04

/// A body whose serialization fails, after a nap (a scheduling point for everybody else).
struct FailsLate(u64);
impl serde::Serialize for FailsLate {
    fn serialize<S: serde::Serializer>(&self, _s: S) -> Result<S::Ok, S::Error> {
        thread::sleep(Duration::from_micros(self.0));
        Err(serde::ser::Error::custom("this body cannot be serialized"))
    }
}

/// A server that answers a large request as soon as it has seen its header and query, before
/// it has drained the body (it can: the body is a pattern of the token in the path). The
/// response is then on its way while the client is still writing: the call must get it.
fn c04_eager_reply(case: &Case) {
    net::set_config(NetConfig { capacity: pick(&[1024usize, 4096, 65_536]), lat_min: 0, lat_max: pick(&[0u64, 20_000]), max_segment: 0 });
    let listener = TcpListener::bind("127.0.0.1:0").unwrap();
    let addr = listener.local_addr().unwrap();
    let len = pick(&[65_535usize, 65_536, 70_000, 150_000]);
    let others = range(0, 2) as u64;
    case.sample(json!({"scenario": "reply sent before the request body is drained", "request_body_bytes": len, "other_calls": others}));
    let server = thread::spawn(move || {
        let Ok((mut s, _)) = listener.accept() else { return };
        // at most one reply is being written at a time (the early one goes out from its own thread)
        let mut early: Option<thread::JoinHandle<()>> = None;
        loop {
            let mut hdr = [0u8; 48];
            if std::io::Read::read_exact(&mut s, &mut hdr).is_err() {
                return;
            }
            let h = Frame::parse_header(&hdr);
            let mut q = vec![0u8; h.query_length as usize];
            if std::io::Read::read_exact(&mut s, &mut q).is_err() {
                return;
            }
            let token: u64 = String::from_utf8_lossy(&q).rsplit('/').next().and_then(|t| t.parse().ok()).unwrap_or(0);
            let blen = h.body_length as usize;
            let eager = blen >= 60_000;
            let mut reply = Frame::new(h.id, &q, &pattern(token, blen));
            reply.query_format = h.query_format;
            reply.body_format = h.body_format;
            if eager {
                simkernel::count("probe.reply_sent_before_the_body_was_drained");
                // from another handle, so that answering cannot dead-lock against draining
                if let Some(e) = early.take() {
                    e.join().ok();
                }
                let mut w = s.try_clone().unwrap();
                let bytes = reply.encode();
                early = Some(thread::spawn(move || {
                    let _ = write_all_retry(&mut w, &bytes);
                }));
            }
            let mut body = vec![0u8; blen];
            if std::io::Read::read_exact(&mut s, &mut body).is_err() {
                return;
            }
            if !eager {
                if let Some(e) = early.take() {
                    e.join().ok();
                }
                let mut r2 = Frame::new(h.id, &q, &body);
                r2.query_format = h.query_format;
                r2.body_format = h.body_format;
                if write_all_retry(&mut s, &r2.encode()).is_err() {
                    return;
                }
            }
        }
    });
    let client = match Client::connect(addr) {
        Ok(c) => c,
        Err(e) => {
            case.harness_error(format!("connect failed: {e}"));
            return;
        }
    };
    let mut hs = Vec::new();
    for t in 0..=others {
        let (c, case) = (client.clone(), case.clone());
        let kind = if t == 0 { CallKind::Raw(len) } else { CallKind::Raw(pick(&[10usize, 3000])) };
        hs.push(thread::spawn(move || {
            if let Err(e) = do_call(&c, kind, 40 + t, Some(Duration::from_secs(60))) {
                let class = if e.starts_with("WRONG-RESPONSE") { "wrong-response" } else { "call-failed-without-fault" };
                case.fail(class, format!("call {} ({kind:?}) against a server that replies before draining the body: {e}", 40 + t));
            }
        }));
    }
    for h in hs {
        h.join().ok();
    }
    case.check(client.verif_pending_len() == 0, "pending-residue", || format!("{} pending entries after all calls returned", client.verif_pending_len()));
    drop(client);
    net::shutdown_all();
    server.join().ok();
    case.nontrivial();
}

fn c04_client(case: &Case) {
    net::reset(draw_net());
    if simkernel::choose(12) == 0 {
        return c04_eager_reply(case);
    }
    let listener = TcpListener::bind("127.0.0.1:0").unwrap();
    let addr = listener.local_addr().unwrap();
    let ncallers = pick(&[1u32, 2, 2, 3, 3, 4, 4, 5, 6, 6, 8, 16, 32, 64]);
    let calls_each = if ncallers > 8 { 1 } else { range(1, 2) };
    let with_batch = simkernel::choose(3) == 0;
    let batch_n = if with_batch { pick(&[1u32, 2, 5, 9, 20, 20, 64, 65, 70, 130]) } else { 0 };
    let window = range(1, 6.min(ncallers + batch_n.min(4)).max(1)) as usize;
    let inject_unknown = pick(&[0u32, 0, 20, 50]);
    let inject_dup = pick(&[0u32, 0, 20, 50]);
    let n_spoilers = pick(&[0u32, 0, 1, 2]);
    case.sample(json!({"callers": ncallers, "calls_each": calls_each, "batch": batch_n, "server_window": window,
        "inject_unknown_pct": inject_unknown, "inject_dup_pct": inject_dup, "callers_whose_body_fails_to_serialize": n_spoilers}));

    let srv_case = case.clone();
    let server = thread::spawn(move || {
        let Ok((mut s, _)) = listener.accept() else { return };
        s.set_read_timeout(Some(Duration::from_millis(20))).ok();
        let mut outstanding: Vec<Frame> = Vec::new();
        let mut seen_ids = std::collections::BTreeSet::new();
        let mut answered: Vec<Frame> = Vec::new();
        let mut eof = false;
        let mut permuted = false;
        loop {
            // collect requests until the window is full or nothing arrives for a while
            while !eof && outstanding.len() < window {
                match read_frame(&mut s) {
                    Ok(Some(f)) => {
                        if !seen_ids.insert(f.id) {
                            srv_case.fail("duplicate-request-id", format!("request id {} issued twice on one connection", f.id));
                        }
                        if f.notify != 0 {
                            continue;
                        }
                        outstanding.push(f);
                    }
                    Ok(None) => eof = true,
                    Err(e) if e.kind() == ErrorKind::WouldBlock => break,
                    Err(_) => eof = true,
                }
            }
            if outstanding.is_empty() {
                if eof {
                    break;
                }
                continue;
            }
            let i = simkernel::choose(outstanding.len() as u32) as usize;
            if i != 0 {
                permuted = true;
            }
            let req = outstanding.remove(i);
            if simkernel::choose(100) < inject_unknown {
                srv_case.probe("fault.unknown_id_frame");
                let f = Frame::new((1u64 << 40) + req.id, b"/nobody", b"{\"t\":0}").with_formats(1, 2);
                if write_all_retry(&mut s, &f.encode()).is_err() {
                    break;
                }
            }
            if simkernel::choose(100) < inject_dup
                && let Some(prev) = answered.last()
            {
                srv_case.probe("fault.duplicate_response");
                if write_all_retry(&mut s, &echo_of(prev).encode()).is_err() {
                    break;
                }
            }
            if write_all_retry(&mut s, &echo_of(&req).encode()).is_err() {
                break;
            }
            answered.push(req);
        }
        if permuted {
            srv_case.probe("replies_out_of_arrival_order");
        }
        if answered.len() <= 6 && !answered.is_empty() {
            // which of the k! reply orders this run exercised (arrival rank of each answered request)
            let mut arrival: Vec<u64> = seen_ids.iter().copied().filter(|id| answered.iter().any(|a: &Frame| a.id == *id)).collect();
            arrival.sort();
            let perm: Vec<String> = answered.iter().map(|a| arrival.iter().position(|x| *x == a.id).unwrap_or(9).to_string()).collect();
            srv_case.cover("reply_order(k<=6; 1+2+6+24+120+720=873 orders)", format!("{}:{}", answered.len(), perm.join("")));
        }
    });

    let client = match Client::connect(addr) {
        Ok(c) => c,
        Err(e) => {
            case.harness_error(format!("connect failed: {e}"));
            return;
        }
    };
    let mut hs = Vec::new();
    let mut token = 0u64;
    for _ in 0..ncallers {
        let c = client.clone();
        let case = case.clone();
        let plan: Vec<(CallKind, u64)> = (0..calls_each)
            .map(|_| {
                token += 1;
                (draw_kind(), token)
            })
            .collect();
        hs.push(thread::spawn(move || {
            for (kind, t) in plan {
                if let Err(e) = do_call(&c, kind, t, None) {
                    let class = if e.starts_with("WRONG-RESPONSE") { "wrong-response" } else { "call-failed-without-fault" };
                    case.fail(class, e);
                }
            }
        }));
    }
    // spoilers: calls / notifies that fail locally because their body does not serialize
    // (the failure is reported only after other callers had time to take ids and send)
    for k in 0..n_spoilers {
        let c = client.clone();
        let case = case.clone();
        let nap = pick(&[0u64, 10, 200, 3_000]);
        let as_notify = coin();
        hs.push(thread::spawn(move || {
            let body = FailsLate(nap);
            let r = if as_notify { c.notify_json(format!("/echo/spoiler{k}"), &body).map(|_| ()) } else { c.call_json(format!("/echo/spoiler{k}"), &body).map(|_| ()) };
            case.probe("fault.body_failed_to_serialize");
            case.check(r.is_err(), "unserializable-body-sent", || "a request whose body failed to serialize returned Ok".into());
        }));
    }
    if batch_n > 0 {
        let reqs: Vec<(String, Value)> = (0..batch_n)
            .map(|i| {
                token += 1;
                (format!("/echo/b{i}"), token_value(token))
            })
            .collect();
        let expect: Vec<Value> = reqs.iter().map(|r| r.1.clone()).collect();
        let c = client.clone();
        let case = case.clone();
        hs.push(thread::spawn(move || {
            let out = if simkernel::choose(2) == 0 { c.batch_json(reqs) } else { c.batch_json_with_timeout(reqs, Duration::from_secs(3_600)) };
            if out.len() != expect.len() {
                case.fail("batch-misaligned", format!("batch of {} returned {} results", expect.len(), out.len()));
                return;
            }
            for (i, (got, want)) in out.iter().zip(expect.iter()).enumerate() {
                match got {
                    Ok(v) if v == want => {}
                    Ok(v) => case.fail("batch-misaligned", format!("batch slot {i}: got {v}, want {want}")),
                    Err(e) => case.fail("call-failed-without-fault", format!("batch slot {i}: {e}")),
                }
            }
        }));
    }
    for h in hs {
        h.join().ok();
    }
    case.check(client.verif_pending_len() == 0, "pending-residue", || {
        format!("{} pending entries after all calls returned", client.verif_pending_len())
    });
    drop(client);
    server.join().ok();
    if ncallers + batch_n >= 2 {
        case.nontrivial();
    }
}

// =========================================================================== C06

#[derive(Clone, Copy, Debug, PartialEq)]
enum Kill {
    /// FIN
    Close,
    /// RST
    Reset,
    /// a frame header of the given malformed kind
    Malformed(u8),
    /// part of a valid response, then FIN
    Partial(u8),
}

fn malformed_header(kind: u8, id: u64) -> Vec<u8> {
    let mut f = Frame::new(id, b"/x", b"abc");
    match kind % 6 {
        0 => f.spec = 0x1234,
        1 => f.length = 48, // too short for its payloads
        2 => f.length += 1,
        3 => {
            f.query_length = u64::MAX;
            f.length = 47 + 3; // wraps
        }
        4 => {
            f.body_length = 1 << 62;
            f.length = 48 + 2 + (1u64 << 62);
        }
        _ => {
            f.query_length = u64::MAX - 10;
            f.body_length = 20;
            f.length = 57;
        }
    }
    let mut b = f.header_bytes();
    b.extend_from_slice(b"/xabc");
    b
}

fn c06_client(case: &Case) {
    net::reset(draw_net());
    let listener = TcpListener::bind("127.0.0.1:0").unwrap();
    let addr = listener.local_addr().unwrap();
    let n_inflight = pick(&[0u32, 1, 1, 2, 3, 4, 8, 16]);
    // Which scenario: connection fault, or timeout race / late response
    let scenario = simkernel::choose(3);
    let kill = match simkernel::choose(8) {
        0 | 1 => Kill::Close,
        2 | 3 => Kill::Reset,
        4 | 5 => Kill::Malformed(simkernel::choose(6) as u8),
        _ => Kill::Partial(simkernel::choose(5) as u8),
    };
    // the server reads `read_first` requests before killing (0 = before any request is read)
    let read_first = if n_inflight == 0 { 0 } else { simkernel::choose(n_inflight + 1) };
    let answer_first = if read_first > 0 { simkernel::choose(read_first + 1) } else { 0 };
    let with_timeouts = coin();
    let call_timeout = Duration::from_millis(pick(&[50u64, 200, 1000]));

    if scenario == 2 {
        return c06_timeout_race(case, listener, addr);
    }
    if simkernel::choose(8) == 0 {
        return c06_stall_then_silent(case, listener, addr);
    }
    if simkernel::choose(6) == 0 {
        return c06_timeout_with_held_siblings(case, listener, addr);
    }
    // the malformed header arrives from a peer that has stopped reading while a caller with a
    // large request is parked in write(): the calls in flight must fail all the same
    let peer_stops_reading = matches!(kill, Kill::Malformed(_)) && simkernel::choose(3) == 0;
    case.sample(json!({"scenario": "connection-fault", "in_flight": n_inflight, "kill": format!("{kill:?}"),
        "server_reads": read_first, "server_answers": answer_first, "per_call_timeouts": with_timeouts, "peer_stops_reading": peer_stops_reading}));

    let srv_case = case.clone();
    // when the malformed header was written (0 = not that kind of fault)
    let kill_at_main = Arc::new(std::sync::atomic::AtomicU64::new(0));
    let kill_at = kill_at_main.clone();
    let server = thread::spawn(move || {
        let Ok((mut s, _)) = listener.accept() else { return };
        s.set_read_timeout(Some(Duration::from_millis(30))).ok();
        let mut got: Vec<Frame> = Vec::new();
        while (got.len() as u32) < read_first {
            match read_frame(&mut s) {
                Ok(Some(f)) => got.push(f),
                Ok(None) => break,
                Err(e) if e.kind() == ErrorKind::WouldBlock => break,
                Err(_) => break,
            }
        }
        for f in got.iter().take(answer_first as usize) {
            if write_all_retry(&mut s, &echo_of(f).encode()).is_err() {
                return;
            }
        }
        // the peer keeps draining what the client writes - unless this is the run where it
        // stops reading for good (and a caller ends up parked in write() when the fault lands)
        let drain = s.try_clone().unwrap();
        if peer_stops_reading {
            // (a modest send buffer, so that a modest request is enough to park its writer)
            net::set_capacity(&s.conn(), Side::A, 2048);
        }
        let drainer = thread::spawn(move || {
            if peer_stops_reading {
                return;
            }
            let mut d = drain;
            let mut buf = [0u8; 4096];
            d.set_read_timeout(Some(Duration::from_millis(500))).ok();
            loop {
                match std::io::Read::read(&mut d, &mut buf) {
                    Ok(0) => break,
                    Ok(_) => {}
                    Err(e) if e.kind() == ErrorKind::Interrupted => {}
                    Err(_) => break,
                }
            }
        });
        thread::sleep(Duration::from_micros(pick(&[0u64, 100, 5_000])));
        match kill {
            Kill::Close => {
                srv_case.probe("fault.close_fin");
                s.shutdown(Shutdown::Write).ok();
            }
            Kill::Reset => {
                net::reset_conn(&s.conn());
            }
            Kill::Malformed(k) => {
                srv_case.probe("fault.malformed_header");
                let id = got.last().map(|f| f.id).unwrap_or(1);
                write_all_retry(&mut s, &malformed_header(k, id)).ok();
                // keep the socket open (ten minutes): the client must fail on the bytes alone
                kill_at.store(simkernel::now_ns(), std::sync::atomic::Ordering::SeqCst);
                thread::sleep(Duration::from_millis(600_000));
            }
            Kill::Partial(class) => {
                srv_case.probe("fault.cut_mid_frame");
                let req = got.last().cloned().unwrap_or_else(|| Frame::new(1, b"/x", b"0123456789"));
                let bytes = echo_of(&req).encode();
                let cut = match class % 5 {
                    0 => 1,
                    1 => 47,
                    2 => 48.min(bytes.len() - 1),
                    3 => (48 + req.query.len()).min(bytes.len() - 1),
                    _ => bytes.len() - 1,
                }
                .max(1);
                write_all_retry(&mut s, &bytes[..cut]).ok();
                s.shutdown(Shutdown::Write).ok();
            }
        }
        // after a FIN (clean or in mid-frame) the peer keeps its half of the socket open too:
        // end-of-stream alone must fail the calls
        if matches!(kill, Kill::Close | Kill::Partial(_)) {
            kill_at.store(simkernel::now_ns(), std::sync::atomic::Ordering::SeqCst);
            thread::sleep(Duration::from_millis(600_000));
        }
        drainer.join().ok();
    });

    let client = match Client::connect(addr) {
        Ok(c) => c,
        Err(e) => {
            case.harness_error(format!("connect failed: {e}"));
            return;
        }
    };
    let results: Arc<std::sync::Mutex<Vec<(u64, Result<(), String>, u64)>>> = Arc::new(std::sync::Mutex::new(Vec::new()));
    let mut hs = Vec::new();
    for t in 1..=n_inflight as u64 {
        let c = client.clone();
        let results = results.clone();
        let to = if with_timeouts && t % 2 == 0 { Some(call_timeout) } else { None };
        hs.push(thread::spawn(move || {
            let r = do_call(&c, CallKind::Json, t, to);
            results.lock().unwrap().push((t, r, simkernel::now_ns()));
        }));
    }
    if peer_stops_reading {
        // one more caller whose request cannot fit into the socket: it parks in write()
        let c = client.clone();
        let results = results.clone();
        hs.push(thread::spawn(move || {
            let r = do_call(&c, CallKind::Raw(40_000), 99, None);
            results.lock().unwrap().push((99, r, simkernel::now_ns()));
        }));
        case.probe("writer_parked_when_malformed_frame_arrived");
    }
    for h in hs {
        h.join().ok();
    }
    // every in-flight call resolved (a hang is reported by the kernel as a deadlock);
    // answered ones may be Ok, all others must be Err
    let res = results.lock().unwrap().clone();
    let oks = res.iter().filter(|r| r.1.is_ok()).count() as u32;
    for (t, r, _) in &res {
        if let Err(e) = r
            && e.starts_with("WRONG-RESPONSE")
        {
            case.fail("wrong-response", format!("call {t}: {e}"));
        }
    }
    case.check(oks <= answer_first, "ok-without-response", || {
        format!("{oks} calls returned Ok but the server answered only {answer_first}")
    });
    // the peer that sent a malformed header keeps the socket open for ten minutes: the calls
    // must have failed on the bytes, not when the socket finally closed
    let killed = kill_at_main.load(std::sync::atomic::Ordering::SeqCst);
    if killed > 0 {
        for (t, _, at) in &res {
            if !case.check(*at <= killed + 120_000_000_000, "hang", || format!("call {t}, in flight when the connection failed ({kill:?}) at t={killed}ns, returned only at t={at}ns")) {
                return;
            }
        }
    }
    // after the failure: a later call must return Err (never block), nothing is left pending
    thread::sleep(Duration::from_millis(3_000));
    let t0 = simkernel::now_ns();
    let later = do_call(&client, CallKind::Json, 1000, if coin() { Some(call_timeout) } else { None });
    if !case.check(simkernel::now_ns() - t0 <= 120_000_000_000, "hang", || format!("a call made after the connection failed ({kill:?}) took {} s to return", (simkernel::now_ns() - t0) / 1_000_000_000)) {
        return;
    }
    case.check(later.is_err(), "call-on-dead-connection-succeeded", || "a call after the connection failed returned Ok".into());
    let later2 = do_call(&client, CallKind::Empty, 1001, None);
    case.check(later2.is_err(), "call-on-dead-connection-succeeded", || "a second call after the connection failed returned Ok".into());
    case.check(client.verif_pending_len() == 0, "pending-residue", || {
        format!("{} pending entries left after the connection failed", client.verif_pending_len())
    });
    drop(client);
    server.join().ok();
    case.nontrivial();
    if n_inflight > 0 {
        case.probe("calls_in_flight_at_fault");
    }
}

/// A call times out (or not) while its response is delivered just before / at / just after
/// the deadline; the late response must be discarded and an unrelated call must still get
/// its own reply.
fn c06_timeout_race(case: &Case, listener: TcpListener, addr: std::net::SocketAddr) {
    let timeout_ms = pick(&[5u64, 20, 100]);
    let delta: i64 = pick(&[-1_000_000i64, -1_000, -1, 0, 1, 1_000, 1_000_000, 50_000_000]);
    let other_calls = range(0, 3);
    case.sample(json!({"scenario": "timeout-race", "timeout_ms": timeout_ms, "response_at_deadline_plus_ns": delta, "other_calls": other_calls}));
    // fixed latency so the harness controls arrival time exactly
    net::set_config(NetConfig { capacity: 65_536, lat_min: 0, lat_max: 0, max_segment: 0 });
    let srv_case = case.clone();
    let server = thread::spawn(move || {
        let Ok((mut s, _)) = listener.accept() else { return };
        let mut first: Option<(Frame, u64)> = None;
        loop {
            // answer other calls immediately; hold the victim's response until its slot
            if let Some(due) = first.as_ref().map(|x| x.1) {
                let due = &due;
                let now = simkernel::now_ns();
                if now >= *due {
                    let (f, _) = first.take().unwrap();
                    if now > *due {
                        srv_case.probe("late_response_sent");
                    }
                    if write_all_retry(&mut s, &echo_of(&f).encode()).is_err() {
                        return;
                    }
                    continue;
                }
                s.set_read_timeout(Some(Duration::from_nanos(due - now))).ok();
            } else {
                s.set_read_timeout(None).ok();
            }
            match read_frame(&mut s) {
                Ok(Some(f)) => {
                    if f.query_str().ends_with("/victim") {
                        let arrive = simkernel::now_ns();
                        let due = (arrive as i64 + (timeout_ms * MS) as i64 + delta).max(arrive as i64) as u64;
                        first = Some((f, due));
                    } else if write_all_retry(&mut s, &echo_of(&f).encode()).is_err() {
                        return;
                    }
                }
                Ok(None) => return,
                Err(e) if e.kind() == ErrorKind::WouldBlock => continue,
                Err(_) => return,
            }
        }
    });
    let client = match Client::connect(addr) {
        Ok(c) => c,
        Err(e) => {
            case.harness_error(format!("connect failed: {e}"));
            return;
        }
    };
    let vc = client.clone();
    let vcase = case.clone();
    let victim = thread::spawn(move || {
        let r = vc.call_with_formats_and_timeout("/echo/victim", 1, Some(b"victim-body"), 0, Duration::from_millis(timeout_ms));
        match r {
            Ok(m) => {
                vcase.probe("victim_got_response_in_time");
                vcase.check(m.body == b"victim-body", "wrong-response", || "victim got a foreign body".into());
            }
            Err(_) => vcase.probe("fault.call_timeout_fired"),
        }
    });
    let mut hs = Vec::new();
    for t in 1..=other_calls as u64 {
        let c = client.clone();
        let case = case.clone();
        let delay = pick(&[0u64, 1, timeout_ms, timeout_ms + 1, timeout_ms * 2]);
        hs.push(thread::spawn(move || {
            thread::sleep(Duration::from_millis(delay));
            if let Err(e) = do_call(&c, draw_kind(), t, None) {
                let class = if e.starts_with("WRONG-RESPONSE") { "wrong-response" } else { "unrelated-call-failed" };
                case.fail(class, format!("call {t} around a timed-out call: {e}"));
            }
        }));
    }
    victim.join().ok();
    for h in hs {
        h.join().ok();
    }
    // let the late response arrive, then the client must still work and hold no residue
    thread::sleep(Duration::from_millis(200));
    if let Err(e) = do_call(&client, CallKind::Json, 777, None) {
        case.fail("unrelated-call-failed", format!("call after a timed-out call: {e}"));
    }
    case.check(client.verif_pending_len() == 0, "pending-residue", || {
        format!("{} pending entries after timeout + late response", client.verif_pending_len())
    });
    drop(client);
    server.join().ok();
    case.nontrivial();
}

/// One call times out while 2-5 sibling calls (lower and higher ids) are still pending; the
/// server answers the siblings only afterwards, in a seeded order. Every sibling must get
/// its own reply, nothing stays pending.
fn c06_timeout_with_held_siblings(case: &Case, listener: TcpListener, addr: std::net::SocketAddr) {
    let timeout_ms = pick(&[5u64, 20, 100]);
    let n_sib = range(2, 5) as u64;
    let victim_pos = simkernel::choose(n_sib as u32 + 1) as u64; // how many siblings start before the victim
    let answer_victim_late = coin();
    case.sample(json!({"scenario": "timeout-with-held-siblings", "timeout_ms": timeout_ms, "siblings": n_sib, "siblings_started_before_victim": victim_pos, "late_victim_response": answer_victim_late}));
    net::set_config(NetConfig { capacity: 65_536, lat_min: 0, lat_max: pick(&[0u64, 50_000]), max_segment: 0 });
    let total = n_sib + 1;
    let server = thread::spawn(move || {
        let Ok((mut s, _)) = listener.accept() else { return };
        s.set_read_timeout(Some(Duration::from_millis(2_000))).ok();
        let mut held: Vec<Frame> = Vec::new();
        while (held.len() as u64) < total {
            match read_frame(&mut s) {
                Ok(Some(f)) => held.push(f),
                _ => return,
            }
        }
        // well past the victim's deadline
        thread::sleep(Duration::from_millis(timeout_ms + 20));
        while !held.is_empty() {
            let f = held.remove(simkernel::choose(held.len() as u32) as usize);
            if f.query_str().ends_with("/victim") && !answer_victim_late {
                continue;
            }
            if write_all_retry(&mut s, &echo_of(&f).encode()).is_err() {
                return;
            }
        }
        // keep the connection up for the follow-up call
        loop {
            match read_frame(&mut s) {
                Ok(Some(f)) => {
                    if write_all_retry(&mut s, &echo_of(&f).encode()).is_err() {
                        return;
                    }
                }
                _ => return,
            }
        }
    });
    let client = match Client::connect(addr) {
        Ok(c) => c,
        Err(e) => {
            case.harness_error(format!("connect failed: {e}"));
            return;
        }
    };
    let mut hs = Vec::new();
    let mut victim = None;
    for k in 0..=n_sib {
        let c = client.clone();
        let case = case.clone();
        if k == victim_pos {
            victim = Some(thread::spawn(move || {
                let r = c.call_with_formats_and_timeout("/echo/victim", 1, Some(b"victim-body"), 0, Duration::from_millis(timeout_ms));
                case.check(r.is_err(), "ok-without-response", || "the victim was answered only after its deadline but returned Ok".into());
            }));
        } else {
            let t = 100 + k;
            hs.push(thread::spawn(move || {
                if let Err(e) = do_call(&c, CallKind::Json, t, None) {
                    let class = if e.starts_with("WRONG-RESPONSE") { "wrong-response" } else { "unrelated-call-failed" };
                    case.fail(class, format!("sibling call {t} of a timed-out call: {e}"));
                }
            }));
        }
        // ids are minted in start order: let each caller register before the next starts
        thread::sleep(Duration::from_micros(200));
    }
    if let Some(v) = victim {
        v.join().ok();
    }
    for h in hs {
        h.join().ok();
    }
    thread::sleep(Duration::from_millis(50));
    if let Err(e) = do_call(&client, CallKind::Json, 777, None) {
        case.fail("unrelated-call-failed", format!("call after a timed-out call: {e}"));
    }
    case.check(client.verif_pending_len() == 0, "pending-residue", || format!("{} pending entries after timeout with siblings", client.verif_pending_len()));
    drop(client);
    server.join().ok();
    case.nontrivial();
    case.probe("timeout_with_siblings_pending");
}

/// A misbehaving peer: it does not read for longer than the call's timeout, then drains
/// everything and never answers. A call with a timeout must still return (its write may
/// legitimately wait out the stall), nothing stays pending, later calls return too.
fn c06_stall_then_silent(case: &Case, listener: TcpListener, addr: std::net::SocketAddr) {
    let stall_ms = pick(&[20u64, 200, 1_500]);
    let timeout_ms = pick(&[5u64, 50, 150]);
    let size = pick(&[10usize, 5_000, 200_000]);
    case.sample(json!({"scenario": "stall-then-silent", "peer_reads_after_ms": stall_ms, "call_timeout_ms": timeout_ms, "request_bytes": size}));
    net::set_config(NetConfig { capacity: pick(&[1024usize, 65_536]), lat_min: 0, lat_max: 10_000, max_segment: 0 });
    let server = thread::spawn(move || {
        let Ok((mut s, _)) = listener.accept() else { return };
        thread::sleep(Duration::from_millis(stall_ms));
        simkernel::count("fault.stall_reader");
        s.set_read_timeout(Some(Duration::from_millis(3_000))).ok();
        let mut buf = vec![0u8; 1 << 16];
        loop {
            match std::io::Read::read(&mut s, &mut buf) {
                Ok(0) => return,
                Ok(_) => {}
                Err(e) if e.kind() == ErrorKind::Interrupted => {}
                Err(_) => return,
            }
        }
    });
    let client = match Client::connect(addr) {
        Ok(c) => c,
        Err(e) => {
            case.harness_error(format!("connect failed: {e}"));
            return;
        }
    };
    let body = pattern(1, size);
    let t0 = simkernel::now_ns();
    let r = client.call_with_formats_and_timeout("/never-answered", 1, Some(&body), 0, Duration::from_millis(timeout_ms));
    let took_ms = (simkernel::now_ns() - t0) / MS;
    case.check(r.is_err(), "ok-without-response", || "a call the peer never answered returned Ok".into());
    case.check(took_ms <= stall_ms + timeout_ms + 1_000, "call-outlived-its-timeout", || {
        format!("call with a {timeout_ms} ms timeout returned after {took_ms} ms (the peer started reading after {stall_ms} ms and never answered)")
    });
    let r2 = client.call_json_with_timeout("/also-never", &json!({"x": 1}), Duration::from_millis(timeout_ms));
    case.check(r2.is_err(), "ok-without-response", || "a second call the peer never answered returned Ok".into());
    case.check(client.verif_pending_len() == 0, "pending-residue", || format!("{} pending entries after timed-out calls", client.verif_pending_len()));
    drop(client);
    server.join().ok();
    case.nontrivial();
    case.probe("timeout_expired_while_peer_stalled");
}

// =========================================================================== C05

/// Check the bytes one endpoint wrote: complete frames whose bodies are the pattern of their
/// id, optionally followed by a prefix of one more such frame.
pub fn check_tap(case: &Case, who: &str, bytes: &[u8], body_id: impl Fn(&Frame) -> u64) -> (usize, usize) {
    let shape = split_stream(bytes);
    if let Some((off, why)) = &shape.garbage_at {
        case.fail("torn-then-frame", format!("{who}: after {} complete frames the stream is not a frame prefix at offset {off}: {why}", shape.frames.len()));
        return (shape.frames.len(), shape.tail.len());
    }
    for (i, f) in shape.frames.iter().enumerate() {
        if !is_pattern(body_id(f), &f.body) {
            case.fail("interleaved", format!("{who}: frame #{i} (id {}) has a body that is not its own {} bytes", f.id, f.body.len()));
            return (shape.frames.len(), shape.tail.len());
        }
    }
    if shape.tail.len() > codec::HDR {
        let h = Frame::parse_header(&shape.tail);
        let q = h.query_length as usize;
        if shape.tail.len() > codec::HDR + q {
            let mut hq = h.clone();
            hq.query = shape.tail[codec::HDR..codec::HDR + q].to_vec();
            let body_part = &shape.tail[codec::HDR + q..];
            if !is_pattern(body_id(&hq), body_part) {
                case.fail("torn-then-frame", format!("{who}: bytes follow a torn frame (id {}, {} of {} body bytes are its own pattern)", h.id,
                    body_part.iter().enumerate().take_while(|(k, b)| **b == codec::pattern_byte(body_id(&hq), *k)).count(), h.body_length));
            }
        }
    }
    (shape.frames.len(), shape.tail.len())
}

fn c05_client(case: &Case) {
    let capacity = pick(&[64usize, 256, 1024, 8192, 65_536]);
    net::reset(NetConfig { capacity, lat_min: pick(&[0u64, 10_000]), lat_max: pick(&[10_000u64, 500_000]), max_segment: pick(&[0usize, 0, 13, 100]) });
    let listener = TcpListener::bind("127.0.0.1:0").unwrap();
    let addr = listener.local_addr().unwrap();
    let nwriters = pick(&[1u32, 2, 3, 4, 8, 16, 32]);
    let write_timeout = if simkernel::choose(3) != 0 { Some(Duration::from_millis(pick(&[1u64, 5, 50]))) } else { None };
    // the reader stalls after `stall_after` bytes for `stall_ms` (or forever)
    let stall = simkernel::choose(3) != 0;
    let stall_after = pick(&[0usize, 10, 47, 48, 100, 5_000, 20_000]);
    // (one value sits between one and two write timeouts: a writer that gave up once would get
    // through on a second try)
    let between = write_timeout.map(|d| d.as_millis() as u64 * 3 / 2).unwrap_or(7).max(2);
    let mut stall_ms = pick(&[0u64, 3, 20, 200, between, between, u64::MAX]);
    if write_timeout.is_none() && stall_ms == u64::MAX {
        // without a write timeout a permanently stalled peer legitimately blocks writers
        // forever (TCP back-pressure); bound the stall so the run can finish
        stall_ms = 10_000;
    }
    // big frames are expensive byte-at-a-time: only a fraction of runs carries them
    let big = simkernel::choose(6) == 0;
    let sizes: Vec<usize> = (0..nwriters)
        .map(|_| if big { pick(&[8191usize, 8192, 8193, 20_000, 70_000]) } else { pick(&[0usize, 1, 63, 64, 65, 300, 1000, 3000]) })
        .collect();
    case.sample(json!({"writers": nwriters, "capacity": capacity, "write_timeout_ms": write_timeout.map(|d| d.as_millis() as u64),
        "reader_stalls": stall, "stall_after_bytes": stall_after, "stall_ms": if stall_ms == u64::MAX { json!("forever") } else { json!(stall_ms) }, "sizes": sizes}));

    let conn_slot: Arc<std::sync::Mutex<Option<TcpStream>>> = Arc::new(std::sync::Mutex::new(None));
    let slot2 = conn_slot.clone();
    let stop = Arc::new(std::sync::atomic::AtomicBool::new(false));
    let stop2 = stop.clone();
    let srv_case = case.clone();
    let server = thread::spawn(move || {
        let Ok((mut s, _)) = listener.accept() else { return };
        *slot2.lock().unwrap() = Some(s.try_clone().unwrap());
        let mut consumed = 0usize;
        let mut stalled = !stall;
        let mut buf = vec![0u8; 1 << 14];
        let mut acc: Vec<u8> = Vec::new();
        let mut replied = 0usize;
        s.set_read_timeout(Some(Duration::from_millis(50))).ok();
        loop {
            if stop2.load(std::sync::atomic::Ordering::SeqCst) {
                return;
            }
            if !stalled && consumed >= stall_after {
                stalled = true;
                srv_case.probe("fault.stall_reader");
                if stall_ms == u64::MAX {
                    // never read again; wait for the harness to end the run
                    while !stop2.load(std::sync::atomic::Ordering::SeqCst) {
                        thread::sleep(Duration::from_millis(100));
                    }
                    return;
                }
                thread::sleep(Duration::from_millis(stall_ms));
            }
            let want = if !stalled { (stall_after - consumed).clamp(1, buf.len()) } else { buf.len() };
            match std::io::Read::read(&mut s, &mut buf[..want]) {
                Ok(0) => return,
                Ok(n) => {
                    consumed += n;
                    acc.extend_from_slice(&buf[..n]);
                    // reply (empty-bodied) to every complete request so callers return
                    let shape = split_stream(&acc);
                    if shape.garbage_at.is_some() {
                        // cannot re-synchronise: stop replying, keep draining
                        continue;
                    }
                    for f in shape.frames.iter().skip(replied) {
                        if f.notify == 0 {
                            let r = Frame::new(f.id, &f.query, b"");
                            let _ = write_all_retry(&mut s, &r.encode());
                        }
                    }
                    replied = shape.frames.len();
                }
                Err(e) if e.kind() == ErrorKind::WouldBlock || e.kind() == ErrorKind::Interrupted => continue,
                Err(_) => return,
            }
        }
    });

    let client = match Client::connect(addr) {
        Ok(c) => c,
        Err(e) => {
            case.harness_error(format!("connect failed: {e}"));
            return;
        }
    };
    if let Some(d) = write_timeout {
        client.set_write_timeout(Some(d)).ok();
    }
    let mut hs = Vec::new();
    let errs = Arc::new(std::sync::atomic::AtomicU64::new(0));
    for (i, len) in sizes.iter().cloned().enumerate() {
        let c = client.clone();
        let errs = errs.clone();
        let notify = simkernel::choose(5) == 0;
        hs.push(thread::spawn(move || {
            // the body is the pattern of the writer index (ids are chosen by the client)
            let body = pattern(i as u64 + 1, len);
            let path = format!("/w/{}", i + 1);
            let r = if notify {
                c.notify_with_formats(&path, 1, Some(&body), 0).map(|_| ())
            } else {
                c.call_with_formats_and_timeout(&path, 1, Some(&body), 0, Duration::from_secs(5)).map(|_| ())
            };
            if r.is_err() {
                errs.fetch_add(1, std::sync::atomic::Ordering::SeqCst);
            }
        }));
    }
    for h in hs {
        h.join().ok();
    }
    if errs.load(std::sync::atomic::Ordering::SeqCst) > 0 {
        case.probe("writer_saw_error");
    }
    // a follow-up writer after any interruption: whatever it does must keep the stream whole
    let follow = pattern(999, 10);
    let _ = client.notify_with_formats("/w/999", 1, Some(&follow), 0);
    let _ = client.call_with_formats_and_timeout("/w/999", 1, Some(&follow), 0, Duration::from_millis(300));
    thread::sleep(Duration::from_millis(500));
    // oracle: everything the client put on the wire
    let sconn = conn_slot.lock().unwrap().take();
    if let Some(sc) = sconn {
        let bytes = net::tap_of(&sc.conn(), Side::A);
        let id_of = |f: &Frame| -> u64 {
            // writer index is in the query "/w/<n>"
            f.query_str().rsplit('/').next().and_then(|s| s.parse().ok()).unwrap_or(0)
        };
        let (frames, tail) = check_tap(case, "blocking client", &bytes, id_of);
        if tail > 0 {
            case.probe("torn_frame_on_wire");
        }
        if frames >= 2 {
            case.nontrivial();
        }
        drop(sc);
    }
    stop.store(true, std::sync::atomic::Ordering::SeqCst);
    drop(client);
    server.join().ok();
    case.nontrivial();
}
