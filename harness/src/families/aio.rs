//! Helpers for tokio-world scenarios: running a scenario on the deterministic runtime,
//! cancel-safe frame I/O for scripted peers, and a poll-count cancellation adaptor.

use crate::codec::{Frame, HDR};
use crate::framework::Case;
use std::future::Future;
use std::io;
use std::pin::Pin;
use std::task::{Context, Poll};
use std::time::Duration;
use tokio::io::{AsyncRead, AsyncReadExt, AsyncWrite, AsyncWriteExt};

/// Run `fut` on a fresh paused-clock runtime. A scenario that is still unfinished after
/// `budget_s` simulated seconds (far beyond every timer it contains) is a hang.
pub fn run<F: Future<Output = ()>>(case: &Case, budget_s: u64, fut: F) {
    if simkernel::tokio_rt::block_on(Duration::from_secs(budget_s), fut).is_err() {
        case.fail("hang", format!("scenario still waiting after {budget_s} simulated seconds: an awaited event never came"));
    }
}

/// Like `run` for families where an unfinished scenario is a harness problem.
pub fn run_or_error<F: Future<Output = ()>>(case: &Case, budget_s: u64, fut: F) {
    if simkernel::tokio_rt::block_on(Duration::from_secs(budget_s), fut).is_err() {
        case.harness_error(format!("scenario unfinished after {budget_s} simulated seconds"));
    }
}

pub async fn sleep_us(us: u64) {
    tokio::time::sleep(Duration::from_micros(us)).await;
}
pub async fn sleep_ms(ms: u64) {
    tokio::time::sleep(Duration::from_millis(ms)).await;
}

/// A few seeded scheduling perturbations before an action.
pub async fn jitter() {
    match simkernel::choose(4) {
        0 => {}
        1 => tokio::task::yield_now().await,
        2 => sleep_us(simkernel::choose(50) as u64).await,
        _ => sleep_us(simkernel::choose(3000) as u64).await,
    }
}

/// Cancel-safe frame reader: partial input stays in the buffer when `next` is dropped
/// (e.g. by an enclosing timeout).
pub struct FrameReader<R> {
    r: R,
    buf: Vec<u8>,
    pub eof: bool,
    pub consumed: usize,
}

impl<R: AsyncRead + Unpin> FrameReader<R> {
    pub fn new(r: R) -> Self {
        FrameReader { r, buf: Vec::new(), eof: false, consumed: 0 }
    }
    pub fn get_mut(&mut self) -> &mut R {
        &mut self.r
    }
    pub fn buffered(&self) -> usize {
        self.buf.len()
    }
    fn try_parse(&mut self) -> io::Result<Option<Frame>> {
        if self.buf.len() < HDR {
            return Ok(None);
        }
        let mut f = Frame::parse_header(&self.buf);
        if !f.header_consistent() {
            return Err(io::Error::new(io::ErrorKind::InvalidData, format!("peer sent an inconsistent header: spec={:#x} length={} q={} b={}", f.spec, f.length, f.query_length, f.body_length)));
        }
        let total = f.length as usize;
        if self.buf.len() < total {
            return Ok(None);
        }
        let q = f.query_length as usize;
        f.query = self.buf[HDR..HDR + q].to_vec();
        f.body = self.buf[HDR + q..total].to_vec();
        self.buf.drain(..total);
        self.consumed += total;
        Ok(Some(f))
    }
    /// `Ok(None)` = clean EOF at a frame boundary.
    pub async fn next(&mut self) -> io::Result<Option<Frame>> {
        loop {
            if let Some(f) = self.try_parse()? {
                return Ok(Some(f));
            }
            if self.eof {
                return if self.buf.is_empty() { Ok(None) } else { Err(io::Error::new(io::ErrorKind::UnexpectedEof, "eof inside frame")) };
            }
            let mut tmp = [0u8; 4096];
            let n = self.r.read(&mut tmp).await?;
            if n == 0 {
                self.eof = true;
            } else {
                self.buf.extend_from_slice(&tmp[..n]);
            }
        }
    }
    /// Read at most `max` raw bytes (discarding them); 0 = EOF.
    pub async fn drain_some(&mut self, max: usize) -> io::Result<usize> {
        if !self.buf.is_empty() {
            let n = self.buf.len().min(max);
            self.buf.drain(..n);
            return Ok(n);
        }
        let mut tmp = vec![0u8; max.clamp(1, 1 << 14)];
        let n = self.r.read(&mut tmp).await?;
        Ok(n)
    }
}

pub async fn write_all<W: AsyncWrite + Unpin>(w: &mut W, bytes: &[u8]) -> io::Result<()> {
    w.write_all(bytes).await?;
    w.flush().await
}

/// Polls the inner future at most `polls` times; then drops it (cancellation at that
/// await point) and yields `None`.
pub struct CancelAfter<F> {
    inner: Option<Pin<Box<F>>>,
    left: u32,
    pub polled: u32,
}

impl<F: Future> CancelAfter<F> {
    pub fn new(f: F, polls: u32) -> Self {
        CancelAfter { inner: Some(Box::pin(f)), left: polls, polled: 0 }
    }
}

impl<F: Future> Future for CancelAfter<F> {
    type Output = Option<F::Output>;
    fn poll(mut self: Pin<&mut Self>, cx: &mut Context<'_>) -> Poll<Self::Output> {
        let me = &mut *self;
        if me.left == 0 {
            me.inner = None;
            return Poll::Ready(None);
        }
        let Some(f) = me.inner.as_mut() else { return Poll::Ready(None) };
        me.left -= 1;
        me.polled += 1;
        match f.as_mut().poll(cx) {
            Poll::Ready(v) => {
                me.inner = None;
                Poll::Ready(Some(v))
            }
            Poll::Pending => {
                if me.left == 0 {
                    // cancel right here, at this await point
                    me.inner = None;
                    return Poll::Ready(None);
                }
                Poll::Pending
            }
        }
    }
}

/// Counts how many times a future is polled before it completes (dry run for enumeration).
pub struct CountPolls<F> {
    inner: Pin<Box<F>>,
    pub polls: u32,
}
impl<F: Future> CountPolls<F> {
    pub fn new(f: F) -> Self {
        CountPolls { inner: Box::pin(f), polls: 0 }
    }
}
impl<F: Future> Future for CountPolls<F> {
    type Output = (F::Output, u32);
    fn poll(mut self: Pin<&mut Self>, cx: &mut Context<'_>) -> Poll<Self::Output> {
        self.polls += 1;
        let n = self.polls;
        self.inner.as_mut().poll(cx).map(|v| (v, n))
    }
}
