//! C19 on the real blocking `Fleet`: scripted nodes emit per-attempt outcome sequences over
//! the seven-letter alphabet, then turn healthy. Retry delay and call timeouts run on the
//! simulated clock.

use crate::codec::{Frame, read_frame, write_all_retry};
use crate::families::client_blocking::draw_net;
use crate::framework::{Case, Family, pick, range};
use repe::fleet::{Fleet, FleetOptions, NodeConfig, RetryPolicy};
use serde_json::{Value, json};
use simkernel::net::{self, Shutdown, TcpListener, TcpStream};
use simkernel::sync::Arc;
use simkernel::thread;
use simkernel::time::Duration;
use std::io::ErrorKind;

pub fn families() -> Vec<Family> {
    vec![
        Family::new(
            "c19_fleet_seq",
            "C19",
            "blocking Fleet vs. one scripted node: outcome sequences (refused / accepted-then-closed / closed-while-idle / silent / malformed / app-error / success) then a healthy phase",
            c19_fleet_seq,
        )
        .runs(20_000, 1_200_000)
        .steps(400_000),
        Family::new(
            "c19_fleet_broadcast",
            "C19",
            "blocking Fleet broadcast_json over tag subsets of up to 4 healthy or flaky nodes",
            c19_fleet_broadcast,
        )
        .runs(20_000, 1_200_000)
        .steps(400_000),
    ]
}

#[derive(Clone, Copy, Debug, PartialEq, Eq)]
pub enum Outcome {
    Refused,
    AcceptedThenClosed,
    ClosedWhileIdle,
    Silent,
    Malformed,
    AppError,
    Success,
}

pub const ALPHABET: [Outcome; 7] = [
    Outcome::Refused,
    Outcome::AcceptedThenClosed,
    Outcome::ClosedWhileIdle,
    Outcome::Silent,
    Outcome::Malformed,
    Outcome::AppError,
    Outcome::Success,
];

/// What the scripted node saw and did.
#[derive(Default, Debug)]
pub struct NodeLog {
    /// (call tag from the request path, connection serial)
    pub requests: Vec<(String, u64)>,
    pub connections: u64,
    /// how many connections had been accepted when the n-th request arrived
    pub consumed: usize,
    pub events: Vec<String>,
}

pub fn call_tag(path: &str) -> String {
    path.rsplit('/').next().unwrap_or("").to_string()
}

/// The scripted node. Consumes `seq` one outcome per attempt, then behaves healthily.
/// `Refused` is consumed by a connect attempt, `ClosedWhileIdle` by closing the live
/// connection before the next request, the rest by a request.
pub fn run_node(listener: TcpListener, seq: Vec<Outcome>, log: Arc<std::sync::Mutex<NodeLog>>, stop: Arc<std::sync::atomic::AtomicBool>) {
    run_node_opts(listener, seq, log, stop, false)
}

/// `silent_mutes_conn`: after a Silent outcome the connection stays open but is never
/// answered again (a black-holed connection); fresh connections are served normally.
pub fn run_node_opts(listener: TcpListener, seq: Vec<Outcome>, log: Arc<std::sync::Mutex<NodeLog>>, stop: Arc<std::sync::atomic::AtomicBool>, silent_mutes_conn: bool) {
    let addr = listener.local_addr().unwrap();
    let mut i = 0usize;
    let mut conn: Option<TcpStream> = None;
    let mut serial = 0u64;
    let ev = |log: &Arc<std::sync::Mutex<NodeLog>>, s: String| {
        simkernel::event(|| format!("node: {s}"));
        log.lock().unwrap().events.push(s);
    };
    loop {
        if stop.load(std::sync::atomic::Ordering::SeqCst) {
            return;
        }
        log.lock().unwrap().consumed = i;
        let next = seq.get(i).copied();
        if conn.is_none() {
            // arm refusals for the run of Refused outcomes at the head
            let mut refusals = 0u32;
            while seq.get(i + refusals as usize) == Some(&Outcome::Refused) {
                refusals += 1;
            }
            if refusals > 0 {
                net::refuse_next(addr, refusals);
                ev(&log, format!("refusing next {refusals} connects"));
                i += refusals as usize;
                log.lock().unwrap().consumed = i;
            }
            match listener.accept() {
                Ok((s, _)) => {
                    serial += 1;
                    log.lock().unwrap().connections = serial;
                    ev(&log, format!("accepted connection #{serial}"));
                    s.set_read_timeout(Some(Duration::from_millis(500))).ok();
                    conn = Some(s);
                }
                Err(_) => return,
            }
            continue;
        }
        if next == Some(Outcome::ClosedWhileIdle) {
            ev(&log, "closing idle connection".into());
            i += 1;
            simkernel::count("fault.closed_while_idle");
            conn = None; // drop = close
            continue;
        }
        let s = conn.as_mut().unwrap();
        let req = match read_frame(s) {
            Ok(Some(f)) => f,
            Ok(None) => {
                ev(&log, "peer closed the connection".into());
                conn = None;
                continue;
            }
            Err(e) if e.kind() == ErrorKind::WouldBlock => continue,
            Err(_) => {
                conn = None;
                continue;
            }
        };
        let tag = call_tag(&req.query_str());
        log.lock().unwrap().requests.push((tag.clone(), serial));
        let o = next.unwrap_or(Outcome::Success);
        if next.is_some() {
            i += 1;
        }
        ev(&log, format!("request {tag} on #{serial}: {o:?}"));
        match o {
            Outcome::Success | Outcome::Refused | Outcome::ClosedWhileIdle => {
                let body = serde_json::to_vec(&json!({"ok": tag})).unwrap();
                let mut r = Frame::new(req.id, &req.query, &body);
                r.body_format = 2; // JSON
                if write_all_retry(s, &r.encode()).is_err() {
                    conn = None;
                }
            }
            Outcome::AppError => {
                simkernel::count("fault.application_error");
                let mut r = Frame::new(req.id, &req.query, b"nope").ec(pick(&[1u32, 2, 3, 4, 5, 6, 7, 7, 8, 4096, 4097, 70_000])); // any error code is a reply
                r.body_format = 3; // UTF-8
                if write_all_retry(s, &r.encode()).is_err() {
                    conn = None;
                }
            }
            Outcome::Silent => {
                simkernel::count("fault.silent_until_timeout");
                // say nothing; the caller's timeout decides.
                if silent_mutes_conn {
                    // the connection went dead without closing: keep it open, never answer on
                    // it again, serve new connections
                    simkernel::count("fault.connection_black_holed");
                    let mut dead = conn.take().unwrap();
                    let (log2, stop2, ser) = (log.clone(), stop.clone(), serial);
                    thread::spawn(move || {
                        dead.set_read_timeout(Some(Duration::from_millis(500))).ok();
                        loop {
                            if stop2.load(std::sync::atomic::Ordering::SeqCst) {
                                return;
                            }
                            match read_frame(&mut dead) {
                                Ok(Some(f)) => {
                                    let tag = call_tag(&f.query_str());
                                    let mut l = log2.lock().unwrap();
                                    l.requests.push((tag.clone(), ser));
                                    l.events.push(format!("request {tag} on #{ser}: Muted"));
                                }
                                Ok(None) => return,
                                Err(e) if e.kind() == ErrorKind::WouldBlock => continue,
                                Err(_) => return,
                            }
                        }
                    });
                }
                // otherwise keep reading on this connection.
            }
            Outcome::Malformed => {
                simkernel::count("fault.malformed_reply");
                let mut f = Frame::new(req.id, b"/x", b"abc");
                f.spec = 0x4242;
                let _ = write_all_retry(s, &f.encode());
                // leave the connection open: the client must fail it on the bytes alone
            }
            Outcome::AcceptedThenClosed => {
                simkernel::count("fault.accepted_then_closed");
                if simkernel::choose(2) == 1 {
                    net::reset_conn(&s.conn());
                } else {
                    s.shutdown(Shutdown::Both).ok();
                }
                conn = None;
            }
        }
    }
}

fn is_transport(o: Outcome) -> bool {
    matches!(o, Outcome::Refused | Outcome::AcceptedThenClosed | Outcome::ClosedWhileIdle | Outcome::Silent)
}

fn c19_fleet_seq(case: &Case) {
    net::reset(draw_net());
    let listener = TcpListener::bind("127.0.0.1:0").unwrap();
    let addr = listener.local_addr().unwrap();
    let max_attempts = range(1, 3) as usize;
    let seq_len = range(0, max_attempts as u32 + 2) as usize;
    let mut seq: Vec<Outcome> = (0..seq_len).map(|_| ALPHABET[simkernel::choose(7) as usize]).collect();
    // ClosedWhileIdle needs a live connection to close: it only makes sense after an outcome
    // that leaves one (or it degenerates into "accepted, closed before any request")
    if seq.first() == Some(&Outcome::ClosedWhileIdle) && simkernel::choose(2) == 0 {
        seq.insert(0, Outcome::Success);
    }
    let timeout_ms = pick(&[20u64, 100, 400]);
    let delay_ms = pick(&[1u64, 10, 50]);
    let ncalls = range(1, 3);
    let silent_mutes_conn = simkernel::choose(2) == 0;
    case.sample(json!({"max_attempts": max_attempts, "outcomes": seq.iter().map(|o| format!("{o:?}")).collect::<Vec<_>>(),
        "timeout_ms": timeout_ms, "retry_delay_ms": delay_ms, "scripted_calls": ncalls, "silent_connection_stays_dead": silent_mutes_conn}));

    case.cover("outcome_sequence(of 22k for max_attempts<=3)", format!("{max_attempts}/{}", seq.iter().map(|o| (*o as u8 + b'0') as char).collect::<String>()));
    let log = Arc::new(std::sync::Mutex::new(NodeLog::default()));
    let stop = Arc::new(std::sync::atomic::AtomicBool::new(false));
    let (l2, s2, seq2) = (log.clone(), stop.clone(), seq.clone());
    let node = thread::spawn(move || run_node_opts(listener, seq2, l2, s2, silent_mutes_conn));

    let cfg = NodeConfig::new("127.0.0.1", addr.port())
        .unwrap()
        .with_name("n1")
        .unwrap()
        .with_timeout(Duration::from_millis(timeout_ms))
        .unwrap();
    let fleet = Fleet::with_options(
        vec![cfg],
        FleetOptions {
            default_timeout: Duration::from_millis(pick(&[1u64, timeout_ms, 5_000])), // (the fleet-wide default is not what a node with its own timeout uses)
            retry_policy: RetryPolicy { max_attempts, delay: Duration::from_millis(delay_ms) },
        },
    )
    .unwrap();

    let mut callno = 0u32;
    let mut do_call = |fleet: &Fleet| -> (String, Result<Value, String>) {
        callno += 1;
        let tag = format!("c{callno}");
        let use_message = simkernel::choose(3) == 0;
        let r = if use_message {
            fleet.call_message("n1", &format!("/m/{tag}")).map(|r| match (r.value, r.error) {
                (Some(m), None) => m.json_body::<Value>().map_err(|e| e.to_string()),
                (_, Some(e)) => Err(e.to_string()),
                _ => Err("empty".into()),
            })
        } else {
            fleet.call_json("n1", &format!("/m/{tag}"), Some(&json!({"p": tag}))).map(|r| match (r.value, r.error) {
                (Some(v), None) => Ok(v),
                (_, Some(e)) => Err(e.to_string()),
                _ => Err("empty".into()),
            })
        };
        (tag, r.unwrap_or_else(|e| Err(format!("fleet error {e}"))))
    };

    // scripted phase
    let mut results: Vec<(String, Result<Value, String>, usize, usize)> = Vec::new();
    for _ in 0..ncalls {
        let before = log.lock().unwrap().consumed;
        let (tag, r) = do_call(&fleet);
        // let the node settle (e.g. notice a closed connection) before reading its log
        thread::sleep(Duration::from_millis(1));
        let after = log.lock().unwrap().consumed;
        results.push((tag, r, before, after));
    }
    // healthy phase: every scripted outcome not yet consumed is dropped
    let consumed_at_switch = log.lock().unwrap().consumed;
    let _ = consumed_at_switch;
    // per-call oracle against the node's log
    {
        let lg = log.lock().unwrap();
        for (tag, r, _before, _after) in &results {
            let reqs: Vec<&(String, u64)> = lg.requests.iter().filter(|q| &q.0 == tag).collect();
            if !case.check(reqs.len() <= max_attempts, "too-many-attempts", || {
                format!("call {tag}: node saw {} requests, max_attempts {max_attempts}; node events {:?}", reqs.len(), lg.events)
            }) {
                return;
            }
            // which outcomes did this call's requests get? (from the event log)
            let outs: Vec<String> = lg.events.iter().filter(|e| e.starts_with(&format!("request {tag} "))).cloned().collect();
            // stops at the first reply
            let first_reply = outs.iter().position(|e| e.ends_with("Success") || e.ends_with("AppError") || e.ends_with("Refused") || e.ends_with("ClosedWhileIdle"));
            if let Some(p) = first_reply {
                if !case.check(p + 1 == outs.len(), "retried-after-reply", || {
                    format!("call {tag} was retried after it got a reply: {outs:?}")
                }) {
                    return;
                }
                let app = outs[p].ends_with("AppError");
                match r {
                    Ok(v) => {
                        if !case.check(!app && v == &json!({"ok": tag}), "wrong-result", || format!("call {tag} returned {v}, node events {outs:?}")) {
                            return;
                        }
                    }
                    Err(e) => {
                        if !case.check(app && e.contains("nope"), "reply-not-reported", || {
                            format!("call {tag} got a reply ({}) but returned error {e}", outs[p])
                        }) {
                            return;
                        }
                    }
                }
            } else {
                if !case.check(r.is_err(), "ok-without-reply", || format!("call {tag} returned Ok without any reply: {outs:?}")) {
                    return;
                }
                // An unparsable reply is not a transport failure: the node received and
                // processed the request, so the call must not be sent again.
                if let Some(p) = outs.iter().position(|e| e.ends_with("Malformed"))
                    && !case.check(p + 1 == outs.len(), "retried-after-malformed-reply", || format!("call {tag} was sent again after the node answered it with an unparsable reply: {outs:?}"))
                {
                    return;
                }
            }
        }
    }
    // healthy phase
    stop.store(false, std::sync::atomic::Ordering::SeqCst);
    {
        // drop whatever is left of the script
        // (the node reads `seq` by index; mark it exhausted by consuming through a flag)
    }
    // The node turns healthy once its script is exhausted. Calls continue until it is.
    let mut extra = 0;
    while log.lock().unwrap().consumed < seq.len() && extra < 12 {
        let _ = do_call(&fleet);
        thread::sleep(Duration::from_millis(1));
        extra += 1;
    }
    if log.lock().unwrap().consumed < seq.len() {
        // script could not be drained (e.g. trailing ClosedWhileIdle with no connection): fine
        case.probe("script_not_fully_consumed");
    }
    thread::sleep(Duration::from_millis(5));
    // the node is healthy from here on: refusals that were armed but never met a connect
    // attempt belong to the script and are dropped with it
    net::refuse_next(addr, 0);
    let (t1, h1) = do_call(&fleet);
    // (no second chance when the last thing the fleet saw was a refused dial: it then holds no
    // connection that could have died silently)
    let last_was_refused = log.lock().unwrap().events.last().is_some_and(|e| e.ends_with("Refused"));
    let recovered = if h1.is_ok() {
        true
    } else if max_attempts == 1 && !last_was_refused {
        // one attempt per call: the failed call must at least have cleared the dead
        // connection, so the next call reconnects and succeeds
        case.probe("second_healthy_call_needed");
        let (_t2, h2) = do_call(&fleet);
        h2.is_ok()
    } else {
        false
    };
    let lg = log.lock().unwrap();
    case.check(recovered, "wedged", || {
        format!(
            "node is healthy but call {t1} failed ({:?}) with max_attempts={max_attempts}; is_connected={:?}; node events {:?}",
            h1,
            fleet.is_connected("n1"),
            lg.events
        )
    });
    drop(lg);
    case.nontrivial();
    if seq.iter().any(|o| is_transport(*o)) {
        case.probe("transport_failure_in_script");
    }
    stop.store(true, std::sync::atomic::Ordering::SeqCst);
    drop(fleet);
    net::shutdown_all();
    node.join().ok();
}

fn c19_fleet_broadcast(case: &Case) {
    net::reset(draw_net());
    // (rarely: far more nodes than any fan-out batch a fleet might use internally)
    let many = simkernel::choose(150) == 0;
    let nnodes = if many { pick(&[65usize, 70, 130]) } else { range(1, 4) as usize };
    if many {
        simkernel::count("probe.broadcast_to_many_nodes");
        net::set_config(simkernel::net::NetConfig { capacity: 65_536, lat_min: 0, lat_max: 10_000, max_segment: 0 });
    }
    let all_tags = ["a", "b", "c"];
    let mut cfgs = Vec::new();
    let mut logs = Vec::new();
    let mut nodes = Vec::new();
    let stop = Arc::new(std::sync::atomic::AtomicBool::new(false));
    let mut node_tags: Vec<Vec<&str>> = Vec::new();
    let mut flaky = Vec::new();
    for n in 0..nnodes {
        let listener = TcpListener::bind("127.0.0.1:0").unwrap();
        let addr = listener.local_addr().unwrap();
        let tags: Vec<&str> = all_tags.iter().copied().filter(|_| simkernel::choose(2) == 1).collect();
        let seq: Vec<Outcome> = if simkernel::choose(3) == 0 {
            vec![pick(&[Outcome::Refused, Outcome::AcceptedThenClosed, Outcome::Silent, Outcome::AppError])]
        } else {
            vec![]
        };
        flaky.push(seq.clone());
        let log = Arc::new(std::sync::Mutex::new(NodeLog::default()));
        let (l2, s2) = (log.clone(), stop.clone());
        nodes.push(thread::spawn(move || run_node(listener, seq, l2, s2)));
        logs.push(log);
        cfgs.push(
            NodeConfig::new("127.0.0.1", addr.port())
                .unwrap()
                .with_name(format!("n{n}"))
                .unwrap()
                .with_tags(tags.iter().map(|t| t.to_string()))
                .with_timeout(Duration::from_millis(pick(&[20u64, 50, 150])))
                .unwrap(),
        );
        node_tags.push(tags);
    }
    let max_attempts = range(1, 3) as usize;
    let fleet = Fleet::with_options(
        cfgs,
        FleetOptions { default_timeout: Duration::from_millis(pick(&[1u64, 50, 5_000])), retry_policy: RetryPolicy { max_attempts, delay: Duration::from_millis(pick(&[0u64, 5, 30])) } },
    )
    .unwrap();
    let mut want_tags: Vec<&str> = all_tags.iter().copied().filter(|_| simkernel::choose(3) == 0).collect();
    // the requested tags come in any order and may repeat
    if want_tags.len() >= 2 && simkernel::choose(2) == 0 {
        want_tags.reverse();
    }
    if !want_tags.is_empty() && simkernel::choose(4) == 0 {
        let t = want_tags[simkernel::choose(want_tags.len() as u32) as usize];
        want_tags.push(t);
    }
    case.sample(json!({"nodes": node_tags, "flaky": flaky.iter().map(|s| format!("{s:?}")).collect::<Vec<_>>(), "broadcast_tags": want_tags, "max_attempts": max_attempts}));
    let out = fleet.broadcast_json("/m/bc", Some(&json!({"x": 1})), &want_tags);
    let mut addressed: Vec<String> = (0..nnodes).filter(|n| want_tags.iter().all(|t| node_tags[*n].contains(t))).map(|n| format!("n{n}")).collect();
    let mut got: Vec<String> = out.keys().cloned().collect();
    got.sort();
    addressed.sort();
    if !case.check(got == addressed, "broadcast-addressing", || format!("broadcast {want_tags:?} returned results for {got:?}, nodes carrying all tags: {addressed:?}")) {
        return;
    }
    thread::sleep(Duration::from_millis(2));
    for n in 0..nnodes {
        let name = format!("n{n}");
        let seen = logs[n].lock().unwrap().requests.len();
        if addressed.contains(&name) {
            if !case.check(seen >= 1 || !flaky[n].is_empty(), "broadcast-missed-node", || format!("{name} was addressed but saw no request")) {
                return;
            }
            if !case.check(seen <= max_attempts, "too-many-attempts", || format!("{name} saw {seen} requests for one broadcast, max_attempts {max_attempts}")) {
                return;
            }
            let r = &out[&name];
            if flaky[n].is_empty() {
                case.check(r.value == Some(json!({"ok": "bc"})), "wrong-result", || format!("{name}: {:?} {:?}", r.value, r.error));
            } else if max_attempts >= 2 && matches!(flaky[n][0], Outcome::Refused | Outcome::AcceptedThenClosed | Outcome::Silent) {
                // one transport failure, then the node is healthy: the broadcast has attempts
                // left for this node and must come back with its reply
                case.probe("broadcast_node_recovered_within_attempts");
                case.check(r.value == Some(json!({"ok": "bc"})), "broadcast-gave-up-early", || {
                    format!("{name} failed once ({:?}) and was healthy afterwards, max_attempts {max_attempts}, but the broadcast returned {:?} / {:?}; node saw {seen} requests", flaky[n][0], r.value, r.error.as_ref().map(|e| e.to_string()))
                });
            } else if flaky[n][0] == Outcome::AppError {
                case.check(r.value.is_none() && r.error.as_ref().is_some_and(|e| e.to_string().contains("nope")), "reply-not-reported", || format!("{name} answered with an application error but the broadcast returned {:?} / {:?}", r.value, r.error.as_ref().map(|e| e.to_string())));
            }
        } else if !case.check(seen == 0, "broadcast-addressing", || format!("{name} lacks a requested tag but saw {seen} requests")) {
            return;
        }
    }
    if addressed.len() >= 2 {
        case.nontrivial();
    }
    stop.store(true, std::sync::atomic::Ordering::SeqCst);
    drop(fleet);
    net::shutdown_all();
    for n in nodes {
        n.join().ok();
    }
}
