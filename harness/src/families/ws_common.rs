//! Shared pieces for WebSocket-world scenarios: a raw tungstenite peer on the simulated
//! network (the harness's own endpoint, unlimited inbound sizes), gates for parking
//! off-reader handlers on simulated threads, a hook/event log, and a response collector.

use crate::codec::Frame;
use crate::framework::Case;
use futures_util::stream::{SplitSink, SplitStream};
use futures_util::{SinkExt, StreamExt};
use simkernel::sync::{Condvar, Mutex};
use simkernel::tokio_net::TcpStream;
use std::collections::{BTreeMap, BTreeSet};
use std::sync::Arc;
use std::time::Duration;
use tokio_tungstenite::WebSocketStream;
use tokio_tungstenite::tungstenite::Message as WsMessage;
use tokio_tungstenite::tungstenite::protocol::{Role, WebSocketConfig};

pub type RawWs = WebSocketStream<TcpStream>;
pub type RawSink = SplitSink<RawWs, WsMessage>;
pub type RawStream = SplitStream<RawWs>;

pub fn unlimited_config() -> WebSocketConfig {
    let mut c = WebSocketConfig::default();
    c.max_frame_size = None;
    c.max_message_size = None;
    c
}

/// Client handshake of the harness's own peer against `addr` at `path`.
pub async fn raw_connect(addr: std::net::SocketAddr, path: &str) -> Result<RawWs, String> {
    raw_connect_with_headers(addr, path, &[]).await
}

pub async fn raw_connect_with_headers(addr: std::net::SocketAddr, path: &str, headers: &[(&str, &str)]) -> Result<RawWs, String> {
    use tokio_tungstenite::tungstenite::client::IntoClientRequest;
    let stream = TcpStream::connect(addr).await.map_err(|e| format!("tcp connect: {e}"))?;
    let mut req = format!("ws://{addr}{path}").into_client_request().map_err(|e| e.to_string())?;
    for (k, v) in headers {
        req.headers_mut().insert(
            tokio_tungstenite::tungstenite::http::header::HeaderName::from_bytes(k.as_bytes()).map_err(|e| e.to_string())?,
            v.parse().map_err(|_| "bad header value".to_string())?,
        );
    }
    let (ws, _resp) = tokio_tungstenite::client_async_with_config(req, stream, Some(unlimited_config())).await.map_err(|e| format!("ws handshake: {e}"))?;
    Ok(ws)
}

/// A client-role stream over an already "upgraded" connection (no HTTP at all).
pub async fn raw_client_no_handshake(stream: TcpStream) -> RawWs {
    WebSocketStream::from_raw_socket(stream, Role::Client, Some(unlimited_config())).await
}

pub async fn send_frame(sink: &mut RawSink, f: &Frame) -> Result<(), String> {
    sink.send(WsMessage::Binary(f.encode())).await.map_err(|e| e.to_string())
}

/// What the peer received, in order.
#[derive(Debug, Clone)]
pub enum Rx {
    Frame(Frame),
    /// a binary message that is not exactly one consistent REPE frame
    BadBinary(usize, String),
    Text(usize),
    Close,
    Error(String),
    End,
}

#[derive(Default)]
pub struct Inbox {
    pub items: std::sync::Mutex<Vec<(u64, Rx)>>,
    pub max_binary: std::sync::atomic::AtomicUsize,
}

impl Inbox {
    pub fn frames(&self) -> Vec<Frame> {
        self.items.lock().unwrap().iter().filter_map(|(_, r)| if let Rx::Frame(f) = r { Some(f.clone()) } else { None }).collect()
    }
    pub fn ended(&self) -> bool {
        self.items.lock().unwrap().iter().any(|(_, r)| matches!(r, Rx::Close | Rx::Error(_) | Rx::End))
    }
    pub fn len(&self) -> usize {
        self.items.lock().unwrap().len()
    }
    pub fn responses_for(&self, id: u64) -> Vec<Frame> {
        self.frames().into_iter().filter(|f| f.id == id && f.notify == 0).collect()
    }
    pub fn bad(&self) -> Option<String> {
        self.items.lock().unwrap().iter().find_map(|(_, r)| match r {
            Rx::BadBinary(n, why) => Some(format!("binary message of {n} bytes is not one REPE frame: {why}")),
            Rx::Text(n) => Some(format!("text message of {n} bytes")),
            _ => None,
        })
    }
}

/// Drain `stream` into `inbox` until it ends. Every item is stamped with the simulated time.
pub fn spawn_collector(mut stream: RawStream, inbox: Arc<Inbox>) -> tokio::task::JoinHandle<()> {
    tokio::spawn(async move {
        loop {
            let item = match stream.next().await {
                Some(Ok(WsMessage::Binary(b))) => {
                    inbox.max_binary.fetch_max(b.len(), std::sync::atomic::Ordering::SeqCst);
                    if b.len() >= crate::codec::HDR {
                        let mut f = Frame::parse_header(&b);
                        if f.header_consistent() && f.length as usize == b.len() {
                            let q = f.query_length as usize;
                            f.query = b[crate::codec::HDR..crate::codec::HDR + q].to_vec();
                            f.body = b[crate::codec::HDR + q..].to_vec();
                            Rx::Frame(f)
                        } else {
                            Rx::BadBinary(b.len(), format!("spec={:#x} length={} q={} b={}", f.spec, f.length, f.query_length, f.body_length))
                        }
                    } else {
                        Rx::BadBinary(b.len(), "shorter than a header".into())
                    }
                }
                Some(Ok(WsMessage::Text(t))) => Rx::Text(t.len()),
                Some(Ok(WsMessage::Close(_))) => Rx::Close,
                Some(Ok(_)) => continue,
                Some(Err(e)) => Rx::Error(e.to_string()),
                None => Rx::End,
            };
            let end = matches!(item, Rx::Error(_) | Rx::End);
            simkernel::event(|| format!("peer rx {}", match &item { Rx::Frame(f) => format!("frame id={} ec={} notify={} q={}", f.id, f.ec, f.notify, f.query_str()), other => format!("{other:?}") }));
            inbox.items.lock().unwrap().push((simkernel::now_ns(), item));
            if end {
                return;
            }
        }
    })
}

/// Poll `cond` every simulated millisecond (each tick also lets simulated threads run)
/// until it holds or `max_ms` passed.
pub async fn wait_until(max_ms: u64, mut cond: impl FnMut() -> bool) -> bool {
    for _ in 0..max_ms {
        if cond() {
            return true;
        }
        tokio::time::sleep(Duration::from_millis(1)).await;
    }
    cond()
}

// ------------------------------------------------------------------ gates

#[derive(Clone, Copy, Debug, PartialEq, Eq)]
pub enum Exit {
    Return,
    Error,
    Panic,
}

#[derive(Default)]
pub struct GateState {
    /// tags of handlers that entered, in entry order
    pub arrived: Vec<u64>,
    pub released: BTreeMap<u64, Exit>,
    pub exited: Vec<u64>,
    pub running: u64,
    pub max_running: u64,
    /// what each handler saw of its cancellation signal when it was released
    pub cancelled_seen: BTreeMap<u64, bool>,
    pub open: bool,
    pub entered_twice: BTreeSet<u64>,
}

/// Parks handlers (on simulated threads) until the harness releases them by tag.
pub struct Gate {
    pub st: Mutex<GateState>,
    cv: Condvar,
}

impl Gate {
    pub fn new() -> Arc<Gate> {
        Arc::new(Gate { st: Mutex::new(GateState::default()), cv: Condvar::new() })
    }
    /// Called by the handler: registers the entry, parks until released, returns how to exit.
    pub fn enter(&self, tag: u64, is_cancelled: impl Fn() -> bool) -> Exit {
        let mut g = self.st.lock().unwrap();
        if g.arrived.contains(&tag) {
            g.entered_twice.insert(tag);
        }
        g.arrived.push(tag);
        g.running += 1;
        g.max_running = g.max_running.max(g.running);
        simkernel::event(|| format!("gate enter tag={tag} running={}", g.running));
        loop {
            if let Some(e) = g.released.get(&tag).copied() {
                g.cancelled_seen.insert(tag, is_cancelled());
                g.running -= 1;
                g.exited.push(tag);
                simkernel::event(|| format!("gate exit tag={tag} {e:?}"));
                return e;
            }
            if g.open {
                g.cancelled_seen.insert(tag, is_cancelled());
                g.running -= 1;
                g.exited.push(tag);
                return Exit::Return;
            }
            g = self.cv.wait(g).unwrap();
        }
    }
    pub fn release(&self, tag: u64, how: Exit) {
        let mut g = self.st.lock().unwrap();
        g.released.insert(tag, how);
        drop(g);
        self.cv.notify_all();
    }
    pub fn open_all(&self) {
        let mut g = self.st.lock().unwrap();
        g.open = true;
        drop(g);
        self.cv.notify_all();
    }
    pub fn arrived(&self) -> Vec<u64> {
        self.st.lock().unwrap().arrived.clone()
    }
    pub fn has_arrived(&self, tag: u64) -> bool {
        self.st.lock().unwrap().arrived.contains(&tag)
    }
    pub fn has_exited(&self, tag: u64) -> bool {
        self.st.lock().unwrap().exited.contains(&tag)
    }
    pub fn running(&self) -> u64 {
        self.st.lock().unwrap().running
    }
    pub fn max_running(&self) -> u64 {
        self.st.lock().unwrap().max_running
    }
}

// ------------------------------------------------------------------ hook log

#[derive(Default)]
pub struct HookLog {
    pub events: std::sync::Mutex<Vec<(String, u64)>>,
    /// simulated time of each event, parallel to `events`
    pub times: std::sync::Mutex<Vec<u64>>,
}
impl HookLog {
    pub fn push(&self, what: &str, peer: u64) {
        simkernel::event(|| format!("hook {what} peer={peer}"));
        self.events.lock().unwrap().push((what.to_string(), peer));
        self.times.lock().unwrap().push(simkernel::now_ns());
    }
    pub fn time_of(&self, what: &str, peer: u64) -> Option<u64> {
        let ev = self.events.lock().unwrap();
        let t = self.times.lock().unwrap();
        ev.iter().position(|e| e.0 == what && e.1 == peer).and_then(|i| t.get(i).copied())
    }
    pub fn of_peer(&self, peer: u64) -> Vec<String> {
        self.events.lock().unwrap().iter().filter(|e| e.1 == peer).map(|e| e.0.clone()).collect()
    }
    pub fn peers(&self) -> Vec<u64> {
        let mut v: Vec<u64> = self.events.lock().unwrap().iter().map(|e| e.1).collect();
        v.sort();
        v.dedup();
        v
    }
    pub fn count(&self, what: &str) -> usize {
        self.events.lock().unwrap().iter().filter(|e| e.0 == what).count()
    }
}

pub fn check_inbox_clean(case: &Case, who: &str, inbox: &Inbox) {
    if let Some(b) = inbox.bad() {
        case.fail("not-a-frame", format!("{who}: peer received {b}"));
    }
}
