//! C18: the real `PeerRegistry` vs. a peer/alias model; sequential histories checked
//! step by step, concurrent histories (simulated threads) checked for linearizability.

use crate::framework::{Case, Family, OnDeadlock, coin, pick, range};
use crate::lin::{Completed, SeqModel, Stamps, linearize};
use repe::constants::BodyFormat;
use repe::peer::{NotifyBody, PeerHandle, PeerId, PeerRegistry, PeerSendError, PeerSink};
use serde_json::json;
use simkernel::sync::Arc;
use simkernel::thread;
use std::collections::BTreeMap;

pub fn families() -> Vec<Family> {
    vec![
        Family::new("c18_seq", "C18", "sequential insert/remove/alias/lookup/broadcast histories vs. model", c18_seq)
            .runs(200_000, 12_000_000)
            .deadlock(OnDeadlock::HarnessError),
        Family::new(
            "c18_conc",
            "C18",
            "2-4 simulated threads x 1-4 ops on one PeerRegistry, linearizability vs. model",
            c18_conc,
        )
        .runs(100_000, 6_000_000)
        .deadlock(OnDeadlock::HarnessError),
        Family::new(
            "c18_sink_reentry",
            "C18",
            "a broadcast over peers whose sinks call back into the registry (look a key up, remove their own dead peer) or stall for a while, next to a thread that keeps using the registry: one result per peer present at the call, one notification each, nobody deadlocks and the bystander is not held up by the stalled sink",
            c18_sink_reentry,
        )
        .runs(40_000, 2_400_000)
        .deadlock(OnDeadlock::Violation),
    ]
}

/// A sink that uses the registry it is registered in while it is being sent to.
struct ReentrantSink {
    id: u64,
    /// 0 plain, 1 looks things up, 2 removes its own peer and reports Disconnected, 3 stalls
    kind: u8,
    reg: PeerRegistry,
    got: Arc<std::sync::Mutex<Vec<(u64, String)>>>,
    stall_ns: u64,
    stalled_until: Arc<std::sync::atomic::AtomicU64>,
}
impl PeerSink for ReentrantSink {
    fn send_notify(&self, method: &str, _body: NotifyBody) -> Result<(), PeerSendError> {
        self.got.lock().unwrap().push((self.id, method.to_string()));
        match self.kind {
            1 => {
                let _ = self.reg.get_by("k");
                let _ = self.reg.len();
                let _ = self.reg.aliases_for(PeerId(self.id));
                Ok(())
            }
            2 => {
                self.reg.remove(PeerId(self.id));
                Err(PeerSendError::Disconnected)
            }
            3 => {
                thread::sleep(std::time::Duration::from_nanos(self.stall_ns));
                self.stalled_until.store(simkernel::now_ns(), std::sync::atomic::Ordering::SeqCst);
                Ok(())
            }
            _ => Ok(()),
        }
    }
    fn is_connected(&self) -> bool {
        true
    }
}

fn c18_sink_reentry(case: &Case) {
    let reg = PeerRegistry::new();
    let got: Arc<std::sync::Mutex<Vec<(u64, String)>>> = Default::default();
    let stalled_until = Arc::new(std::sync::atomic::AtomicU64::new(0));
    let n = range(1, 4) as u64;
    let kinds: Vec<u8> = (0..n).map(|_| pick(&[0u8, 1, 1, 2, 3])).collect();
    let stall_ns = pick(&[1_000_000u64, 50_000_000]);
    for (i, k) in kinds.iter().enumerate() {
        let id = i as u64 + 1;
        reg.insert(PeerHandle::new(PeerId(id), Arc::new(ReentrantSink { id, kind: *k, reg: reg.clone(), got: got.clone(), stall_ns, stalled_until: stalled_until.clone() })));
    }
    reg.alias(PeerId(1), "k");
    case.sample(json!({"sinks": kinds.iter().map(|k| ["plain", "looks-up", "removes-itself", "stalls"][*k as usize]).collect::<Vec<_>>(), "stall_ns": stall_ns}));
    // a bystander keeps using the registry while the broadcast is under way
    let r2 = reg.clone();
    let bystander = thread::spawn(move || {
        thread::sleep(std::time::Duration::from_nanos(1_000));
        let _ = r2.get_by("k");
        r2.insert(PeerHandle::new(PeerId(99), Arc::new(ReentrantSink { id: 99, kind: 0, reg: r2.clone(), got: Default::default(), stall_ns: 0, stalled_until: Default::default() })));
        r2.alias(PeerId(99), "late");
        let _ = r2.aliases_for(PeerId(99));
        simkernel::now_ns()
    });
    let res = reg.broadcast_notify_utf8("/ev", "hello");
    let by_done = bystander.join().unwrap_or(u64::MAX);
    let keys: std::collections::BTreeSet<u64> = res.keys().map(|p| p.0).collect();
    let want: std::collections::BTreeSet<u64> = (1..=n).collect();
    // (peer 99 joins concurrently: it may or may not be addressed)
    let core: std::collections::BTreeSet<u64> = keys.iter().copied().filter(|k| *k != 99).collect();
    case.check(core == want, "broadcast-results", || format!("broadcast reported results for {keys:?}, peers present at the call {want:?}"));
    let got = got.lock().unwrap().clone();
    for id in 1..=n {
        let c = got.iter().filter(|g| g.0 == id && g.1 == "/ev").count();
        case.check(c == 1, "notification-count", || format!("peer {id} received the broadcast {c} times"));
        let kind = kinds[id as usize - 1];
        let r = res.get(&PeerId(id));
        case.check(matches!((kind, r), (2, Some(Err(_))) | (0 | 1 | 3, Some(Ok(())))), "broadcast-results", || format!("peer {id} (sink kind {kind}) was reported as {r:?}"));
        if kind == 2 {
            case.check(reg.get(PeerId(id)).is_none(), "removed-peer-present", || format!("peer {id} removed itself from inside its sink but is still registered"));
        }
    }
    let stalled = stalled_until.load(std::sync::atomic::Ordering::SeqCst);
    if kinds.contains(&3) && stall_ns >= 50_000_000 && stalled > 0 {
        case.probe("bystander_ran_next_to_a_stalled_sink");
        case.check(by_done < stalled, "registry-frozen-by-a-slow-peer", || format!("a thread using the registry next to the broadcast finished at t={by_done}ns, only after the stalled sink let go at t={stalled}ns"));
    }
    case.nontrivial();
}

#[derive(Clone, Debug, PartialEq)]
enum Op {
    Insert(u64),
    Remove(u64),
    Alias(u64, String),
    Get(u64),
    GetBy(String),
    KeyFor(u64),
    AliasesFor(u64),
    Len,
    /// (kind 0..4, tag)
    Broadcast(u8, u32),
}

#[derive(Clone, Debug, PartialEq)]
enum Ret {
    Unit,
    Bool(bool),
    OptId(Option<u64>),
    OptKey(Option<String>),
    Keys(Vec<String>),
    Len(usize),
    /// per addressed peer: 0 ok, 1 full, 2 disconnected
    Sent(BTreeMap<u64, u8>),
}

#[derive(Clone, Default, Debug)]
struct Model {
    present: BTreeMap<u64, ()>,
    key_to_peer: BTreeMap<String, u64>,
    keys_of: BTreeMap<u64, Vec<String>>,
}

fn sink_behaviour(id: u64) -> u8 {
    match id % 7 {
        3 => 1,
        5 => 2,
        _ => 0,
    }
}

impl SeqModel for Model {
    type Op = Op;
    type Ret = Ret;
    fn apply(&mut self, op: &Op) -> Ret {
        match op {
            Op::Insert(id) => {
                self.present.insert(*id, ());
                Ret::Unit
            }
            Op::Remove(id) => {
                let was = self.present.remove(id).is_some();
                if let Some(keys) = self.keys_of.remove(id) {
                    for k in keys {
                        if self.key_to_peer.get(&k) == Some(id) {
                            self.key_to_peer.remove(&k);
                        }
                    }
                }
                Ret::OptId(if was { Some(*id) } else { None })
            }
            Op::Alias(id, key) => {
                if !self.present.contains_key(id) {
                    return Ret::Bool(false);
                }
                match self.key_to_peer.insert(key.clone(), *id) {
                    Some(prev) if prev == *id => return Ret::Bool(true),
                    Some(prev) => {
                        if let Some(v) = self.keys_of.get_mut(&prev) {
                            v.retain(|k| k != key);
                        }
                    }
                    None => {}
                }
                self.keys_of.entry(*id).or_default().push(key.clone());
                Ret::Bool(true)
            }
            Op::Get(id) => Ret::Bool(self.present.contains_key(id)),
            Op::GetBy(key) => Ret::OptId(self.key_to_peer.get(key).copied().filter(|p| self.present.contains_key(p))),
            Op::KeyFor(id) => Ret::OptKey(self.keys_of.get(id).and_then(|v| v.first().cloned())),
            Op::AliasesFor(id) => Ret::Keys(self.keys_of.get(id).cloned().unwrap_or_default()),
            Op::Len => Ret::Len(self.present.len()),
            Op::Broadcast(_, _) => Ret::Sent(self.present.keys().map(|id| (*id, sink_behaviour(*id))).collect()),
        }
    }
    fn fingerprint(&self) -> String {
        format!("{:?}|{:?}|{:?}", self.present.keys().collect::<Vec<_>>(), self.key_to_peer, self.keys_of)
    }
}

type Captured = Arc<std::sync::Mutex<Vec<(u64, String, Vec<u8>, u16)>>>; // (peer, path, body, format)

struct CapSink {
    id: u64,
    log: Captured,
}
impl PeerSink for CapSink {
    fn send_notify(&self, method: &str, body: NotifyBody) -> Result<(), PeerSendError> {
        let fmt = body.body_format() as u16;
        self.log.lock().unwrap().push((self.id, method.to_string(), body.as_bytes().to_vec(), fmt));
        match sink_behaviour(self.id) {
            1 => Err(PeerSendError::Full),
            2 => Err(PeerSendError::Disconnected),
            _ => Ok(()),
        }
    }
    fn is_connected(&self) -> bool {
        sink_behaviour(self.id) != 2
    }
}

fn bcast_payload(kind: u8, tag: u32) -> (String, Vec<u8>, u16) {
    let path = format!("/ev/{tag}");
    match kind % 4 {
        0 => (path, serde_json::to_vec(&json!({"tag": tag})).unwrap(), BodyFormat::Json as u16),
        1 => (path, beve::to_vec(&(tag as u64)).unwrap(), BodyFormat::Beve as u16),
        2 => (path, format!("text-{tag}").into_bytes(), BodyFormat::Utf8 as u16),
        _ => (path, vec![tag as u8, 0xfe, 0x00, 0x7f], BodyFormat::RawBinary as u16),
    }
}

fn exec(reg: &PeerRegistry, log: &Captured, op: &Op) -> Ret {
    match op {
        Op::Insert(id) => {
            reg.insert(PeerHandle::new(PeerId(*id), Arc::new(CapSink { id: *id, log: log.clone() })));
            Ret::Unit
        }
        Op::Remove(id) => Ret::OptId(reg.remove(PeerId(*id)).map(|p| p.peer_id().0)),
        Op::Alias(id, key) => Ret::Bool(reg.alias(PeerId(*id), key.clone())),
        Op::Get(id) => Ret::Bool(reg.get(PeerId(*id)).map(|p| p.peer_id().0 == *id).unwrap_or(false)),
        Op::GetBy(key) => Ret::OptId(reg.get_by(key.as_str()).map(|p| p.peer_id().0)),
        Op::KeyFor(id) => Ret::OptKey(reg.key_for(PeerId(*id))),
        Op::AliasesFor(id) => Ret::Keys(reg.aliases_for(PeerId(*id))),
        Op::Len => Ret::Len(reg.len()),
        Op::Broadcast(kind, tag) => {
            let (path, body, _fmt) = bcast_payload(*kind, *tag);
            let to_code = |r: &Result<(), PeerSendError>| match r {
                Ok(()) => 0u8,
                Err(PeerSendError::Full) => 1,
                Err(_) => 2,
            };
            let m: BTreeMap<u64, u8> = match kind % 4 {
                0 => reg
                    .broadcast_notify_json(&path, &json!({"tag": tag}))
                    .map(|m| m.iter().map(|(k, v)| (k.0, to_code(v))).collect())
                    .unwrap_or_default(),
                1 => reg
                    .broadcast_notify_beve(&path, &(*tag as u64))
                    .map(|m| m.iter().map(|(k, v)| (k.0, to_code(v))).collect())
                    .unwrap_or_default(),
                2 => reg
                    .broadcast_notify_utf8(&path, String::from_utf8(body).unwrap())
                    .iter()
                    .map(|(k, v)| (k.0, to_code(v)))
                    .collect(),
                _ => reg
                    .broadcast_notify_raw(&path, BodyFormat::RawBinary, &body)
                    .iter()
                    .map(|(k, v)| (k.0, to_code(v)))
                    .collect(),
            };
            Ret::Sent(m)
        }
    }
}

const KEYS: [&str; 3] = ["k1", "k2", "k3"];

/// `absent`: ids that were inserted and removed again (an embedder may hand the same id to a
/// new connection; never an id that is still present).
fn gen_op(ids_in_play: &[u64], next_id: &mut u64, tag: &mut u32, allow_insert: bool, absent: &[u64]) -> Op {
    let pick_id = |extra: u64| -> u64 {
        if ids_in_play.is_empty() || simkernel::choose(8) == 0 {
            extra
        } else {
            ids_in_play[simkernel::choose(ids_in_play.len() as u32) as usize]
        }
    };
    let key = || KEYS[simkernel::choose(3) as usize].to_string();
    match simkernel::choose(14) {
        0 | 1 if !absent.is_empty() && simkernel::choose(2) == 0 => {
            simkernel::count("probe.removed_id_inserted_again");
            Op::Insert(absent[simkernel::choose(absent.len() as u32) as usize])
        }
        0 | 1 if allow_insert => {
            let id = *next_id;
            *next_id += 1;
            Op::Insert(id)
        }
        2 | 3 => Op::Remove(pick_id(99)),
        4..=6 => Op::Alias(pick_id(98), key()),
        7 => Op::Get(pick_id(97)),
        8 | 9 => Op::GetBy(key()),
        10 => Op::KeyFor(pick_id(96)),
        11 => Op::AliasesFor(pick_id(95)),
        12 => Op::Len,
        _ => {
            *tag += 1;
            Op::Broadcast(simkernel::choose(4) as u8, *tag)
        }
    }
}

/// Broadcast content oracle: every addressed peer got exactly one notification with the
/// tag's path/body/format, nobody else got one.
fn check_broadcasts(case: &Case, log: &Captured, done: &[(Op, Ret)]) -> bool {
    let log = log.lock().unwrap();
    for (op, ret) in done {
        if let (Op::Broadcast(kind, tag), Ret::Sent(m)) = (op, ret) {
            let (path, body, fmt) = bcast_payload(*kind, *tag);
            let mut got: BTreeMap<u64, u32> = BTreeMap::new();
            for (peer, p, b, f) in log.iter() {
                if *p == path {
                    *got.entry(*peer).or_insert(0) += 1;
                    if !case.check(*b == body && *f == fmt, "broadcast-content", || {
                        format!("peer {peer} got body {b:?} fmt {f} for {path}, want {body:?} fmt {fmt}")
                    }) {
                        return false;
                    }
                }
            }
            let want: BTreeMap<u64, u32> = m.keys().map(|k| (*k, 1)).collect();
            if !case.check(got == want, "broadcast-delivery", || {
                format!("broadcast {path}: deliveries per peer {got:?}, results reported for {:?}", m.keys().collect::<Vec<_>>())
            }) {
                return false;
            }
        }
    }
    true
}

fn c18_seq(case: &Case) {
    let reg = PeerRegistry::new();
    let log: Captured = Arc::new(std::sync::Mutex::new(Vec::new()));
    let mut model = Model::default();
    let small = simkernel::choose(3) != 0;
    let n = if small { range(1, 10) } else { range(10, 150) };
    let mut next_id = 1u64;
    let mut tag = 0u32;
    let mut in_play: Vec<u64> = Vec::new();
    let mut hist: Vec<(Op, Ret)> = Vec::new();
    let mut repoints = 0;
    for _ in 0..n {
        // small scope: at most 3 peers ever inserted
        let allow_insert = !small || next_id <= 3;
        let absent: Vec<u64> = in_play.iter().copied().filter(|i| !model.present.contains_key(i)).collect();
        let op = gen_op(&in_play, &mut next_id, &mut tag, allow_insert, &absent);
        if let Op::Insert(id) = &op
            && !in_play.contains(id)
        {
            in_play.push(*id);
        }
        if let Op::Alias(id, k) = &op
            && model.key_to_peer.get(k).is_some_and(|p| p != id)
            && model.present.contains_key(id)
        {
            repoints += 1;
        }
        let got = exec(&reg, &log, &op);
        let want = model.apply(&op);
        hist.push((op.clone(), got.clone()));
        if !case.check(got == want, "model-mismatch", || {
            format!("{op:?} returned {got:?}, model {want:?}; history {:?}", hist.iter().map(|h| &h.0).collect::<Vec<_>>())
        }) {
            return;
        }
        // cross-invariants after every step
        for k in KEYS {
            let g = reg.get_by(k).map(|p| p.peer_id().0);
            let w = model.key_to_peer.get(k).copied().filter(|p| model.present.contains_key(p));
            if !case.check(g == w, "alias-lookup", || format!("get_by({k}) = {g:?}, model {w:?} after {:?}", hist.iter().map(|h| &h.0).collect::<Vec<_>>())) {
                return;
            }
        }
        for id in &in_play {
            let g = reg.aliases_for(PeerId(*id));
            let w = model.keys_of.get(id).cloned().unwrap_or_default();
            if !case.check(g == w, "alias-list", || format!("aliases_for({id}) = {g:?}, model {w:?} after {:?}", hist.iter().map(|h| &h.0).collect::<Vec<_>>())) {
                return;
            }
        }
    }
    if !check_broadcasts(case, &log, &hist) {
        return;
    }
    if repoints > 0 {
        case.probe_by("alias_repointed", repoints);
    }
    case.probe("sequential_history_checked");
    if hist.len() >= 2 {
        case.nontrivial();
    }
    case.sample(json!({"ops": hist.iter().take(20).map(|h| format!("{:?} -> {:?}", h.0, h.1)).collect::<Vec<_>>(), "total": hist.len()}));
}

fn c18_conc(case: &Case) {
    let reg = PeerRegistry::new();
    let log: Captured = Arc::new(std::sync::Mutex::new(Vec::new()));
    let mut model = Model::default();
    // sequential prefix so there is state to fight over
    let mut next_id = 1u64;
    let mut tag = 0u32;
    let mut in_play = Vec::new();
    for _ in 0..range(0, 4) {
        let allow = next_id <= 3;
        let absent: Vec<u64> = in_play.iter().copied().filter(|i| !model.present.contains_key(i)).collect();
        let op = gen_op(&in_play, &mut next_id, &mut tag, allow, &absent);
        if let Op::Insert(id) = &op
            && !in_play.contains(id)
        {
            in_play.push(*id);
        }
        let got = exec(&reg, &log, &op);
        let want = model.apply(&op);
        if !case.check(got == want, "model-mismatch", || format!("prefix {op:?}: {got:?} vs {want:?}")) {
            return;
        }
    }
    let mut nthreads = range(2, 4) as usize;
    let mut plans: Vec<Vec<Op>> = Vec::new();
    // a quarter of the runs: a key is handed over from a peer that then leaves, while others
    // look the key up - it addresses a present peer at every instant
    if simkernel::choose(4) == 0 {
        let (a, b) = (next_id, next_id + 1);
        next_id += 2;
        let k = KEYS[simkernel::choose(3) as usize].to_string();
        for op in [Op::Insert(a), Op::Insert(b), Op::Alias(a, k.clone())] {
            let got = exec(&reg, &log, &op);
            let want = model.apply(&op);
            if !case.check(got == want, "model-mismatch", || format!("prefix {op:?}: {got:?} vs {want:?}")) {
                return;
            }
        }
        in_play.extend([a, b]);
        plans.push(vec![Op::Alias(b, k.clone()), Op::Remove(a)]);
        for _ in 0..range(1, 2) {
            plans.push((0..range(1, 3)).map(|_| if coin() { Op::GetBy(k.clone()) } else { Op::KeyFor(b) }).collect());
        }
        nthreads = nthreads.saturating_sub(plans.len()).max(0);
        case.probe("key_handed_over_while_looked_up");
    }
    for t in 0..nthreads {
        let mut plan = Vec::new();
        // each thread inserts from its own id range (ids stay unique, the documented contract)
        let mut my_next = 100 * (t as u64 + 1);
        for _ in 0..range(1, 4) {
            let mut ids = in_play.clone();
            ids.extend((100 * (t as u64 + 1))..my_next);
            let op = gen_op(&ids, &mut my_next, &mut tag, coin(), &[]);
            plan.push(op);
        }
        plans.push(plan);
    }
    let stamps = Arc::new(Stamps::new());
    let results: Arc<std::sync::Mutex<Vec<Completed<Op, Ret>>>> = Arc::new(std::sync::Mutex::new(Vec::new()));
    let mut hs = Vec::new();
    for (t, plan) in plans.iter().cloned().enumerate() {
        let reg = reg.clone();
        let log = log.clone();
        let stamps = stamps.clone();
        let results = results.clone();
        hs.push(thread::spawn(move || {
            for op in plan {
                let invoke = stamps.next();
                let ret = exec(&reg, &log, &op);
                let ret_at = stamps.next();
                simkernel::event(|| format!("T{t} {op:?} -> {ret:?}"));
                results.lock().unwrap().push(Completed { thread: t, op, ret, invoke, ret_at });
            }
        }));
    }
    for h in hs {
        h.join().ok();
    }
    let mut hist = std::mem::take(&mut *results.lock().unwrap());
    // Observation phase: after all threads joined, read every key, every alias list and the
    // size sequentially; these reads close the history so that a state no sequential order
    // can produce (a dangling alias, say) is visible even if no concurrent op looked at it.
    if hist.len() <= 8 {
        let mut ids: Vec<u64> = in_play.clone();
        for c in &hist {
            if let Op::Insert(id) = &c.op {
                ids.push(*id);
            }
        }
        let mut obs: Vec<Op> = KEYS.iter().map(|k| Op::GetBy(k.to_string())).collect();
        obs.push(Op::Len);
        for id in ids.iter().take(4) {
            obs.push(Op::AliasesFor(*id));
        }
        for op in obs {
            let invoke = stamps.next();
            let ret = exec(&reg, &log, &op);
            let ret_at = stamps.next();
            hist.push(Completed { thread: 99, op, ret, invoke, ret_at });
        }
    }
    let witness = linearize(&model, &hist);
    let overlapping = hist
        .iter()
        .enumerate()
        .any(|(i, a)| hist.iter().skip(i + 1).any(|b| a.thread != b.thread && a.invoke < b.ret_at && b.invoke < a.ret_at));
    if overlapping {
        case.probe("history_with_overlapping_ops");
    }
    case.probe("concurrent_history_checked");
    case.nontrivial();
    let shown: Vec<String> = hist.iter().map(|c| format!("T{} [{}-{}] {:?} -> {:?}", c.thread, c.invoke, c.ret_at, c.op, c.ret)).collect();
    if !case.check(witness.is_some(), "not-linearizable", || format!("no sequential order explains: {shown:?} from state {}", model.fingerprint())) {
        return;
    }
    let done: Vec<(Op, Ret)> = hist.iter().map(|c| (c.op.clone(), c.ret.clone())).collect();
    check_broadcasts(case, &log, &done);
    let _ = pick(&[0]);
    case.sample(json!({"threads": nthreads, "history": shown}));
}
