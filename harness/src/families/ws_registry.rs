//! C18 on real peers: a `WebSocketServer` with a `PeerRegistry`, raw WebSocket peers that
//! come and go, handshake-derived aliases, and broadcasts of every body kind issued from the
//! runtime thread or from a simulated embedder thread. The wire each peer observes is the
//! oracle: exactly one notification per addressed peer with the given path, body and format,
//! one result per peer present, aliases that follow the peers.

use crate::codec::{Frame, pattern};
use crate::families::aio::{self, sleep_ms};
use crate::families::ws_common::{HookLog, Inbox, check_inbox_clean, raw_connect_with_headers, send_frame, spawn_collector, wait_until};
use crate::framework::{Case, Family, pick, range};
use futures_util::StreamExt;
use repe::constants::BodyFormat;
use repe::server::Router;
use repe::websocket_server::WebSocketServer;
use repe::{PeerId, PeerRegistry, PeerSendError};
use serde_json::{Value, json};
use simkernel::net;
use std::collections::{BTreeMap, BTreeSet};
use std::sync::Arc;

pub fn families() -> Vec<Family> {
    vec![
        Family::new(
            "c18_ws_broadcast",
            "C18",
            "PeerRegistry behind a real WebSocketServer: 1-4 raw peers connect (handshake alias, keys shared and re-pointed), disconnect and reconnect while json/beve/utf8/raw broadcasts and keyed sends run from the runtime thread or a simulated embedder thread; every peer's wire is compared with the broadcast's path, body and format and the result map with the peers present",
            c18_ws_broadcast,
        )
        .runs(30_000, 1_800_000)
        .steps(2_000_000)
        .tokio(),
    ]
}

#[derive(Clone, Debug)]
enum Op {
    /// kind 0 json, 1 beve, 2 utf8, 3.. raw with format kind-3
    Broadcast { kind: u8, tag: u64, len: usize, foreign: bool },
    Keyed { key: &'static str, tag: u64 },
    Disconnect(usize),
    Connect(&'static str),
}

const KEYS: [&str; 3] = ["ka", "kb", "kc"];

fn expected(kind: u8, tag: u64, len: usize) -> (Vec<u8>, u16) {
    let pad: String = "x".repeat(len);
    let v = json!({"tag": tag, "pad": pad});
    match kind {
        0 => (serde_json::to_vec(&v).unwrap(), 2),
        1 => (beve::to_vec(&v).unwrap(), 1),
        2 => (format!("t{tag}:{pad}").into_bytes(), 3),
        k => (pattern(tag, len + 8), (k - 3) as u16),
    }
}

fn do_broadcast(reg: &PeerRegistry, kind: u8, tag: u64, len: usize) -> BTreeMap<u64, u8> {
    let path = format!("/b/{tag}");
    let pad: String = "x".repeat(len);
    let v = json!({"tag": tag, "pad": pad});
    let res = match kind {
        0 => reg.broadcast_notify_json(&path, &v).unwrap(),
        1 => reg.broadcast_notify_beve(&path, &v).unwrap(),
        2 => reg.broadcast_notify_utf8(&path, format!("t{tag}:{pad}")),
        k => {
            let fmt = match k - 3 {
                0 => BodyFormat::RawBinary,
                1 => BodyFormat::Beve,
                2 => BodyFormat::Json,
                _ => BodyFormat::Utf8,
            };
            reg.broadcast_notify_raw(&path, fmt, &pattern(tag, len + 8))
        }
    };
    res.into_iter()
        .map(|(id, r)| {
            (
                id.0,
                match r {
                    Ok(()) => 0u8,
                    Err(PeerSendError::Full) => 1,
                    Err(_) => 2,
                },
            )
        })
        .collect()
}

struct Peer {
    id: u64,
    key: &'static str,
    sink: Option<crate::families::ws_common::RawSink>,
    inbox: Arc<Inbox>,
    collector: tokio::task::JoinHandle<()>,
    /// the harness closed it
    closed: bool,
}

async fn connect_peer(case: &Case, addr: std::net::SocketAddr, key: &'static str, next_call: &mut u64) -> Option<Peer> {
    let ws = match raw_connect_with_headers(addr, "/repe", &[("x-key", key)]).await {
        Ok(ws) => ws,
        Err(e) => {
            case.harness_error(&format!("handshake failed: {e}"));
            return None;
        }
    };
    let (mut sink, stream) = ws.split();
    let inbox = Arc::new(Inbox::default());
    let collector = spawn_collector(stream, inbox.clone());
    *next_call += 1;
    let cid = *next_call;
    let _ = send_frame(&mut sink, &Frame::new(cid, b"/whoami", b"null").with_formats(1, 2)).await;
    let ib = inbox.clone();
    if !wait_until(60_000, || !ib.responses_for(cid).is_empty() || ib.ended()).await || inbox.responses_for(cid).is_empty() {
        case.fail("connection-lost", "a fresh peer got no answer to its first call");
        return None;
    }
    let id = serde_json::from_slice::<Value>(&inbox.responses_for(cid)[0].body).ok().and_then(|v| v["id"].as_u64());
    let Some(id) = id else {
        case.fail("no-peer-context", "handler on a WebSocket connection saw no peer");
        return None;
    };
    Some(Peer { id, key, sink: Some(sink), inbox, collector, closed: false })
}

fn c18_ws_broadcast(case: &Case) {
    net::reset(simkernel::net::NetConfig {
        capacity: pick(&[65_536usize, 1 << 20]),
        lat_min: pick(&[0u64, 10_000]),
        lat_max: pick(&[10_000u64, 200_000]),
        max_segment: pick(&[0usize, 0, 700]),
    });
    let n_initial = range(1, 4) as usize;
    let initial_keys: Vec<&'static str> = (0..n_initial).map(|_| pick(&KEYS)).collect();
    let n_ops = range(2, 8) as usize;
    let mut tag = 0u64;
    let mut n_peers = n_initial;
    let ops: Vec<Op> = (0..n_ops)
        .map(|_| {
            tag += 1;
            match simkernel::choose(10) {
                0..=4 => Op::Broadcast { kind: range(0, 6) as u8, tag, len: pick(&[0usize, 1, 17, 300, 3000]), foreign: simkernel::choose(3) == 0 },
                5..=6 => Op::Keyed { key: pick(&KEYS), tag },
                7 => Op::Disconnect(range(0, n_peers as u32 - 1) as usize),
                _ => {
                    n_peers += 1;
                    Op::Connect(pick(&KEYS))
                }
            }
        })
        .collect();
    let out_cap = pick(&[2usize, 64, 256]);
    case.sample(json!({"initial_keys": initial_keys, "outbound_capacity": out_cap, "ops": ops.iter().map(|o| format!("{o:?}")).collect::<Vec<_>>()}));
    let case = case.clone();
    aio::run(&case.clone(), 3_600, async move {
        let reg = PeerRegistry::new();
        let hooks = Arc::new(HookLog::default());
        let (h1, h2) = (hooks.clone(), hooks.clone());
        let reg_alias = reg.clone();
        let router = Router::new()
            .with_json_ctx("/whoami", |ctx, _v: Value| Ok(json!({"id": ctx.peer().map(|p| p.peer_id().0)})))
            .with_json("/echo", |v: Value| Ok(json!({"echo": v})));
        let listener = WebSocketServer::listen("127.0.0.1:0").await.unwrap();
        let addr = listener.local_addr().unwrap();
        let server = WebSocketServer::new(router)
            .with_outbound_capacity(out_cap)
            .with_peer_registry(reg.clone())
            .on_peer_connect(move |p| h1.push("connect", p.peer_id().0))
            .on_peer_connect_with_handshake(move |p, hs| {
                if let Some(k) = hs.header("x-key") {
                    reg_alias.alias(p.peer_id(), k);
                }
            })
            .on_peer_disconnect(move |id| h2.push("disconnect", id.0))
            .on_error(|_| {});
        let srv = tokio::spawn(async move {
            let _ = server.serve_listener(listener, "/repe").await;
        });
        let mut next_call = 1_000u64;
        let mut peers: Vec<Peer> = Vec::new();
        // model: key -> owner id (last assignment wins, gone with its owner)
        let mut key_owner: BTreeMap<&'static str, u64> = BTreeMap::new();
        for k in &initial_keys {
            let Some(p) = connect_peer(&case, addr, k, &mut next_call).await else {
                srv.abort();
                return;
            };
            key_owner.insert(k, p.id);
            peers.push(p);
        }
        // expectations per tag: path suffix -> (body, format, ids addressed with Ok, ids that may have it)
        struct Expect {
            body: Vec<u8>,
            fmt: u16,
            must: BTreeSet<u64>,
            may: BTreeSet<u64>,
        }
        let mut expects: BTreeMap<u64, Expect> = BTreeMap::new();
        for op in &ops {
            match op {
                Op::Broadcast { kind, tag, len, foreign } => {
                    let (body, fmt) = expected(*kind, *tag, *len);
                    let before: BTreeSet<u64> = reg.peers().iter().map(|p| p.peer_id().0).collect();
                    let res = if *foreign {
                        // an embedder thread broadcasts while the runtime keeps serving
                        let reg2 = reg.clone();
                        let (kind, tag, len) = (*kind, *tag, *len);
                        let out: Arc<std::sync::Mutex<Option<BTreeMap<u64, u8>>>> = Default::default();
                        let out2 = out.clone();
                        simkernel::thread::spawn(move || {
                            let r = do_broadcast(&reg2, kind, tag, len);
                            *out2.lock().unwrap() = Some(r);
                        });
                        let o3 = out.clone();
                        wait_until(10_000, || o3.lock().unwrap().is_some()).await;
                        let r = out.lock().unwrap().take();
                        match r {
                            Some(r) => r,
                            None => {
                                case.fail("broadcast-stuck", "a broadcast from an embedder thread did not return");
                                srv.abort();
                                return;
                            }
                        }
                    } else {
                        do_broadcast(&reg, *kind, *tag, *len)
                    };
                    let after: BTreeSet<u64> = reg.peers().iter().map(|p| p.peer_id().0).collect();
                    let keys: BTreeSet<u64> = res.keys().copied().collect();
                    if *foreign {
                        let lo: BTreeSet<u64> = before.intersection(&after).copied().collect();
                        let hi: BTreeSet<u64> = before.union(&after).copied().collect();
                        case.check(lo.is_subset(&keys) && keys.is_subset(&hi), "broadcast-results", || format!("broadcast reported results for {keys:?}; peers present throughout {lo:?}, at some point {hi:?}"));
                    } else {
                        case.check(keys == before, "broadcast-results", || format!("broadcast reported results for {keys:?}; peers present at the call {before:?}"));
                    }
                    let must: BTreeSet<u64> = res.iter().filter(|(_, c)| **c == 0).map(|(i, _)| *i).collect();
                    if res.values().any(|c| *c == 1) {
                        case.probe("broadcast_hit_full_queue");
                    }
                    case.cover("broadcast_kind", &format!("{kind}"));
                    expects.insert(*tag, Expect { body, fmt, may: must.clone(), must });
                }
                Op::Keyed { key, tag } => {
                    let got = reg.get_by(*key);
                    let want = key_owner.get(key).copied();
                    let got_id = got.as_ref().map(|p| p.peer_id().0);
                    case.check(got_id == want, "lookup", || format!("get_by({key}) = {got_id:?}, the key was last assigned to {want:?}"));
                    let (body, fmt) = expected(3, *tag, 16);
                    let mut must = BTreeSet::new();
                    if let Some(p) = got
                        && p.send_notify(&format!("/b/{tag}"), repe::NotifyBody::Raw(body.clone(), BodyFormat::RawBinary)).is_ok()
                    {
                        must.insert(p.peer_id().0);
                    }
                    expects.insert(*tag, Expect { body, fmt, may: must.clone(), must });
                }
                Op::Disconnect(i) => {
                    let i = *i % peers.len();
                    if peers[i].closed {
                        continue;
                    }
                    peers[i].closed = true;
                    peers[i].sink = None;
                    peers[i].collector.abort();
                    let id = peers[i].id;
                    let hk = hooks.clone();
                    let gone = wait_until(30_000, || hk.count("disconnect") > 0 && hk.of_peer(id).contains(&"disconnect".to_string())).await;
                    case.check(gone, "disconnect-hook-missing", || format!("peer {id} closed its socket; no disconnect hook within 30 s"));
                    if !gone {
                        srv.abort();
                        return;
                    }
                    case.check(reg.get(PeerId(id)).is_none(), "removed-peer-present", || format!("peer {id} disconnected but is still in the registry"));
                    let owned: Vec<&'static str> = key_owner.iter().filter(|(_, o)| **o == id).map(|(k, _)| *k).collect();
                    for k in owned {
                        key_owner.remove(k);
                    }
                }
                Op::Connect(k) => {
                    let Some(p) = connect_peer(&case, addr, k, &mut next_call).await else {
                        srv.abort();
                        return;
                    };
                    key_owner.insert(k, p.id);
                    peers.push(p);
                }
            }
            // aliases vs. model after every step
            for k in KEYS {
                let got = reg.get_by(k).map(|p| p.peer_id().0);
                let want = key_owner.get(k).copied();
                case.check(got == want, "lookup", || format!("get_by({k}) = {got:?}, model {want:?} after {op:?}"));
            }
            for p in peers.iter().filter(|p| !p.closed) {
                let got = reg.aliases_for(PeerId(p.id));
                let want: Vec<String> = if key_owner.get(p.key) == Some(&p.id) { vec![p.key.to_string()] } else { vec![] };
                case.check(got == want, "aliases", || format!("aliases_for({}) = {got:?}, model {want:?} after {op:?}", p.id));
            }
            let live = peers.iter().filter(|p| !p.closed).count();
            case.check(reg.len() == live, "len", || format!("registry holds {} peers, {live} are connected after {op:?}", reg.len()));
        }
        // barrier on every live peer, then compare wires
        for p in peers.iter_mut().filter(|p| !p.closed) {
            next_call += 1;
            let cid = next_call;
            if let Some(s) = p.sink.as_mut() {
                let _ = send_frame(s, &Frame::new(cid, b"/echo", b"1").with_formats(1, 2)).await;
            }
            let ib = p.inbox.clone();
            if !wait_until(60_000, || !ib.responses_for(cid).is_empty() || ib.ended()).await || p.inbox.responses_for(cid).is_empty() {
                case.fail("connection-lost", format!("peer {} got no answer to its barrier call (ended={})", p.id, p.inbox.ended()));
                srv.abort();
                return;
            }
        }
        sleep_ms(2).await;
        for p in &peers {
            check_inbox_clean(&case, "registry peer", &p.inbox);
            let notifies: Vec<Frame> = p.inbox.frames().into_iter().filter(|f| f.notify != 0).collect();
            for f in &notifies {
                let t = f.query_str().strip_prefix("/b/").and_then(|t| t.parse::<u64>().ok());
                let Some(e) = t.and_then(|t| expects.get(&t)) else {
                    case.fail("stray-notification", format!("peer {} received a notification {:?} nobody sent", p.id, f.query_str()));
                    continue;
                };
                case.check(e.may.contains(&p.id), "stray-notification", || format!("peer {} received {:?} although the broadcast did not report success for it", p.id, f.query_str()));
                case.check(f.body == e.body, "notification-body", || format!("peer {} received {:?} with a {}-byte body, expected {} bytes (first difference at {:?})", p.id, f.query_str(), f.body.len(), e.body.len(), f.body.iter().zip(&e.body).position(|(a, b)| a != b)));
                case.check(f.body_format == e.fmt, "notification-format", || format!("peer {} received {:?} tagged body format {}, broadcast said {}", p.id, f.query_str(), f.body_format, e.fmt));
                case.check(f.query_format == 1 && f.id == 0 && f.ec == 0, "notification-header", || format!("peer {} received {:?} with query_format={} id={} ec={}", p.id, f.query_str(), f.query_format, f.id, f.ec));
            }
            for (t, e) in &expects {
                let n = notifies.iter().filter(|f| f.query_str() == format!("/b/{t}")).count();
                if p.closed {
                    case.check(n <= 1, "notification-duplicated", || format!("peer {} received /b/{t} {n} times", p.id));
                } else if e.must.contains(&p.id) {
                    case.check(n == 1, if n == 0 { "notification-lost" } else { "notification-duplicated" }, || format!("peer {} was reported Ok for /b/{t} and stayed connected; it received it {n} times", p.id));
                } else {
                    case.check(n == 0, "stray-notification", || format!("peer {} received /b/{t} {n} times without an Ok result", p.id));
                }
            }
        }
        // everybody leaves, one at a time (also keeps the teardown order the scenario's own)
        for p in peers.iter_mut().filter(|p| !p.closed) {
            p.closed = true;
            p.sink = None;
            p.collector.abort();
            let (hk, id) = (hooks.clone(), p.id);
            let gone = wait_until(30_000, || hk.of_peer(id).contains(&"disconnect".to_string())).await;
            case.check(gone, "disconnect-hook-missing", || format!("peer {id} closed its socket; no disconnect hook within 30 s"));
            if !gone {
                srv.abort();
                return;
            }
        }
        case.check(reg.len() == 0 && KEYS.iter().all(|k| reg.get_by(*k).is_none()), "leftovers", || format!("every peer left; the registry still holds {} peers, keys {:?}", reg.len(), KEYS.iter().filter(|k| reg.get_by(**k).is_some()).collect::<Vec<_>>()));
        case.nontrivial();
        srv.abort();
    });
}
