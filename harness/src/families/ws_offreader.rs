//! C16 on the real `WebSocketServer`: off-reader (`_blocking`) handlers run on simulated
//! threads and park at a harness gate; the harness saturates the per-connection cap,
//! releases handlers in seeded orders with return / error / panic exits, interleaves inline
//! traffic, and checks cap, saturation replies, slot release and isolation of panics.

use crate::codec::Frame;
use crate::families::aio::{self, jitter, sleep_ms};
use crate::families::client_blocking::draw_net;
use crate::families::ws_common::{Exit, Gate, Inbox, check_inbox_clean, raw_connect, send_frame, spawn_collector, wait_until};
use crate::framework::{Case, Family, pick, range};
use futures_util::StreamExt;
use repe::constants::ErrorCode;
use repe::server::{Middleware, Next, Router};
use repe::websocket_server::{ConnectionError, WebSocketServer};
use serde_json::{Value, json};
use simkernel::net;
use std::sync::Arc;
use std::sync::atomic::{AtomicU64, Ordering};

pub fn families() -> Vec<Family> {
    vec![
        Family::new(
            "c16_ws_offreader",
            "C16",
            "WebSocketServer off-reader cap: saturation with up to 4x cap gated requests/notifies, seeded release orders with return/error/panic exits, inline traffic during saturation, refill after each exit",
            c16_ws_offreader,
        )
        .runs(15_000, 900_000)
        .steps(2_000_000)
        .tokio(),
        Family::new(
            "c16_pool_exhausted",
            "C16",
            "the runtime's blocking pool (1 or 2 threads, simulated) is full of parked off-reader handlers and one more off-reader request is admitted below the cap, so its handler is queued and cannot start: the reader must go on answering inline requests, and once the parked handlers are released every request gets its one response",
            c16_pool_exhausted,
        )
        .runs(6_000, 360_000)
        .steps(2_000_000)
        .tokio(),
        Family::new(
            "c03_ws_backpressure",
            "C03",
            "WebSocketServer off-reader responses under back-pressure: gated _blocking handlers are released while the bounded outbound queue is full behind a client that is not reading; once the client reads, every request must have exactly one response",
            c03_ws_backpressure,
        )
        .runs(1_200, 72_000)
        .steps(2_000_000)
        .tokio(),
    ]
}

struct Passthrough(Arc<AtomicU64>);
impl Middleware for Passthrough {
    fn handle(&self, req: &repe::Message, next: Next<'_>) -> Result<repe::Message, repe::RepeError> {
        self.0.fetch_add(1, Ordering::SeqCst);
        next.run(req)
    }
}

pub fn gated_router(gate: Arc<Gate>, with_middleware: bool, mw_count: Arc<AtomicU64>) -> Router {
    let g2 = gate.clone();
    let mut r = Router::new()
        .with_json("/echo", |v: Value| Ok(json!({"echo": v})))
        .with_json_ctx_blocking("/gate", move |ctx, v: Value| {
            let tag = v["tag"].as_u64().unwrap_or(0);
            match gate.enter(tag, || ctx.is_cancelled()) {
                Exit::Return => Ok(json!({"tag": tag})),
                Exit::Error => Err((ErrorCode::ApplicationErrorBase, format!("gate-error-{tag}"))),
                Exit::Panic => std::panic::panic_any(simkernel::ExpectedPanic("gated handler panics on purpose")),
            }
        })
        .with_json_blocking("/gate2", move |v: Value| {
            let tag = v["tag"].as_u64().unwrap_or(0);
            match g2.enter(tag, || false) {
                Exit::Return => Ok(json!({"tag": tag})),
                Exit::Error => Err((ErrorCode::ApplicationErrorBase, format!("gate-error-{tag}"))),
                Exit::Panic => std::panic::panic_any(simkernel::ExpectedPanic("gated handler panics on purpose")),
            }
        });
    if with_middleware {
        r = r.with_middleware(Passthrough(mw_count));
    }
    r
}

#[derive(Clone, Debug)]
enum Msg {
    Gated { tag: u64, notify: bool, path: &'static str },
    Inline { tag: u64 },
}

fn gate_frame(id: u64, tag: u64, notify: bool, path: &str) -> Frame {
    let body = serde_json::to_vec(&json!({"tag": tag})).unwrap();
    Frame::new(id, path.as_bytes(), &body).with_formats(1, 2).notify(notify as u8)
}
fn echo_frame(id: u64, tag: u64) -> Frame {
    let body = serde_json::to_vec(&json!({"t": tag})).unwrap();
    Frame::new(id, b"/echo", &body).with_formats(1, 2)
}

fn c16_pool_exhausted(case: &Case) {
    net::reset(draw_net());
    let pool = pick(&[1usize, 2]);
    let cap = pick(&[0usize, 4, 8]);
    let n_inline = range(1, 4) as u64;
    let queued = range(1, 2) as u64;
    case.sample(json!({"blocking_pool_threads": pool, "offreader_cap": cap, "handlers_queued_behind_the_full_pool": queued, "inline_requests_meanwhile": n_inline}));
    let case = case.clone();
    aio::run(&case.clone(), 3_600, async move {
        simkernel::tokio_rt::set_blocking_pool_limit(pool);
        let gate = Gate::new();
        let router = gated_router(gate.clone(), false, Arc::new(AtomicU64::new(0)));
        let listener = WebSocketServer::listen("127.0.0.1:0").await.unwrap();
        let addr = listener.local_addr().unwrap();
        let server = WebSocketServer::new(router).with_offreader_limit(cap).on_error(|_| {});
        let srv = tokio::spawn(async move {
            let _ = server.serve_listener(listener, "/repe").await;
        });
        let ws = match raw_connect(addr, "/repe").await {
            Ok(ws) => ws,
            Err(e) => {
                case.harness_error(format!("handshake failed: {e}"));
                return;
            }
        };
        let (mut sink, stream) = ws.split();
        let inbox = Arc::new(Inbox::default());
        let collector = spawn_collector(stream, inbox.clone());
        let mut id = 0u64;
        // fill the pool with parked handlers
        for t in 1..=pool as u64 {
            id += 1;
            let _ = send_frame(&mut sink, &gate_frame(id, t, false, "/gate")).await;
            let g = gate.clone();
            if !wait_until(200, || g.has_arrived(t)).await {
                case.harness_error("a handler did not start although the pool had room");
                gate.open_all();
                return;
            }
        }
        // admitted below the cap, but no pool thread is free: these cannot start yet
        let first_queued = id + 1;
        for q in 0..queued {
            id += 1;
            let _ = send_frame(&mut sink, &gate_frame(id, 100 + q, false, "/gate")).await;
        }
        sleep_ms(20).await;
        case.check(!gate.has_arrived(100), "harness", || "a handler started although the simulated pool was full".into());
        case.probe("handler_queued_behind_a_full_blocking_pool");
        // the reader is not part of that queue: inline requests are answered meanwhile
        for k in 0..n_inline {
            id += 1;
            let want = id;
            let _ = send_frame(&mut sink, &echo_frame(want, 500 + k)).await;
            let ib = inbox.clone();
            if !wait_until(2_000, || !ib.responses_for(want).is_empty() || ib.ended()).await || inbox.responses_for(want).is_empty() {
                case.fail("inline-starved", format!("inline request {k} got no reply within 2 s while an admitted off-reader handler was waiting for a pool thread (connection ended={})", inbox.ended()));
                gate.open_all();
                return;
            }
        }
        for q in 0..queued {
            let rs = inbox.responses_for(first_queued + q);
            case.check(rs.is_empty(), "wrong-off-reader-response", || format!("a request whose handler could not have started yet was answered with ec={}", rs[0].ec));
        }
        // the parked handlers leave: the queued ones get their thread, everybody is answered once
        gate.open_all();
        let last = id;
        let ib = inbox.clone();
        let all = wait_until(5_000, || (1..=last).all(|i| !ib.responses_for(i).is_empty()) || ib.ended()).await;
        case.check(all && !inbox.ended(), "no-response-after-release", || format!("after the pool was freed not every request had a response (answered: {:?}, ended={})", (1..=last).filter(|i| !inbox.responses_for(*i).is_empty()).collect::<Vec<_>>(), inbox.ended()));
        sleep_ms(3).await;
        for i in 1..=last {
            let n = inbox.responses_for(i).len();
            case.check(n <= 1, "duplicate-response", || format!("request {i} got {n} responses"));
        }
        check_inbox_clean(&case, "WebSocketServer", &inbox);
        case.nontrivial();
        let _ = tokio::time::timeout(std::time::Duration::from_secs(2), futures_util::SinkExt::close(&mut sink)).await;
        let _ = tokio::time::timeout(std::time::Duration::from_secs(2), collector).await;
        srv.abort();
    });
}

/// A parked handler is released from inside an *inline* handler, which stays on the reader
/// until the released handler has completely finished; the next frame - already buffered - is
/// another off-reader request. Its slot was freed by the handler's exit: it must be admitted
/// even though the connection's task has not been descheduled once in between.
fn c16_release_inline(case: &Case) {
    net::set_config(simkernel::net::NetConfig { capacity: 1 << 20, lat_min: 0, lat_max: 0, max_segment: 0 });
    let cap = pick(&[1usize, 2]);
    let how = pick(&[Exit::Return, Exit::Return, Exit::Error, Exit::Panic]);
    case.sample(json!({"scenario": "slot freed by handler exit, next off-reader request already buffered", "cap": cap, "exit": format!("{how:?}")}));
    let case = case.clone();
    aio::run(&case.clone(), 3_600, async move {
        let gate = Gate::new();
        let g2 = gate.clone();
        let router = gated_router(gate.clone(), false, Arc::new(AtomicU64::new(0))).with_json("/release", move |v: Value| {
            let tag = v["tag"].as_u64().unwrap_or(0);
            let how = match v["how"].as_u64().unwrap_or(0) {
                1 => Exit::Error,
                2 => Exit::Panic,
                _ => Exit::Return,
            };
            // stay on the reader until that handler's thread has ended (its closure has returned
            // and dropped everything it owned)
            let alive_before = simkernel::tokio_rt::live_foreign_threads();
            g2.release(tag, how);
            for _ in 0..5_000 {
                if simkernel::tokio_rt::live_foreign_threads() < alive_before {
                    break;
                }
                simkernel::tokio_rt::yield_to_foreign();
            }
            Ok(json!({"released": tag, "exited": g2.has_exited(tag) && simkernel::tokio_rt::live_foreign_threads() < alive_before}))
        });
        let listener = WebSocketServer::listen("127.0.0.1:0").await.unwrap();
        let addr = listener.local_addr().unwrap();
        let server = WebSocketServer::new(router).with_offreader_limit(cap).on_error(|_| {});
        let srv = tokio::spawn(async move {
            let _ = server.serve_listener(listener, "/repe").await;
        });
        let ws = match raw_connect(addr, "/repe").await {
            Ok(ws) => ws,
            Err(e) => {
                case.harness_error(format!("handshake failed: {e}"));
                return;
            }
        };
        let (mut sink, stream) = ws.split();
        let inbox = Arc::new(Inbox::default());
        let collector = spawn_collector(stream, inbox.clone());
        // fill every slot
        for t in 1..=cap as u64 {
            let _ = send_frame(&mut sink, &gate_frame(t, t, false, "/gate")).await;
            let g = gate.clone();
            if !wait_until(200, || g.has_arrived(t)).await {
                case.harness_error("a handler did not start");
                gate.open_all();
                return;
            }
        }
        // release #1 inline, and right behind it (same burst) a new off-reader request
        let how_n = match how {
            Exit::Error => 1,
            Exit::Panic => 2,
            _ => 0,
        };
        let rel = Frame::new(50, b"/release", &serde_json::to_vec(&json!({"tag": 1, "how": how_n})).unwrap()).with_formats(1, 2);
        let newcomer = gate_frame(60, 60, false, "/gate");
        let _ = send_frame(&mut sink, &rel).await;
        let _ = send_frame(&mut sink, &newcomer).await;
        let ib = inbox.clone();
        wait_until(2_000, || !ib.responses_for(50).is_empty() || ib.ended()).await;
        let exited = inbox.responses_for(50).first().and_then(|r| serde_json::from_slice::<Value>(&r.body).ok()).map(|v| v["exited"] == json!(true)).unwrap_or(false);
        if !exited {
            // the released handler had not finished when /release returned: nothing to conclude
            gate.open_all();
            srv.abort();
            return;
        }
        case.probe("slot_freed_while_the_reader_stayed_busy");
        let g = gate.clone();
        let admitted = wait_until(500, || g.has_arrived(60)).await;
        let bounced = inbox.responses_for(60).first().map(|r| r.ec);
        case.check(admitted, "slot-leak", || format!("cap {cap}: handler #1 had exited ({how:?}) before the next off-reader request was read, yet that request was not admitted (answered ec={bounced:?})"));
        gate.open_all();
        let ib = inbox.clone();
        wait_until(2_000, || !ib.responses_for(60).is_empty() || ib.ended()).await;
        check_inbox_clean(&case, "WebSocketServer", &inbox);
        case.nontrivial();
        let _ = tokio::time::timeout(std::time::Duration::from_secs(2), futures_util::SinkExt::close(&mut sink)).await;
        let _ = tokio::time::timeout(std::time::Duration::from_secs(2), collector).await;
        srv.abort();
    });
}

fn c16_ws_offreader(case: &Case) {
    net::reset(draw_net());
    if simkernel::choose(8) == 0 {
        return c16_release_inline(case);
    }
    let cap = pick(&[1usize, 1, 2, 2, 3, 3, 4, 8, 16, 0]);
    let effective = if cap == 0 { usize::MAX } else { cap };
    // "unlimited" really is unlimited: sometimes far more handlers than any default cap
    let n_first = if cap == 0 { pick(&[range(1, 12), range(12, 24), range(30, 48)]) as usize } else { range(1, (4 * cap as u32).min(24)) as usize };
    let with_mw = simkernel::choose(3) == 0;
    // phase-1 messages
    let mut msgs: Vec<Msg> = Vec::new();
    let mut tag = 0u64;
    for _ in 0..n_first {
        tag += 1;
        match simkernel::choose(20) {
            0..=13 => msgs.push(Msg::Gated { tag, notify: false, path: if simkernel::choose(4) == 0 { "/gate2" } else { "/gate" } }),
            14..=16 => msgs.push(Msg::Gated { tag, notify: true, path: "/gate" }),
            _ => msgs.push(Msg::Inline { tag }),
        }
    }
    let refill_pct = pick(&[0u32, 50, 100]);
    let out_cap = pick(&[1usize, 2, 256, 256]);
    case.sample(json!({"cap": cap, "middleware": with_mw, "refill_pct": refill_pct, "outbound_capacity": out_cap,
        "first_wave": msgs.iter().map(|m| match m { Msg::Gated{tag, notify, path} => format!("{}{path}#{tag}", if *notify {"notify "} else {""}), Msg::Inline{tag} => format!("/echo#{tag}") }).collect::<Vec<_>>()}));
    let case = case.clone();
    aio::run(&case.clone(), 3_600, async move {
        let gate = Gate::new();
        let mw_count = Arc::new(AtomicU64::new(0));
        let router = gated_router(gate.clone(), with_mw, mw_count.clone());
        let saturations = Arc::new(AtomicU64::new(0));
        let panics = Arc::new(AtomicU64::new(0));
        let other_errors = Arc::new(std::sync::Mutex::new(Vec::<String>::new()));
        let (s2, p2, o2) = (saturations.clone(), panics.clone(), other_errors.clone());
        let listener = WebSocketServer::listen("127.0.0.1:0").await.unwrap();
        let addr = listener.local_addr().unwrap();
        let server = WebSocketServer::new(router).with_offreader_limit(cap).with_outbound_capacity(out_cap).on_error(move |e: &ConnectionError| match e {
            ConnectionError::Saturation { .. } => {
                s2.fetch_add(1, Ordering::SeqCst);
            }
            ConnectionError::HandlerPanic { .. } => {
                p2.fetch_add(1, Ordering::SeqCst);
            }
            other => o2.lock().unwrap().push(other.to_string()),
        });
        let srv = tokio::spawn(async move {
            let _ = server.serve_listener(listener, "/repe").await;
        });
        let ws = match raw_connect(addr, "/repe").await {
            Ok(ws) => ws,
            Err(e) => {
                case.harness_error(format!("handshake failed: {e}"));
                return;
            }
        };
        let (mut sink, stream) = ws.split();
        let inbox = Arc::new(Inbox::default());
        let collector = spawn_collector(stream, inbox.clone());

        // ---- phase 1: saturate
        let mut next_id = 0u64;
        let mut id_of: std::collections::BTreeMap<u64, u64> = Default::default(); // tag -> request id
        let mut running_model = 0usize;
        let mut admitted: Vec<(u64, bool)> = Vec::new(); // (tag, notify)
        let mut rejected: Vec<u64> = Vec::new(); // tags of rejected requests
        let mut dropped_notifies: Vec<u64> = Vec::new();
        let mut inline_tags: Vec<u64> = Vec::new();
        for m in &msgs {
            next_id += 1;
            if simkernel::choose(3) == 0 {
                jitter().await;
            }
            match m {
                Msg::Gated { tag, notify, path } => {
                    id_of.insert(*tag, next_id);
                    if send_frame(&mut sink, &gate_frame(next_id, *tag, *notify, path)).await.is_err() {
                        case.fail("connection-lost", "send failed during saturation");
                        return;
                    }
                    if running_model < effective {
                        running_model += 1;
                        admitted.push((*tag, *notify));
                    } else if *notify {
                        dropped_notifies.push(*tag);
                    } else {
                        rejected.push(*tag);
                    }
                }
                Msg::Inline { tag } => {
                    id_of.insert(*tag, next_id);
                    inline_tags.push(*tag);
                    if send_frame(&mut sink, &echo_frame(next_id, *tag)).await.is_err() {
                        case.fail("connection-lost", "send failed during saturation");
                        return;
                    }
                }
            }
        }
        // settle: everything that can happen without a release has happened. The reader
        // handles frames in order, so the reply to a trailing inline barrier request proves
        // that every earlier message has been looked at (admitted, rejected or dropped).
        next_id += 1;
        tag += 1;
        let (barrier_tag, barrier_id) = (tag, next_id);
        id_of.insert(barrier_tag, barrier_id);
        inline_tags.push(barrier_tag);
        let _ = send_frame(&mut sink, &echo_frame(barrier_id, barrier_tag)).await;
        let want_arrivals = admitted.len();
        let want_replies = rejected.len() + inline_tags.len();
        let settled = wait_until(300, || gate.arrived().len() >= want_arrivals && inbox.frames().len() >= want_replies && !inbox.responses_for(barrier_id).is_empty()).await;
        sleep_ms(3).await;
        if !settled {
            let arrived = gate.arrived();
            let missing_replies: Vec<u64> = rejected.iter().chain(inline_tags.iter()).copied().filter(|t| inbox.responses_for(id_of[t]).is_empty()).collect();
            if arrived.len() < want_arrivals {
                case.fail("admission-below-cap", format!("cap {cap}: {} handlers should be running, only {:?} arrived", want_arrivals, arrived));
            } else {
                case.fail("reader-blocked", format!("cap {cap}, {} handlers parked: requests {missing_replies:?} (saturation rejects / inline) got no reply while handlers were parked", arrived.len()));
            }
            gate.open_all();
            return;
        }
        {
            let mut arrived = gate.arrived();
            arrived.sort();
            let mut want: Vec<u64> = admitted.iter().map(|a| a.0).collect();
            want.sort();
            if !case.check(arrived == want, "wrong-admission", || format!("cap {cap}: handlers running {arrived:?}, expected the first {} gated messages {want:?}", want.len())) {
                gate.open_all();
                return;
            }
            case.check(gate.max_running() as usize <= effective, "cap-exceeded", || format!("{} handlers ran simultaneously, cap {cap}", gate.max_running()));
            for t in &rejected {
                let rs = inbox.responses_for(id_of[t]);
                if !case.check(rs.len() == 1 && rs[0].ec == ErrorCode::ResourceExhausted as u32 && rs[0].query.starts_with(b"/gate"), "saturation-reply", || {
                    format!("request #{t} arrived at the cap ({cap}) and got {:?} before any handler was released", rs.iter().map(|f| (f.ec, String::from_utf8_lossy(&f.body).to_string())).collect::<Vec<_>>())
                }) {
                    gate.open_all();
                    return;
                }
            }
            for t in &inline_tags {
                let rs = inbox.responses_for(id_of[t]);
                if !case.check(rs.len() == 1 && rs[0].ec == 0 && rs[0].body == serde_json::to_vec(&json!({"echo": {"t": t}})).unwrap(), "inline-starved", || {
                    format!("inline request #{t} sent while {} handlers were parked got {:?}", admitted.len(), rs.iter().map(|f| (f.ec, String::from_utf8_lossy(&f.body).to_string())).collect::<Vec<_>>())
                }) {
                    gate.open_all();
                    return;
                }
            }
            for (t, _) in &admitted {
                case.check(inbox.responses_for(id_of[t]).is_empty(), "response-before-handler-returned", || format!("request #{t} was answered while its handler is still parked"));
            }
            if !rejected.is_empty() || !dropped_notifies.is_empty() {
                case.probe("saturation_reached");
            }
        }

        // ---- the cap is per connection: a second connection gets its own slots while the
        // first one is saturated
        let mut second: Option<(crate::families::ws_common::RawSink, Arc<Inbox>, tokio::task::JoinHandle<()>, Vec<u64>)> = None;
        if cap != 0 && admitted.len() >= cap && simkernel::choose(3) == 0 {
            if let Ok(ws2) = raw_connect(addr, "/repe").await {
                let (mut sink2, stream2) = ws2.split();
                let inbox2 = Arc::new(Inbox::default());
                let coll2 = spawn_collector(stream2, inbox2.clone());
                let n2 = cap.min(2) as u64;
                let mut tags2 = Vec::new();
                for k in 0..n2 {
                    tag += 1;
                    tags2.push(tag);
                    let _ = send_frame(&mut sink2, &gate_frame(500 + k, tag, false, "/gate")).await;
                }
                let (g2, t2) = (gate.clone(), tags2.clone());
                if !wait_until(200, || t2.iter().all(|t| g2.has_arrived(*t))).await {
                    case.fail("cap-shared-across-connections", format!("cap {cap}: connection 1 holds {} handlers; connection 2 sent {n2} off-reader requests and only {:?} of {tags2:?} were admitted (replies: {:?})", admitted.len(), gate.arrived(), inbox2.frames().iter().map(|f| (f.id, f.ec)).collect::<Vec<_>>()));
                    gate.open_all();
                    return;
                }
                case.probe("second_connection_has_its_own_cap");
                second = Some((sink2, inbox2, coll2, tags2));
            }
        }

        // ---- phase 2: release in a seeded order, refill freed slots
        let mut parked: Vec<(u64, bool)> = admitted.clone();
        let mut exits: std::collections::BTreeMap<u64, Exit> = Default::default();
        let mut n_panics = 0u64;
        let mut refills = 0;
        while !parked.is_empty() {
            // one handler exits, or (a third of the time) several exit in the same instant:
            // their answers meet in the outbound queue
            let burst = if parked.len() >= 2 && simkernel::choose(3) == 0 { range(2, (parked.len() as u32).min(6)) as usize } else { 1 };
            let mut batch: Vec<(u64, bool, Exit)> = Vec::new();
            for _ in 0..burst {
                let i = simkernel::choose(parked.len() as u32) as usize;
                let (t, notify) = parked.remove(i);
                let how = match simkernel::choose(6) {
                    0 => Exit::Panic,
                    1 => Exit::Error,
                    _ => Exit::Return,
                };
                if how == Exit::Panic {
                    n_panics += 1;
                }
                exits.insert(t, how);
                batch.push((t, notify, how));
            }
            if burst > 1 {
                case.probe("handlers_released_in_one_instant");
            }
            for (t, _, how) in &batch {
                gate.release(*t, *how);
            }
            let (mut t, mut how) = (batch[0].0, batch[0].2);
            for (bt, notify, bhow) in batch.clone() {
                (t, how) = (bt, bhow);
                let id = id_of[&t];
                let done = if notify { wait_until(200, || gate.has_exited(t)).await } else { wait_until(200, || !inbox.responses_for(id).is_empty()).await };
                if !done {
                    case.fail("no-response-after-release", format!("handler #{t} released ({how:?}, {burst} released together) but {} after 200 ms", if notify { "it never exited" } else { "no response arrived" }));
                    gate.open_all();
                    return;
                }
                sleep_ms(2).await;
                if !notify {
                    let rs = inbox.responses_for(id);
                    let ok = rs.len() == 1
                        && match how {
                            Exit::Return => rs[0].ec == 0 && rs[0].body == serde_json::to_vec(&json!({"tag": t})).unwrap(),
                            Exit::Error => rs[0].ec == ErrorCode::ApplicationErrorBase as u32 && rs[0].body == format!("gate-error-{t}").as_bytes(),
                            Exit::Panic => rs[0].ec == ErrorCode::InternalError as u32,
                        };
                    if !case.check(ok, "wrong-off-reader-response", || format!("handler #{t} exited by {how:?}; responses {:?}", rs.iter().map(|f| (f.id, f.ec, String::from_utf8_lossy(&f.body).to_string())).collect::<Vec<_>>())) {
                        gate.open_all();
                        return;
                    }
                }
            }
            // one slot is free now: one more gated request must be admitted
            if cap != 0 && simkernel::choose(100) < refill_pct && refills < 8 {
                refills += 1;
                tag += 1;
                next_id += 1;
                id_of.insert(tag, next_id);
                let _ = send_frame(&mut sink, &gate_frame(next_id, tag, false, "/gate")).await;
                let t2 = tag;
                if !wait_until(100, || gate.has_arrived(t2)).await {
                    let rs = inbox.responses_for(next_id);
                    case.fail("slot-leak", format!("cap {cap}: after handler #{t} exited by {how:?} ({} still parked) a new request was not admitted; it got {:?}", parked.len(), rs.iter().map(|f| f.ec).collect::<Vec<_>>()));
                    gate.open_all();
                    return;
                }
                case.probe("slot_refilled_after_exit");
                parked.push((t2, false));
                admitted.push((t2, false));
                // and while we are full again, an inline request is still answered
                if simkernel::choose(2) == 0 {
                    tag += 1;
                    next_id += 1;
                    let (t3, id3) = (tag, next_id);
                    id_of.insert(t3, id3);
                    inline_tags.push(t3);
                    let _ = send_frame(&mut sink, &echo_frame(id3, t3)).await;
                    if !wait_until(100, || !inbox.responses_for(id3).is_empty()).await {
                        case.fail("inline-starved", format!("inline request #{t3} got no reply while {} handlers were parked", parked.len()));
                        gate.open_all();
                        return;
                    }
                }
            }
            // (the gauge spans both connections once the second one holds handlers too)
            let conns = if second.is_some() { 2 } else { 1 };
            case.check(gate.max_running() as usize <= effective.saturating_mul(conns), "cap-exceeded", || format!("{} handlers ran simultaneously on {conns} connection(s), cap {cap} per connection", gate.max_running()));
        }

        if let Some((mut sink2, inbox2, coll2, tags2)) = second.take() {
            for (k, t) in tags2.iter().enumerate() {
                gate.release(*t, Exit::Return);
                let id2 = 500 + k as u64;
                let ib = inbox2.clone();
                if !wait_until(200, || !ib.responses_for(id2).is_empty()).await {
                    case.fail("no-response-after-release", format!("second connection: handler #{t} released but no response arrived"));
                }
            }
            let _ = tokio::time::timeout(std::time::Duration::from_secs(2), futures_util::SinkExt::close(&mut sink2)).await;
            let _ = tokio::time::timeout(std::time::Duration::from_secs(2), coll2).await;
        }
        // ---- phase 3: the connection is still fine
        sleep_ms(3).await;
        next_id += 1;
        tag += 1;
        let _ = send_frame(&mut sink, &echo_frame(next_id, tag)).await;
        let fin = next_id;
        if !wait_until(200, || !inbox.responses_for(fin).is_empty()).await {
            case.fail("connection-lost", format!("final inline request got no reply; inbox ended={} ", inbox.ended()));
        }
        case.check(!inbox.ended(), "connection-lost", || "the server ended the connection".into());
        check_inbox_clean(&case, "WebSocketServer", &inbox);
        // every request exactly one response; notifies none; handlers entered exactly once
        for (t, id) in &id_of {
            let is_notify = msgs.iter().any(|m| matches!(m, Msg::Gated { tag, notify: true, .. } if tag == t));
            let n = inbox.responses_for(*id).len();
            if is_notify {
                case.check(n == 0, "response-to-notify", || format!("notify #{t} got {n} responses"));
            } else {
                case.check(n == 1, "response-count", || format!("request #{t} got {n} responses"));
            }
        }
        {
            let g = gate.st.lock().unwrap();
            case.check(g.entered_twice.is_empty(), "handler-invoked-twice", || format!("handlers entered twice: {:?}", g.entered_twice));
            // the connection is alive: no handler may have seen its cancellation signal fire,
            // whatever its siblings did (returned, failed, panicked)
            for (t, seen) in &g.cancelled_seen {
                if exits.contains_key(t) {
                    case.check(!*seen, "sibling-cancelled", || format!("handler #{t} saw is_cancelled() == true on a live connection (exits so far: {exits:?})"));
                }
            }
            for t in &dropped_notifies {
                case.check(!g.arrived.contains(t), "notify-at-cap-ran", || format!("notify #{t} arrived at the cap but its handler ran"));
            }
            for t in &rejected {
                case.check(!g.arrived.contains(t), "rejected-request-ran", || format!("request #{t} was rejected at the cap but its handler ran"));
            }
        }
        case.check(panics.load(Ordering::SeqCst) == n_panics, "panic-report-count", || format!("{} HandlerPanic reports for {n_panics} panicking handlers", panics.load(Ordering::SeqCst)));
        case.check(saturations.load(Ordering::SeqCst) == (rejected.len() + dropped_notifies.len()) as u64, "saturation-report-count", || {
            format!("{} Saturation reports for {} rejected + {} dropped", saturations.load(Ordering::SeqCst), rejected.len(), dropped_notifies.len())
        });
        if n_panics > 0 {
            case.probe("handler_panicked");
        }
        if with_mw {
            case.check(mw_count.load(Ordering::SeqCst) > 0 || admitted.is_empty() && inline_tags.is_empty(), "middleware-skipped", || "middleware never ran".into());
        }
        case.nontrivial();
        case.progress(admitted.len() as u64, admitted.len() as u64);
        gate.open_all();
        let _ = futures_util::SinkExt::close(&mut sink).await;
        let _ = tokio::time::timeout(std::time::Duration::from_secs(2), collector).await;
        srv.abort();
        let _ = srv.await;
    });
}


/// The parked `blocking_send` path: handlers finish while the outbound queue has no free slot.
fn c03_ws_backpressure(case: &Case) {
    use simkernel::net::Side;
    net::reset(simkernel::net::NetConfig { capacity: pick(&[256usize, 1024]), lat_min: 0, lat_max: pick(&[0u64, 100_000]), max_segment: 0 });
    let out_cap = pick(&[1usize, 1, 2, 4]);
    let n_gated = range(1, 6) as u64;
    let n_inline = range(out_cap as u32 + 2, out_cap as u32 + 12) as u64;
    let pad = pick(&[200usize, 1500, 6000]);
    let stall_ms = pick(&[5u64, 50, 400]);
    case.sample(json!({"outbound_capacity": out_cap, "gated_requests": n_gated, "inline_requests": n_inline, "inline_response_pad": pad, "client_reads_after_ms": stall_ms}));
    let case = case.clone();
    aio::run(&case.clone(), 3_600, async move {
        let gate = Gate::new();
        let router = gated_router(gate.clone(), false, Arc::new(AtomicU64::new(0))).with_json("/pad", move |v: Value| Ok(json!({"t": v["t"], "pad": "p".repeat(pad)})));
        let listener = WebSocketServer::listen("127.0.0.1:0").await.unwrap();
        let addr = listener.local_addr().unwrap();
        let server = WebSocketServer::new(router).with_offreader_limit(0).with_outbound_capacity(out_cap);
        let srv = tokio::spawn(async move {
            let _ = server.serve_listener(listener, "/repe").await;
        });
        let Ok(ws) = raw_connect(addr, "/repe").await else {
            case.harness_error("handshake failed");
            return;
        };
        net::set_capacity(&ws.get_ref().conn(), Side::B, 256);
        let (mut sink, stream) = ws.split();
        let inbox = Arc::new(Inbox::default());
        // gated requests first (their handlers park), then inline traffic that fills the
        // socket and the outbound queue because nobody reads on this side
        let total = n_gated + n_inline;
        let sender = tokio::spawn(async move {
            for t in 1..=n_gated {
                let _ = send_frame(&mut sink, &gate_frame(t, t, false, if t % 2 == 0 { "/gate2" } else { "/gate" })).await;
            }
            for t in n_gated + 1..=n_gated + n_inline {
                let body = serde_json::to_vec(&json!({"t": t})).unwrap();
                let _ = send_frame(&mut sink, &Frame::new(t, b"/pad", &body).with_formats(1, 2)).await;
            }
            sink
        });
        let g = gate.clone();
        if !wait_until(500, || g.arrived().len() as u64 >= n_gated).await {
            case.harness_error("gated handlers did not start");
            gate.open_all();
            return;
        }
        sleep_ms(stall_ms).await;
        // release every parked handler now: the queue is (very likely) full
        for t in 1..=n_gated {
            gate.release(t, Exit::Return);
        }
        case.probe("handlers_released_under_backpressure");
        sleep_ms(stall_ms).await;
        let collector = spawn_collector(stream, inbox.clone());
        let ib = inbox.clone();
        wait_until(20_000, || (1..=total).all(|i| !ib.responses_for(i).is_empty()) || ib.ended()).await;
        sleep_ms(20).await;
        for i in 1..=total {
            let n = inbox.responses_for(i).len();
            if !case.check(n == 1, "response-count", || format!("request {i} ({}) got {n} responses after the client resumed reading (outbound capacity {out_cap}); connection ended={}", if i <= n_gated { "off-reader" } else { "inline" }, inbox.ended())) {
                break;
            }
        }
        for t in 1..=n_gated {
            if let Some(r) = inbox.responses_for(t).first() {
                case.check(r.ec == 0 && r.body == serde_json::to_vec(&json!({"tag": t})).unwrap(), "wrong-body", || format!("off-reader request {t} answered ec {} body {:?}", r.ec, String::from_utf8_lossy(&r.body)));
            }
        }
        check_inbox_clean(&case, "WebSocketServer", &inbox);
        case.nontrivial();
        gate.open_all();
        if let Ok(Ok(mut sink)) = tokio::time::timeout(std::time::Duration::from_secs(10), sender).await {
            let _ = tokio::time::timeout(std::time::Duration::from_secs(2), futures_util::SinkExt::close(&mut sink)).await;
        }
        let _ = tokio::time::timeout(std::time::Duration::from_secs(2), collector).await;
        srv.abort();
        let _ = srv.await;
    });
}
