//! C02: hostile bytes against every parser / stream reader (through a faulting reader seam)
//! and against live endpoints on the simulated network. Oracle: the independent codec's
//! verdict in 128-bit arithmetic; no panic; no abort (the worker journals each case, a
//! killed worker is attributed to the case it was running).

use crate::codec::{Frame, HDR, Verdict, judge, read_frame, write_all_retry};
use crate::families::c03_common::{Counters, build_router};
use crate::families::client_blocking::draw_net;
use crate::framework::{Case, Family, OnDeadlock, bytes, pick, range, u64_boundary};
use repe::{Header, Message, MessageView, RepeError, Server};
use serde_json::json;
use simkernel::net::{self, TcpListener, TcpStream};
use simkernel::sync::Arc;
use simkernel::thread;
use simkernel::time::Duration;
use std::io::{self, ErrorKind, Read};
use std::pin::Pin;
use std::task::{Context, Poll};

pub fn families() -> Vec<Family> {
    vec![
        Family::new(
            "c02_parsers",
            "C02",
            "hostile byte strings (random, mutated frames, 64-bit length boundary classes) into Header::decode, from_slice(_exact), read_message(_into)(_async) through chunking/EINTR/truncating readers",
            c02_parsers,
        )
        .runs(250_000, 15_000_000)
        .deadlock(OnDeadlock::HarnessError)
        .aborts(),
        Family::new(
            "c02_live_server",
            "C02",
            "hostile peer sends malformed bytes to the real blocking Server; a second healthy connection must still be served",
            c02_live_server,
        )
        .runs(15_000, 900_000)
        .aborts(),
        Family::new(
            "c02_live_client",
            "C02",
            "hostile server answers the real blocking Client with malformed bytes while calls are in flight; calls fail, process survives",
            c02_live_client,
        )
        .runs(20_000, 1_200_000)
        .aborts(),
    ]
}

const MIB16: u128 = 16 * 1024 * 1024;

/// A hostile input: bytes plus how it was made (for the sample).
pub fn gen_input() -> (Vec<u8>, String) {
    match simkernel::choose(10) {
        0 => {
            let n = pick(&[0usize, 1, 10, 47, 48, 49, 100, 1000, 4096]);
            (bytes(n), format!("random {n} bytes"))
        }
        1..=3 => {
            // valid frame, possibly with one structured mutation
            let q = bytes(pick(&[0usize, 0, 1, 5, 64, 300]));
            let b = bytes(pick(&[0usize, 0, 1, 7, 100, 2000]));
            let mut f = Frame::new(u64_boundary(), &q, &b);
            f.version = pick(&[1u8, 1, 0, 255]);
            f.notify = pick(&[0u8, 1, 2, 255]);
            f.reserved = pick(&[0u32, 1, u32::MAX]);
            f.query_format = pick(&[0u16, 1, 2, 0xffff]);
            f.body_format = pick(&[0u16, 1, 2, 3, 4, 0xffff]);
            f.ec = pick(&[0u32, 1, 4096, u32::MAX]);
            let mut what = "valid frame".to_string();
            let mut out = f.encode();
            match simkernel::choose(8) {
                0 => {
                    let i = simkernel::choose(out.len() as u32) as usize;
                    out[i] ^= 1 << simkernel::choose(8);
                    what = format!("valid frame, bit flipped in byte {i}");
                }
                1 => {
                    let cut = simkernel::choose(out.len() as u32 + 1) as usize;
                    out.truncate(cut);
                    what = format!("valid frame truncated to {cut}");
                }
                2 => {
                    out.extend(bytes(range(1, 60) as usize));
                    what = "valid frame + trailing bytes".into();
                }
                3 => {
                    let second = Frame::new(7, b"/b", b"second").encode();
                    out.extend(second);
                    what = "two frames spliced".into();
                }
                4 => {
                    out[8] ^= 0xff;
                    what = "bad magic".into();
                }
                _ => {}
            }
            (out, what)
        }
        _ => {
            // length-field boundary classes
            let buf_payload = pick(&[0usize, 1, 16, 100]);
            let lens = |base: u64| -> u64 {
                match simkernel::choose(10) {
                    0 => 0,
                    1 => simkernel::choose(8) as u64,
                    2 => base,
                    3 => base.wrapping_add(1),
                    4 => base.wrapping_sub(1),
                    _ => u64_boundary(),
                }
            };
            let q = lens(buf_payload as u64 / 2);
            let b = lens(buf_payload as u64 - buf_payload as u64 / 2);
            let exact = HDR as u128 + q as u128 + b as u128;
            let length = match simkernel::choose(8) {
                0 | 1 => exact as u64,                                  // true sum, truncated to 64 bits (= wrapped sum)
                2 => (HDR as u64).saturating_add(q).saturating_add(b),  // saturated sum
                3 => u64::MAX,
                4 => (HDR + buf_payload) as u64,
                _ => u64_boundary(),
            };
            let mut f = Frame::new(1, b"", b"");
            f.query_length = q;
            f.body_length = b;
            f.length = length;
            let mut out = f.header_bytes();
            out.extend(bytes(buf_payload));
            (out, format!("lengths q={q} b={b} length={length} with {buf_payload} payload bytes"))
        }
    }
}

/// `Read` seam: serves `data` in seeded chunks, with injected `Interrupted`, then EOF.
pub struct FaultReader {
    data: Vec<u8>,
    pos: usize,
    max_chunk: usize,
    eintr_pct: u32,
}
impl FaultReader {
    pub fn new(data: Vec<u8>) -> Self {
        FaultReader { data, pos: 0, max_chunk: pick(&[1usize, 1, 3, 48, 1 << 20]), eintr_pct: pick(&[0u32, 0, 10, 40]) }
    }
}
impl Read for FaultReader {
    fn read(&mut self, buf: &mut [u8]) -> io::Result<usize> {
        if self.eintr_pct > 0 && simkernel::choose(100) < self.eintr_pct {
            simkernel::count("fault.eintr");
            return Err(io::Error::new(ErrorKind::Interrupted, "injected"));
        }
        let n = buf.len().min(self.data.len() - self.pos).min(self.max_chunk);
        buf[..n].copy_from_slice(&self.data[self.pos..self.pos + n]);
        self.pos += n;
        Ok(n)
    }
}
impl tokio::io::AsyncRead for FaultReader {
    fn poll_read(mut self: Pin<&mut Self>, cx: &mut Context<'_>, buf: &mut tokio::io::ReadBuf<'_>) -> Poll<io::Result<()>> {
        if simkernel::choose(4) == 0 {
            simkernel::count("buggify.spurious_pending");
            cx.waker().wake_by_ref();
            return Poll::Pending;
        }
        let n = buf.remaining().min(self.data.len() - self.pos).min(self.max_chunk);
        let pos = self.pos;
        buf.put_slice(&self.data[pos..pos + n]);
        self.pos += n;
        Poll::Ready(Ok(()))
    }
}

fn guarded<T>(case: &Case, what: &str, input_desc: &str, f: impl FnOnce() -> T) -> Option<T> {
    match std::panic::catch_unwind(std::panic::AssertUnwindSafe(f)) {
        Ok(v) => Some(v),
        Err(p) => {
            let msg = simkernel::kernel::describe_panic(&*p).unwrap_or_default();
            case.fail("panic", format!("{what} panicked on [{input_desc}]: {msg}"));
            None
        }
    }
}

fn c02_parsers(case: &Case) {
    let (input, desc) = gen_input();
    case.sample(json!({"input": desc, "len": input.len(), "head": input.iter().take(48).map(|b| format!("{b:02x}")).collect::<String>()}));
    let verdict = judge(&input);
    let hdr_ok = input.len() >= HDR && Frame::parse_header(&input).header_consistent();
    if matches!(verdict, Verdict::Frame { .. }) {
        case.probe("consistent_frame_input");
    } else {
        case.probe("inconsistent_input");
    }
    case.nontrivial();

    // ---- Header::decode
    let Some(r) = guarded(case, "Header::decode", &desc, || Header::decode(&input)) else { return };
    if !case.check(r.is_ok() == hdr_ok, "wrong-acceptance", || format!("Header::decode({desc}) = {:?}, independent verdict consistent={hdr_ok}", r.as_ref().map(|h| h.length))) {
        return;
    }
    // ---- Message::from_slice / exact, MessageView::from_slice / exact
    let want_used = match verdict {
        Verdict::Frame { used } => Some(used),
        Verdict::Reject => None,
    };
    let check_parse = |name: &str, got: Result<(Vec<u8>, Vec<u8>), RepeError>, exact: bool| -> bool {
        let accept = match want_used {
            Some(u) => !exact || u == input.len(),
            None => false,
        };
        if !case.check(got.is_ok() == accept, "wrong-acceptance", || format!("{name}({desc}) ok={} but independent verdict accept={accept}", got.is_ok())) {
            return false;
        }
        if let (Ok((q, b)), Some(_)) = (&got, want_used) {
            let h = Frame::parse_header(&input);
            let (ql, bl) = (h.query_length as usize, h.body_length as usize);
            if !case.check(q[..] == input[HDR..HDR + ql] && b[..] == input[HDR + ql..HDR + ql + bl], "wrong-payload", || format!("{name}({desc}) returned payload bytes that are not the input's")) {
                return false;
            }
        }
        true
    };
    let Some(r) = guarded(case, "Message::from_slice", &desc, || Message::from_slice(&input).map(|m| (m.query, m.body))) else { return };
    if !check_parse("Message::from_slice", r, false) {
        return;
    }
    let Some(r) = guarded(case, "Message::from_slice_exact", &desc, || Message::from_slice_exact(&input).map(|m| (m.query, m.body))) else { return };
    if !check_parse("Message::from_slice_exact", r, true) {
        return;
    }
    let Some(r) = guarded(case, "MessageView::from_slice", &desc, || MessageView::from_slice(&input).map(|m| (m.query.to_vec(), m.body.to_vec()))) else { return };
    if !check_parse("MessageView::from_slice", r, false) {
        return;
    }
    let Some(r) = guarded(case, "MessageView::from_slice_exact", &desc, || MessageView::from_slice_exact(&input).map(|m| (m.query.to_vec(), m.body.to_vec()))) else { return };
    if !check_parse("MessageView::from_slice_exact", r, true) {
        return;
    }

    // ---- stream readers. Declared frame size must be <= 16 MiB or >= 2^62 so that the
    // outcome never depends on how much memory this machine has.
    if hdr_ok {
        let h = Frame::parse_header(&input);
        let total = h.length as u128;
        let mid = |v: u128| v > MIB16 && v < (1u128 << 62);
        // ... and the same for each payload on its own: a 2 GiB query inside a 2^62-byte frame
        // would be allocated (and zeroed) before the impossible body is reached
        if mid(total) || mid(h.query_length as u128) || mid(h.body_length as u128) {
            case.probe("skipped_midrange_declared_size");
            return;
        }
        if total >= (1u128 << 62) {
            case.probe("never_allocatable_declared_size");
        }
    }
    // a stream succeeds iff the header is consistent and the stream holds the whole frame
    let stream_ok = want_used.is_some();
    let truncate_at = if stream_ok && simkernel::choose(3) == 0 { Some(simkernel::choose(want_used.unwrap() as u32) as usize) } else { None };
    let data = match truncate_at {
        Some(t) => {
            case.probe("fault.stream_truncated");
            input[..t].to_vec()
        }
        None => input.clone(),
    };
    let expect_ok = stream_ok && truncate_at.is_none();
    let payload_of = |data: &[u8]| -> (Vec<u8>, Vec<u8>) {
        let h = Frame::parse_header(data);
        let (ql, bl) = (h.query_length as usize, h.body_length as usize);
        (data[HDR..HDR + ql].to_vec(), data[HDR + ql..HDR + ql + bl].to_vec())
    };
    // read_message
    let d = data.clone();
    let Some(r) = guarded(case, "read_message", &desc, move || {
        let mut rd = FaultReader::new(d);
        let r = repe::read_message(&mut rd);
        (r.map(|m| (m.query, m.body)), rd.pos)
    }) else { return };
    if !case.check(r.0.is_ok() == expect_ok, "wrong-acceptance", || format!("read_message({desc}, truncated at {truncate_at:?}) ok={} expected ok={expect_ok}: {:?}", r.0.is_ok(), r.0.as_ref().err().map(|e| e.to_string()))) {
        return;
    }
    if let Ok((q, b)) = &r.0 {
        let (wq, wb) = payload_of(&data);
        if !case.check(*q == wq && *b == wb, "wrong-payload", || format!("read_message({desc}) returned payload bytes that are not the stream's")) {
            return;
        }
        if !case.check(r.1 == want_used.unwrap(), "stream-desync", || format!("read_message({desc}) consumed {} bytes of a {}-byte frame", r.1, want_used.unwrap())) {
            return;
        }
    }
    // read_message_into
    let d = data.clone();
    let Some(r) = guarded(case, "read_message_into", &desc, move || {
        let mut rd = FaultReader::new(d);
        let mut buf = vec![0xAAu8; simkernel::choose(100) as usize];
        let r = repe::read_message_into(&mut rd, &mut buf);
        (r.map(|_| buf), rd.pos)
    }) else { return };
    if !case.check(r.0.is_ok() == expect_ok, "wrong-acceptance", || format!("read_message_into({desc}, truncated at {truncate_at:?}) ok={} expected ok={expect_ok}", r.0.is_ok())) {
        return;
    }
    if let Ok(buf) = &r.0
        && !case.check(buf[..] == data[..want_used.unwrap()], "wrong-payload", || format!("read_message_into({desc}) buffer differs from the stream's frame"))
    {
        return;
    }
    // async twins on a throw-away current-thread runtime (no I/O, no timers)
    let d = data.clone();
    let Some(r) = guarded(case, "read_message_async", &desc, move || {
        let rt = tokio::runtime::Builder::new_current_thread().build().unwrap();
        rt.block_on(async move {
            let mut rd = FaultReader::new(d);
            rd.eintr_pct = 0;
            let r = repe::async_io::read_message_async(&mut rd).await;
            r.map(|m| (m.query, m.body))
        })
    }) else { return };
    if !case.check(r.is_ok() == expect_ok, "wrong-acceptance", || format!("read_message_async({desc}) ok={} expected ok={expect_ok}", r.is_ok())) {
        return;
    }
    if let Ok((q, b)) = &r {
        let (wq, wb) = payload_of(&data);
        if !case.check(*q == wq && *b == wb, "wrong-payload", || format!("read_message_async({desc}) returned payload bytes that are not the stream's")) {
            return;
        }
    }
    let d = data.clone();
    let Some(r) = guarded(case, "read_message_into_async", &desc, move || {
        let rt = tokio::runtime::Builder::new_current_thread().build().unwrap();
        rt.block_on(async move {
            let mut rd = FaultReader::new(d);
            rd.eintr_pct = 0;
            let mut buf = Vec::new();
            repe::async_io::read_message_into_async(&mut rd, &mut buf).await.map(|_| buf)
        })
    }) else { return };
    if !case.check(r.is_ok() == expect_ok, "wrong-acceptance", || format!("read_message_into_async({desc}) ok={} expected ok={expect_ok}", r.is_ok())) {
        return;
    }
    if let Ok(buf) = &r {
        case.check(buf[..] == data[..want_used.unwrap()], "wrong-payload", || format!("read_message_into_async({desc}) buffer differs from the stream's frame"));
    }
}

/// Bytes for a live endpoint: never a declared size in (16 MiB, 2^62).
pub fn gen_live_input() -> (Vec<u8>, String) {
    loop {
        let (b, d) = gen_input();
        if b.len() >= HDR {
            let h = Frame::parse_header(&b);
            let mid = |v: u128| v > MIB16 && v < (1u128 << 62);
            if h.header_consistent() && (mid(h.length as u128) || mid(h.query_length as u128) || mid(h.body_length as u128)) {
                continue;
            }
        }
        return (b, d);
    }
}

fn c02_live_server(case: &Case) {
    net::reset(draw_net());
    let counters = Arc::new(Counters::default());
    let router = build_router(&counters, 0, true);
    let listener = TcpListener::bind("127.0.0.1:0").unwrap();
    let addr = listener.local_addr().unwrap();
    let server = thread::spawn(move || {
        let _ = Server::new(router).read_timeout(Some(Duration::from_millis(500))).serve(listener);
    });
    let (input, desc) = gen_live_input();
    case.sample(json!({"hostile_bytes": desc, "len": input.len()}));
    // hostile connection
    if let Ok(mut s) = TcpStream::connect(addr) {
        // optionally a valid request first, so the hostile bytes land mid-stream
        if simkernel::choose(2) == 0 {
            let _ = write_all_retry(&mut s, &Frame::new(1, b"/json/echo", b"{\"a\":1}").with_formats(1, 2).encode());
        }
        // write from a helper thread and drain here, so neither side is back-pressured into a
        // plain TCP deadlock (that would be the harness's doing, not the server's)
        let mut w = s.try_clone().unwrap();
        let inp = input.clone();
        let wr = thread::spawn(move || {
            let _ = write_all_retry(&mut w, &inp);
        });
        s.set_read_timeout(Some(Duration::from_millis(200))).ok();
        // drain whatever comes back; it must be whole frames
        let mut got = Vec::new();
        let mut buf = [0u8; 4096];
        loop {
            match s.read(&mut buf) {
                Ok(0) => break,
                Ok(n) => got.extend_from_slice(&buf[..n]),
                Err(e) if e.kind() == ErrorKind::Interrupted => continue,
                Err(_) => break,
            }
        }
        wr.join().ok();
        let shape = crate::codec::split_stream(&got);
        case.check(shape.garbage_at.is_none(), "server-wrote-garbage", || format!("server answered hostile bytes [{desc}] with a stream that is not frames: {:?}", shape.garbage_at));
    }
    // the process and other connections survive: a healthy connection is served
    match TcpStream::connect(addr) {
        Ok(mut s) => {
            s.set_read_timeout(Some(Duration::from_millis(2_000))).ok();
            let req = Frame::new(42, b"/json/echo", b"{\"ok\":true}").with_formats(1, 2);
            let _ = write_all_retry(&mut s, &req.encode());
            match read_frame(&mut s) {
                Ok(Some(f)) => {
                    case.check(f.id == 42 && f.ec == 0 && f.body == b"{\"echo\":{\"ok\":true}}", "healthy-connection-not-served", || format!("after hostile bytes [{desc}] a healthy request got {f:?}"));
                }
                other => case.fail("healthy-connection-not-served", format!("after hostile bytes [{desc}] a healthy request got {other:?}")),
            }
        }
        Err(e) => case.fail("healthy-connection-not-served", format!("connect after hostile bytes failed: {e}")),
    }
    case.nontrivial();
    net::shutdown_all();
    server.join().ok();
}

fn c02_live_client(case: &Case) {
    net::reset(draw_net());
    let listener = TcpListener::bind("127.0.0.1:0").unwrap();
    let addr = listener.local_addr().unwrap();
    let (input, desc) = gen_live_input();
    let ncalls = range(1, 4);
    case.sample(json!({"hostile_bytes": desc, "len": input.len(), "calls_in_flight": ncalls}));
    let inp = input.clone();
    let server = thread::spawn(move || {
        let Ok((mut s, _)) = listener.accept() else { return };
        s.set_read_timeout(Some(Duration::from_millis(20))).ok();
        let _ = read_frame(&mut s);
        // the peer always drains what the client writes (a non-draining peer is C05's
        // quantifier): drain on this thread, write the hostile bytes from a helper
        let mut w = s.try_clone().unwrap();
        let wr = thread::spawn(move || {
            let _ = write_all_retry(&mut w, &inp);
        });
        s.set_read_timeout(Some(Duration::from_millis(3_000))).ok();
        let mut buf = [0u8; 1024];
        loop {
            match s.read(&mut buf) {
                Ok(0) => break,
                Ok(_) => {}
                Err(e) if e.kind() == ErrorKind::Interrupted => {}
                Err(_) => break,
            }
        }
        wr.join().ok();
    });
    let Ok(client) = repe::Client::connect(addr) else {
        case.harness_error("connect failed");
        return;
    };
    let mut hs = Vec::new();
    for t in 0..ncalls {
        let c = client.clone();
        hs.push(thread::spawn(move || {
            // bounded by a per-call timeout: hostile bytes that happen to be a valid frame with a
            // foreign id are legitimately ignored by the client
            let _ = c.call_json_with_timeout(format!("/x/{t}"), &json!({"t": t}), Duration::from_millis(1_000));
        }));
    }
    for h in hs {
        h.join().ok();
    }
    case.check(client.verif_pending_len() == 0, "pending-residue", || format!("{} pending entries after hostile bytes [{desc}]", client.verif_pending_len()));
    drop(client);
    case.nontrivial();
    net::shutdown_all();
    server.join().ok();
}
