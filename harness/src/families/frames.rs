//! C01 (scoped, DESIGN.md §3/C01): every emission route of one logical message, driven
//! through sinks that accept short writes, return EINTR and `Pending`, produces the bytes
//! of the independent layout oracle; every reader (through 1-byte / interrupted sources)
//! returns every field unchanged; and frames that real endpoints put on a simulated wire
//! (AsyncClient::forward_message, server responses chosen by a handler) are canonical.

use crate::codec::Frame;
use crate::families::aio::{self, FrameReader};
use crate::families::client_blocking::draw_net;
use crate::framework::{Case, Family, bytes, coin, pick, range, u64_boundary};
use repe::header::Header;
use repe::message::{Message, MessageView};
use repe::server::{HandlerErased, Router};
use repe::{AsyncClient, AsyncServer, RepeError, Server};
use serde_json::json;
use simkernel::net::{self, Side};
use std::io::{self, Read, Write};
use std::pin::Pin;
use std::sync::Arc;
use std::task::{Context, Poll};
use std::time::Duration;
use tokio::io::{AsyncRead, AsyncWrite, AsyncWriteExt, ReadBuf};
use tokio::time::timeout;

pub fn families() -> Vec<Family> {
    vec![
        Family::new(
            "c01_routes",
            "C01",
            "one logical message (all header fields over boundary classes, payloads 0..64 KiB, body capacity below/equal/above the in-place threshold) emitted by to_vec / write_to / into_wire_bytes / write_message / write_message_streaming / typed+complex slice writers / write_message_async through short-write, EINTR and Pending sinks, and read back through 1-byte / interrupted sources, vs. the independent layout oracle; interop fixtures re-emitted",
            c01_routes,
        )
        .runs(80_000, 4_800_000)
        .tokio(),
        Family::new(
            "c01_wire",
            "C01",
            "frames real endpoints put on the simulated wire: AsyncClient::forward_message requests (arbitrary ids, format codes, notify) and blocking Server / AsyncServer responses whose fields a handler chose, tapped and compared with the oracle encoding",
            c01_wire,
        )
        .runs(1_500, 90_000)
        .steps(600_000)
        .tokio(),
        Family::new(
            "c01_clients",
            "C01",
            "what the AsyncClient and the WebSocketClient put on the wire for call_with_formats / notify_with_formats (any format codes; body absent, empty or present) and, on the AsyncClient, call_typed_slice / call_typed_slice_aligned at path lengths of every alignment residue: tapped and compared with the oracle encoding (aligned slices: with the builder route, plus the alignment of the payload in the frame)",
            c01_clients,
        )
        .runs(6_000, 360_000)
        .steps(600_000)
        .tokio(),
        Family::new(
            "c01_servers",
            "C01",
            "the same pipelined requests (handler-dictated response fields, handler errors, and requests refused before dispatch: unknown path, bad version, non-pointer query format, non-UTF-8 query) sent raw to the blocking Server, the AsyncServer and the WebSocketServer: every response frame must be byte-identical on all three, and equal to the oracle encoding where the handler dictated it",
            c01_servers,
        )
        .runs(6_000, 360_000)
        .steps(600_000)
        .tokio(),
    ]
}

fn any_u16() -> u16 {
    match simkernel::choose(6) {
        0 => 0,
        1 => 1,
        2 => 2,
        3 => u16::MAX,
        4 => 0x8000,
        _ => simkernel::choose(1 << 16) as u16,
    }
}
fn any_u32() -> u32 {
    match simkernel::choose(6) {
        0 => 0,
        1 => 1,
        2 => u32::MAX,
        3 => 0x8000_0000,
        4 => 4096,
        _ => (simkernel::choose(1 << 16) << 16) | simkernel::choose(1 << 16),
    }
}
fn any_u8() -> u8 {
    pick(&[0u8, 1, 1, 2, 0x7f, 0x80, 0xff])
}

/// A logical message as the oracle sees it.
fn draw_frame() -> Frame {
    let qlen = match simkernel::choose(6) {
        0 => 0,
        1 => 1,
        2 => range(2, 40) as usize,
        3 => range(41, 300) as usize,
        4 => pick(&[4095usize, 4096, 8191, 8192, 8193]),
        _ => range(0, 65_536) as usize,
    };
    let blen = match simkernel::choose(6) {
        0 => 0,
        1 => 1,
        2 => range(2, 100) as usize,
        3 => pick(&[47usize, 48, 49, 8191, 8192, 8193]),
        4 => range(100, 5_000) as usize,
        _ => range(0, 65_536) as usize,
    };
    let mut f = Frame::new(u64_boundary(), &bytes(qlen), &bytes(blen));
    f.version = any_u8();
    f.notify = any_u8();
    f.reserved = any_u32();
    f.query_format = any_u16();
    f.body_format = any_u16();
    f.ec = any_u32();
    f
}

fn header_of(f: &Frame) -> Header {
    Header {
        length: f.length,
        spec: f.spec,
        version: f.version,
        notify: f.notify,
        reserved: f.reserved,
        id: f.id,
        query_length: f.query_length,
        body_length: f.body_length,
        query_format: f.query_format,
        body_format: f.body_format,
        ec: f.ec,
    }
}

/// Body vector in a drawn spare-capacity relation to the in-place threshold 48+q+b.
fn body_with_capacity(f: &Frame) -> (Vec<u8>, &'static str) {
    let total = 48 + f.query.len() + f.body.len();
    let (cap, rel) = match simkernel::choose(5) {
        0 => (f.body.len(), "exact-body"),
        1 => (total.saturating_sub(1).max(f.body.len()), "one-below"),
        2 => (total, "equal"),
        3 => (total + 1, "one-above"),
        _ => (total + range(2, 200) as usize, "above"),
    };
    let mut v = Vec::with_capacity(cap);
    v.extend_from_slice(&f.body);
    (v, rel)
}

/// `Write` that accepts 1..n bytes per call and sometimes reports EINTR.
struct FaultySink {
    out: Vec<u8>,
    short: bool,
    eintr: bool,
    writes: u64,
}
impl Write for FaultySink {
    fn write(&mut self, buf: &[u8]) -> io::Result<usize> {
        self.writes += 1;
        if self.eintr && simkernel::choose(5) == 0 {
            simkernel::count("fault.eintr_write");
            return Err(io::Error::new(io::ErrorKind::Interrupted, "interrupted"));
        }
        let mut n = buf.len();
        if self.short && n > 1 && simkernel::choose(3) != 0 {
            n = 1 + simkernel::choose(n as u32 - 1) as usize;
            simkernel::count("fault.short_write");
        }
        self.out.extend_from_slice(&buf[..n]);
        Ok(n)
    }
    fn flush(&mut self) -> io::Result<()> {
        Ok(())
    }
}
fn sink() -> FaultySink {
    FaultySink { out: Vec::new(), short: simkernel::choose(4) != 0, eintr: simkernel::choose(2) == 0, writes: 0 }
}

struct FaultyAsyncSink {
    out: Vec<u8>,
}
impl AsyncWrite for FaultyAsyncSink {
    fn poll_write(mut self: Pin<&mut Self>, cx: &mut Context<'_>, buf: &[u8]) -> Poll<io::Result<usize>> {
        if simkernel::choose(4) == 0 {
            simkernel::count("fault.spurious_pending_write");
            cx.waker().wake_by_ref();
            return Poll::Pending;
        }
        let mut n = buf.len();
        if n > 1 && simkernel::choose(2) == 0 {
            n = 1 + simkernel::choose(n as u32 - 1) as usize;
        }
        self.out.extend_from_slice(&buf[..n]);
        Poll::Ready(Ok(n))
    }
    fn poll_flush(self: Pin<&mut Self>, _cx: &mut Context<'_>) -> Poll<io::Result<()>> {
        Poll::Ready(Ok(()))
    }
    fn poll_shutdown(self: Pin<&mut Self>, _cx: &mut Context<'_>) -> Poll<io::Result<()>> {
        Poll::Ready(Ok(()))
    }
}

/// `Read` that returns 1..n bytes per call and sometimes EINTR.
struct FaultySource<'a> {
    data: &'a [u8],
    pos: usize,
}
impl Read for FaultySource<'_> {
    fn read(&mut self, buf: &mut [u8]) -> io::Result<usize> {
        if simkernel::choose(6) == 0 {
            simkernel::count("fault.eintr_read");
            return Err(io::Error::new(io::ErrorKind::Interrupted, "interrupted"));
        }
        let avail = self.data.len() - self.pos;
        let mut n = buf.len().min(avail);
        if n > 1 && simkernel::choose(2) == 0 {
            n = 1 + simkernel::choose(n as u32 - 1) as usize;
        }
        buf[..n].copy_from_slice(&self.data[self.pos..self.pos + n]);
        self.pos += n;
        Ok(n)
    }
}
struct FaultyAsyncSource<'a> {
    data: &'a [u8],
    pos: usize,
}
impl AsyncRead for FaultyAsyncSource<'_> {
    fn poll_read(mut self: Pin<&mut Self>, cx: &mut Context<'_>, buf: &mut ReadBuf<'_>) -> Poll<io::Result<()>> {
        if simkernel::choose(5) == 0 {
            cx.waker().wake_by_ref();
            return Poll::Pending;
        }
        let avail = self.data.len() - self.pos;
        let mut n = buf.remaining().min(avail);
        if n > 1 && simkernel::choose(2) == 0 {
            n = 1 + simkernel::choose(n as u32 - 1) as usize;
        }
        let p = self.pos;
        buf.put_slice(&self.data[p..p + n]);
        self.pos += n;
        Poll::Ready(Ok(()))
    }
}

fn same(case: &Case, route: &str, got: &[u8], want: &[u8], what: &str) -> bool {
    case.check(got == want, "bytes-differ", || {
        let at = got.iter().zip(want.iter()).position(|(a, b)| a != b).unwrap_or(got.len().min(want.len()));
        format!("{route}: {} bytes, oracle {} bytes, first difference at offset {at} ({what})", got.len(), want.len())
    })
}

fn fields_same(case: &Case, route: &str, h: &Header, q: &[u8], b: &[u8], f: &Frame) -> bool {
    case.check(
        *h == header_of(f) && q == f.query && b == f.body,
        "round-trip-differs",
        || format!("{route}: parsed header {h:?} query {} B body {} B; oracle header {:?} query {} B body {} B", q.len(), b.len(), header_of(f), f.query.len(), f.body.len()),
    )
}

fn c01_routes(case: &Case) {
    let f = draw_frame();
    let want = f.encode();
    let what = format!("id={:#x} v={} notify={} reserved={:#x} qf={} bf={} ec={} q={}B b={}B", f.id, f.version, f.notify, f.reserved, f.query_format, f.body_format, f.ec, f.query.len(), f.body.len());
    case.sample(json!({"message": what}));
    let msg = match Message::new(header_of(&f), f.query.clone(), f.body.clone()) {
        Ok(m) => m,
        Err(e) => {
            case.fail("message-new-rejected", format!("Message::new rejected a consistent header: {e}"));
            return;
        }
    };
    // --- emission routes
    if !same(case, "Message::to_vec", &msg.to_vec(), &want, &what) {
        return;
    }
    case.check(msg.serialized_len() == want.len(), "bytes-differ", || format!("serialized_len {} != {}", msg.serialized_len(), want.len()));
    let mut s = sink();
    if msg.write_to(&mut s).is_err() || !same(case, "Message::write_to", &s.out, &want, &what) {
        return;
    }
    let mut s = sink();
    if repe::write_message(&mut s, &msg).is_err() || !same(case, "write_message", &s.out, &want, &what) {
        return;
    }
    {
        let (body, rel) = body_with_capacity(&f);
        let m2 = Message { header: header_of(&f), query: f.query.clone(), body };
        let out = m2.into_wire_bytes();
        if !same(case, &format!("Message::into_wire_bytes (body capacity {rel})"), &out, &want, &what) {
            return;
        }
        simkernel::count(if rel == "equal" || rel == "one-above" || rel == "above" { "probe.in_place_path" } else { "probe.fresh_buffer_path" });
    }
    {
        // streaming: the header's three length fields are overwritten from the arguments
        let mut h = header_of(&f);
        if simkernel::choose(2) == 0 {
            h.length = u64_boundary();
            h.query_length = u64_boundary();
            h.body_length = u64_boundary();
        }
        let mut s = sink();
        let body = f.body.clone();
        let step = pick(&[1usize, 7, 4096, 1 << 20]);
        let r = repe::write_message_streaming(&mut s, h, &f.query, f.body.len() as u64, |w: &mut FaultySink| -> io::Result<()> {
            for c in body.chunks(step) {
                w.write_all(c)?;
            }
            Ok(())
        });
        if r.is_err() || !same(case, "write_message_streaming", &s.out, &want, &what) {
            return;
        }
    }
    // builder: build() fills the three length fields
    {
        let built = Message::builder().id(f.id).notify(false).query_bytes(f.query.clone()).query_format_code(f.query_format).body_bytes(f.body.clone()).body_format_code(f.body_format).build();
        let mut g = Frame::new(f.id, &f.query, &f.body).with_formats(f.query_format, f.body_format);
        g.notify = 0;
        if !same(case, "MessageBuilder::build + to_vec", &built.to_vec(), &g.encode(), &what) {
            return;
        }
    }
    // typed / complex slice writers vs. the owned builder route and the oracle
    if simkernel::choose(4) == 0 {
        let n = range(0, 300) as usize;
        let v: Vec<f64> = (0..n).map(|i| i as f64 * 1.25 - 7.0).collect();
        let body = beve::to_vec_typed_slice(&v);
        let mut g = Frame::new(f.id, &f.query, &body).with_formats(f.query_format, 1);
        g.version = f.version;
        g.notify = f.notify;
        g.reserved = f.reserved;
        g.ec = f.ec;
        let mut s = sink();
        if repe::write_message_typed_slice(&mut s, header_of(&f), &f.query, &v).is_err() || !same(case, "write_message_typed_slice", &s.out, &g.encode(), &what) {
            return;
        }
        let owned = Message::builder().id(f.id).query_bytes(f.query.clone()).query_format_code(f.query_format).body_typed_slice(&v).build();
        let mut g2 = Frame::new(f.id, &f.query, &body).with_formats(f.query_format, 1);
        g2.notify = 0;
        if !same(case, "body_typed_slice + into_wire_bytes", &owned.clone().into_wire_bytes(), &g2.encode(), &what) || !same(case, "body_typed_slice + to_vec", &owned.to_vec(), &g2.encode(), &what) {
            return;
        }
        let c: Vec<beve::Complex<f32>> = (0..n / 2).map(|i| beve::Complex { re: i as f32, im: -(i as f32) }).collect();
        let cbody = beve::to_vec_complex_slice(&c);
        let mut g3 = Frame::new(f.id, &f.query, &cbody).with_formats(f.query_format, 1);
        g3.version = f.version;
        g3.notify = f.notify;
        g3.reserved = f.reserved;
        g3.ec = f.ec;
        let mut s = sink();
        if repe::write_message_complex_slice(&mut s, header_of(&f), &f.query, &c).is_err() || !same(case, "write_message_complex_slice", &s.out, &g3.encode(), &what) {
            return;
        }
        let owned = Message::builder().id(f.id).query_bytes(f.query.clone()).query_format_code(f.query_format).body_complex_slice(&c).build();
        let mut g4 = Frame::new(f.id, &f.query, &cbody).with_formats(f.query_format, 1);
        g4.notify = 0;
        if !same(case, "body_complex_slice + into_wire_bytes", &owned.into_wire_bytes(), &g4.encode(), &what) {
            return;
        }
        simkernel::count("probe.slice_writers_compared");
    }
    // --- readers
    match Message::from_slice(&want) {
        Ok(m) => {
            if !fields_same(case, "Message::from_slice", &m.header, &m.query, &m.body, &f) {
                return;
            }
        }
        Err(e) => {
            case.fail("round-trip-differs", format!("Message::from_slice rejected its own frame: {e} ({what})"));
            return;
        }
    }
    match MessageView::from_slice_exact(&want) {
        Ok(v) => {
            if !fields_same(case, "MessageView::from_slice_exact", &v.header, v.query, v.body, &f) {
                return;
            }
        }
        Err(e) => {
            case.fail("round-trip-differs", format!("MessageView::from_slice_exact rejected its own frame: {e} ({what})"));
            return;
        }
    }
    // the prefix parsers: the frame followed by more bytes (the next frame of a pipelined
    // buffer, or junk) parses to the frame itself, nothing more
    {
        let extra = pick(&[1usize, 7, 48, 300]);
        let longer = [want.clone(), crate::codec::pattern(0xabcd, extra)].concat();
        match MessageView::from_slice(&longer) {
            Ok(v) => {
                if !fields_same(case, "MessageView::from_slice (frame followed by more bytes)", &v.header, v.query, v.body, &f) {
                    return;
                }
                if !same(case, "MessageView::from_slice(..).to_message().to_vec()", &v.to_message().to_vec(), &want, &what) {
                    return;
                }
            }
            Err(e) => {
                case.fail("round-trip-differs", format!("MessageView::from_slice rejected a frame followed by {extra} more bytes: {e} ({what})"));
                return;
            }
        }
        match Message::from_slice(&longer) {
            Ok(m) => {
                if !fields_same(case, "Message::from_slice (frame followed by more bytes)", &m.header, &m.query, &m.body, &f) {
                    return;
                }
            }
            Err(e) => {
                case.fail("round-trip-differs", format!("Message::from_slice rejected a frame followed by {extra} more bytes: {e} ({what})"));
                return;
            }
        }
    }
    match repe::read_message(&mut FaultySource { data: &want, pos: 0 }) {
        Ok(m) => {
            if !fields_same(case, "read_message", &m.header, &m.query, &m.body, &f) {
                return;
            }
        }
        Err(e) => {
            case.fail("round-trip-differs", format!("read_message failed on its own frame: {e} ({what})"));
            return;
        }
    }
    // the caller's buffer is reused: it arrives holding whatever an earlier frame left in it
    let leftover = |n: usize| -> Vec<u8> { crate::codec::pattern(0xfeed, n) };
    let prefill = pick(&[0usize, 0, 7, 48, want.len().saturating_sub(1), want.len(), want.len() + 1, want.len() + 4097]);
    // ... and a second, shorter or longer frame follows on the same stream into the same buffer
    let mut f_b = f.clone();
    f_b.id = f.id ^ 1;
    f_b.body = match simkernel::choose(3) {
        0 => f.body[..f.body.len() / 2].to_vec(),
        1 => Vec::new(),
        _ => [f.body.clone(), crate::codec::pattern(f.id, 1 + f.body.len() / 3)].concat(),
    };
    f_b.body_length = f_b.body.len() as u64;
    f_b.length = (crate::codec::HDR + f_b.query.len() + f_b.body.len()) as u64;
    let want_b = f_b.encode();
    let a_first = coin();
    let order: [&Vec<u8>; 2] = if a_first { [&want, &want_b] } else { [&want_b, &want] };
    let two = [order[0].clone(), order[1].clone()].concat();
    let mut buf = leftover(prefill);
    match repe::read_message_into(&mut FaultySource { data: &want, pos: 0 }, &mut buf) {
        Ok(()) => {
            if !same(case, "read_message_into", &buf, &want, &format!("{what}; buffer arrived holding {prefill} bytes")) {
                return;
            }
        }
        Err(e) => {
            case.fail("round-trip-differs", format!("read_message_into failed on its own frame: {e} ({what})"));
            return;
        }
    }
    {
        let mut src = FaultySource { data: &two, pos: 0 };
        let mut buf = leftover(prefill);
        for (k, w) in order.iter().enumerate() {
            match repe::read_message_into(&mut src, &mut buf) {
                Ok(()) => {
                    if !same(case, "read_message_into", &buf, w, &format!("{what}; frame {k} of two on one stream into one reused buffer")) {
                        return;
                    }
                }
                Err(e) => {
                    case.fail("round-trip-differs", format!("read_message_into failed on frame {k} of two: {e} ({what})"));
                    return;
                }
            }
        }
    }
    // --- async twins (Pending + short I/O), on the deterministic runtime
    let (case2, f2, want2, what2, msg2) = (case.clone(), f.clone(), want.clone(), what.clone(), msg.clone());
    let (two2, order2): (Vec<u8>, Vec<Vec<u8>>) = (two.clone(), order.iter().map(|w| (*w).clone()).collect());
    aio::run_or_error(case, 600, async move {
        let mut s = FaultyAsyncSink { out: Vec::new() };
        if repe::async_io::write_message_async(&mut s, &msg2).await.is_err() || !same(&case2, "write_message_async", &s.out, &want2, &what2) {
            return;
        }
        match repe::async_io::read_message_async(&mut FaultyAsyncSource { data: &want2, pos: 0 }).await {
            Ok(m) => {
                fields_same(&case2, "read_message_async", &m.header, &m.query, &m.body, &f2);
            }
            Err(e) => case2.fail("round-trip-differs", format!("read_message_async failed on its own frame: {e} ({what2})")),
        }
        let mut buf = crate::codec::pattern(0xfeed, prefill);
        match repe::async_io::read_message_into_async(&mut FaultyAsyncSource { data: &want2, pos: 0 }, &mut buf).await {
            Ok(()) => {
                same(&case2, "read_message_into_async", &buf, &want2, &format!("{what2}; buffer arrived holding {prefill} bytes"));
            }
            Err(e) => case2.fail("round-trip-differs", format!("read_message_into_async failed on its own frame: {e} ({what2})")),
        }
        let mut src = FaultyAsyncSource { data: &two2, pos: 0 };
        for (k, w) in order2.iter().enumerate() {
            match repe::async_io::read_message_into_async(&mut src, &mut buf).await {
                Ok(()) => {
                    if !same(&case2, "read_message_into_async", &buf, w, &format!("{what2}; frame {k} of two on one stream into one reused buffer")) {
                        return;
                    }
                }
                Err(e) => {
                    case2.fail("round-trip-differs", format!("read_message_into_async failed on frame {k} of two: {e} ({what2})"));
                    return;
                }
            }
        }
    });
    // --- one interop fixture per run: decoded by the oracle, re-emitted by the library
    if simkernel::choose(8) == 0 {
        static FIX: std::sync::OnceLock<Vec<(String, Vec<u8>)>> = std::sync::OnceLock::new();
        let fixtures = FIX.get_or_init(|| {
            let mut v = Vec::new();
            if let Ok(rd) = std::fs::read_dir("/repo/interop/fixtures") {
                let mut names: Vec<_> = rd.flatten().map(|e| e.path()).filter(|p| p.extension().is_some_and(|x| x == "repe")).collect();
                names.sort();
                for p in names {
                    if let Ok(b) = std::fs::read(&p) {
                        v.push((p.file_name().unwrap().to_string_lossy().to_string(), b));
                    }
                }
            }
            v
        });
        if !fixtures.is_empty() {
            let (name, b) = &fixtures[simkernel::choose(fixtures.len() as u32) as usize];
            let mut g = Frame::parse_header(b);
            if case.check(g.header_consistent() && g.length as usize == b.len(), "fixture-inconsistent", || format!("fixture {name} is not one consistent frame per the oracle")) {
                let q = g.query_length as usize;
                g.query = b[48..48 + q].to_vec();
                g.body = b[48 + q..].to_vec();
                match Message::from_slice_exact(b) {
                    Ok(m) => {
                        fields_same(case, &format!("fixture {name}"), &m.header, &m.query, &m.body, &g);
                        same(case, &format!("fixture {name} to_vec"), &m.to_vec(), b, name);
                        let mut s = sink();
                        let _ = repe::write_message(&mut s, &m);
                        same(case, &format!("fixture {name} write_message"), &s.out, b, name);
                        same(case, &format!("fixture {name} into_wire_bytes"), &m.into_wire_bytes(), b, name);
                    }
                    Err(e) => case.fail("round-trip-differs", format!("fixture {name} rejected: {e}")),
                }
                simkernel::count("probe.interop_fixture_reemitted");
            }
        }
    }
    case.nontrivial();
}

// =========================================================================== on the wire

/// Responds with fields the request body dictates: [qf:u16][bf:u16][ec:u32][own_query:u8] + payload.
struct Dictated;
impl HandlerErased for Dictated {
    fn handle(&self, req: &Message) -> Result<Message, RepeError> {
        let b = &req.body;
        if b.len() < 9 {
            return Ok(Message::builder().id(req.header.id).build());
        }
        let bf = u16::from_le_bytes([b[2], b[3]]);
        let own_query = b[8] == 1;
        let mut m = Message::builder().id(req.header.id).body_bytes(b[9..].to_vec()).body_format_code(bf).query_format_code(u16::from_le_bytes([b[0], b[1]]));
        if own_query {
            m = m.query_bytes(b"/chosen-by-handler".to_vec());
        }
        Ok(m.build())
    }
}

fn c01_wire(case: &Case) {
    net::reset(draw_net());
    let n = range(1, 8) as usize;
    let blocking_server = simkernel::choose(2) == 0;
    // requests: arbitrary ids (unique), format codes, notify, payloads
    let mut reqs: Vec<Frame> = Vec::new();
    for i in 0..n {
        let qlen = pick(&[1usize, 5, 40, 300]);
        let mut q = b"/d".to_vec();
        q.extend(bytes(qlen).iter().map(|b| b'a' + (b % 26)));
        let payload = bytes(pick(&[0usize, 1, 100, 3000, 9000]));
        let bf = any_u16();
        let own_query = simkernel::choose(3) == 0;
        let mut body = Vec::new();
        body.extend_from_slice(&any_u16().to_le_bytes());
        body.extend_from_slice(&bf.to_le_bytes());
        body.extend_from_slice(&0u32.to_le_bytes());
        body.push(own_query as u8);
        body.extend_from_slice(&payload);
        let mut f = Frame::new((u64_boundary() & !0xff) | i as u64, &q, &body).with_formats(1, any_u16());
        f.notify = (simkernel::choose(5) == 0) as u8;
        reqs.push(f);
    }
    case.sample(json!({"server": if blocking_server {"Server"} else {"AsyncServer"}, "requests": reqs.iter().map(|f| format!("id={:#x} notify={} bf={} {}B", f.id, f.notify, f.body_format, f.body.len())).collect::<Vec<_>>()}));
    let case = case.clone();
    aio::run_or_error(&case.clone(), 3_600, async move {
        let router = Router::new().with_erased_handler("/d", Arc::new(Dictated));
        // every query starts with "/d..." but only "/d" exactly is registered: route by a catch-all
        let mut router = router;
        for f in &reqs {
            router = router.with_erased_handler(&f.query_str(), Arc::new(Dictated));
        }
        let addr;
        let mut tcp_task = None;
        if blocking_server {
            let listener = simkernel::net::TcpListener::bind("127.0.0.1:0").unwrap();
            addr = listener.local_addr().unwrap();
            simkernel::thread::spawn(move || {
                let _ = Server::new(router).serve(listener);
            });
        } else {
            let listener = AsyncServer::listen("127.0.0.1:0").await.unwrap();
            addr = listener.local_addr().unwrap();
            tcp_task = Some(tokio::spawn(async move {
                let _ = AsyncServer::new(router).serve(listener).await;
            }));
        }
        // a tapping relay between the real AsyncClient and the real server is not needed: the
        // simulated connection itself records what each side wrote
        let client = match AsyncClient::connect(addr).await {
            Ok(c) => c,
            Err(e) => {
                case.harness_error(format!("connect: {e}"));
                return;
            }
        };
        let conn = net::connections().last().cloned().unwrap();
        let mut expected_responses: Vec<Frame> = Vec::new();
        for f in &reqs {
            let msg = Message::new(
                Header { length: f.length, spec: f.spec, version: f.version, notify: f.notify, reserved: f.reserved, id: f.id, query_length: f.query_length, body_length: f.body_length, query_format: f.query_format, body_format: f.body_format, ec: f.ec },
                f.query.clone(),
                f.body.clone(),
            )
            .unwrap();
            let r = timeout(Duration::from_secs(30), client.forward_message(&msg)).await;
            if f.notify == 0 {
                let bf = u16::from_le_bytes([f.body[2], f.body[3]]);
                let own = f.body[8] == 1;
                let mut e = Frame::new(f.id, if own { b"/chosen-by-handler" } else { &f.query }, &f.body[9..]);
                e.body_format = bf;
                e.query_format = u16::from_le_bytes([f.body[0], f.body[1]]);
                expected_responses.push(e.clone());
                match r {
                    Ok(Ok(Some(m))) => {
                        case.check(m.header.id == f.id && m.body == e.body && m.query == e.query && m.header.body_format == e.body_format && m.header.query_format == e.query_format, "round-trip-differs", || {
                            format!("forwarded request id {:#x}: response fields id={:#x} qf={} bf={} q={:?} body {}B; expected qf={} bf={} q={:?} body {}B", f.id, m.header.id, m.header.query_format, m.header.body_format, String::from_utf8_lossy(&m.query), m.body.len(), e.query_format, e.body_format, e.query_str(), e.body.len())
                        });
                    }
                    other => {
                        case.fail("call-failed-without-fault", format!("forward_message(id {:#x}) returned {:?}", f.id, other.map(|r| r.map(|o| o.map(|m| m.header.id)).map_err(|e| e.to_string())).map_err(|_| "timeout")));
                        break;
                    }
                }
            }
        }
        tokio::time::sleep(Duration::from_millis(20)).await;
        // what the client wrote is exactly the oracle encoding of each request, in order
        let client_bytes = net::tap_of(&conn, Side::A);
        let want: Vec<u8> = reqs.iter().flat_map(|f| f.encode()).collect();
        same(&case, "AsyncClient::forward_message on the wire", &client_bytes, &want, "concatenated requests");
        // what the server wrote is exactly the oracle encoding of each expected response
        let server_bytes = net::tap_of(&conn, Side::B);
        let want: Vec<u8> = expected_responses.iter().flat_map(|f| f.encode()).collect();
        same(&case, if blocking_server { "Server responses on the wire" } else { "AsyncServer responses on the wire" }, &server_bytes, &want, "concatenated responses");
        case.nontrivial();
        drop(client);
        if let Some(t) = tcp_task {
            t.abort();
            let _ = t.await;
        } else {
            net::shutdown_all();
        }
        let _ = FrameReader::new(tokio::io::empty());
        let _ = AsyncWriteExt::flush(&mut tokio::io::sink()).await;
    });
}

/// A struct mounted on the router (fields readable / writable by pointer, methods callable).
#[derive(Default, serde::Serialize, serde::Deserialize, repe::RepeStruct)]
#[repe(methods(
    add(&mut self, by: i64) -> i64,
    hello(&self) -> String
))]
struct Acc {
    total: i64,
    label: String,
}
impl Acc {
    fn add(&mut self, by: i64) -> i64 {
        self.total = self.total.wrapping_add(by);
        self.total
    }
    fn hello(&self) -> String {
        format!("hello {}", self.label)
    }
}

/// One logical response, three servers: the frames must not depend on which server framed them.
fn c01_servers(case: &Case) {
    use crate::families::ws_common::{Inbox, raw_connect, send_frame, spawn_collector, wait_until};
    use futures_util::StreamExt;
    net::reset(draw_net());
    let n = range(1, 8) as usize;
    // (frame, dictated response if the handler decides it)
    let mut reqs: Vec<(Frame, Option<Frame>, &'static str)> = Vec::new();
    for i in 0..n {
        let id = (u64_boundary() & !0xff) | i as u64;
        let payload = bytes(pick(&[0usize, 1, 100, 3000]));
        match simkernel::choose(8) {
            0..=2 => {
                let (qf, bf, own) = (any_u16(), any_u16(), simkernel::choose(3) == 0);
                let mut body = Vec::new();
                body.extend_from_slice(&qf.to_le_bytes());
                body.extend_from_slice(&bf.to_le_bytes());
                body.extend_from_slice(&0u32.to_le_bytes());
                body.push(own as u8);
                body.extend_from_slice(&payload);
                let f = Frame::new(id, b"/d", &body).with_formats(1, any_u16());
                let mut e = Frame::new(id, if own { b"/chosen-by-handler" } else { b"/d" }, &payload);
                e.body_format = bf;
                e.query_format = qf;
                reqs.push((f, Some(e), "dictated"));
            }
            3 => reqs.push((Frame::new(id, b"/fails", b"{\"x\":1}").with_formats(1, 2), None, "handler-error")),
            4 => {
                let mut q = b"/nope/".to_vec();
                q.extend(bytes(pick(&[0usize, 3, 40])).iter().map(|b| b'a' + (b % 26)));
                reqs.push((Frame::new(id, &q, &payload).with_formats(1, any_u16()), None, "unknown-path"));
            }
            5 => {
                let mut f = Frame::new(id, b"/d", &payload).with_formats(1, 0);
                f.version = pick(&[0u8, 2, 9, 255]);
                reqs.push((f, None, "bad-version"));
            }
            6 => {
                let qf = loop {
                    let q = any_u16();
                    if q != 1 {
                        break q;
                    }
                };
                reqs.push((Frame::new(id, b"/d", &payload).with_formats(qf, 0), None, "query-format"));
            }
            7 if simkernel::choose(2) == 0 => reqs.push((Frame::new(id, &[b'/', 0xff, 0xfe, b'd'], &payload).with_formats(1, 0), None, "non-utf8-query")),
            _ => {
                // the mounted struct: reads, writes, method calls, bad bodies, unknown members
                let (q, body): (&[u8], Vec<u8>) = match simkernel::choose(8) {
                    0 => (b"/st/total", Vec::new()),
                    1 => (b"/st/total", format!("{}", simkernel::choose(1000)).into_bytes()),
                    2 => (b"/st/add", format!("{}", simkernel::choose(1000)).into_bytes()),
                    3 => (b"/st/hello", Vec::new()),
                    4 => (b"/st/label", b"\"lbl\"".to_vec()),
                    5 => (b"/st/add", b"\"not a number\"".to_vec()),
                    6 => (b"/st/missing", b"1".to_vec()),
                    _ => (b"/st", Vec::new()),
                };
                reqs.push((Frame::new(id, q, &body).with_formats(1, 2), None, "struct"));
            }
        }
    }
    case.sample(json!({"requests": reqs.iter().map(|(f, _, k)| format!("{k} id={:#x} qf={} bf={} {}B", f.id, f.query_format, f.body_format, f.body.len())).collect::<Vec<_>>()}));
    let case = case.clone();
    aio::run_or_error(&case.clone(), 3_600, async move {
        let mk_router = || {
            Router::new()
                .with_erased_handler("/d", Arc::new(Dictated))
                .with_struct("/st", Acc::default())
                .0
                .with_json("/fails", |_v: serde_json::Value| Err((repe::constants::ErrorCode::ApplicationErrorBase, "the handler refuses".to_string())))
        };
        // blocking Server (simulated threads), AsyncServer and WebSocketServer (tasks)
        let bl = simkernel::net::TcpListener::bind("127.0.0.1:0").unwrap();
        let b_addr = bl.local_addr().unwrap();
        let r1 = mk_router();
        simkernel::thread::spawn(move || {
            let _ = Server::new(r1).serve(bl);
        });
        let al = AsyncServer::listen("127.0.0.1:0").await.unwrap();
        let a_addr = al.local_addr().unwrap();
        let r2 = mk_router();
        let a_task = tokio::spawn(async move {
            let _ = AsyncServer::new(r2).serve(al).await;
        });
        let wl = repe::websocket_server::WebSocketServer::listen("127.0.0.1:0").await.unwrap();
        let w_addr = wl.local_addr().unwrap();
        let r3 = mk_router();
        let w_task = tokio::spawn(async move {
            let _ = repe::websocket_server::WebSocketServer::new(r3).on_error(|_| {}).serve_listener(wl, "/repe").await;
        });
        let all: Vec<u8> = reqs.iter().flat_map(|(f, _, _)| f.encode()).collect();
        let mut got: Vec<(&'static str, Vec<Frame>)> = Vec::new();
        for (name, addr) in [("Server", b_addr), ("AsyncServer", a_addr)] {
            let Ok(s) = simkernel::tokio_net::TcpStream::connect(addr).await else {
                case.harness_error(format!("connect to {name} failed"));
                return;
            };
            let (rd, mut wr) = s.into_split();
            let to_send = all.clone();
            let writer = tokio::spawn(async move {
                let _ = aio::write_all(&mut wr, &to_send).await;
                wr
            });
            let mut fr = FrameReader::new(rd);
            let mut out = Vec::new();
            while out.len() < reqs.len() {
                match timeout(Duration::from_secs(60), fr.next()).await {
                    Ok(Ok(Some(f))) => out.push(f),
                    _ => break,
                }
            }
            let _ = writer.await;
            got.push((name, out));
        }
        {
            let Ok(ws) = raw_connect(w_addr, "/repe").await else {
                case.harness_error("WebSocket handshake failed");
                return;
            };
            let (mut sink, stream) = ws.split();
            let inbox = Arc::new(Inbox::default());
            let collector = spawn_collector(stream, inbox.clone());
            for (f, _, _) in &reqs {
                let _ = send_frame(&mut sink, f).await;
            }
            let (ib, want) = (inbox.clone(), reqs.len());
            wait_until(60_000, || ib.frames().len() >= want || ib.ended()).await;
            got.push(("WebSocketServer", inbox.frames()));
            collector.abort();
        }
        for (k, (f, dictated, kind)) in reqs.iter().enumerate() {
            let per: Vec<(&str, Option<&Frame>)> = got.iter().map(|(name, fs)| (*name, fs.iter().find(|r| r.id == f.id))).collect();
            for (name, r) in &per {
                if !case.check(r.is_some(), "response-missing", || format!("request {k} ({kind}, id {:#x}): no response from {name} ({} responses in all)", f.id, got.iter().find(|g| g.0 == *name).map(|g| g.1.len()).unwrap_or(0))) {
                    return;
                }
            }
            let base = per[0].1.unwrap().encode();
            for (name, r) in &per[1..] {
                let enc = r.unwrap().encode();
                if !same(&case, &format!("{name} vs. Server, request {k} ({kind})"), &enc, &base, "the same logical response framed by two servers") {
                    return;
                }
            }
            if let Some(e) = dictated {
                same(&case, &format!("Server, request {k} ({kind})"), &base, &e.encode(), "response dictated by the handler");
            } else if *kind != "struct" {
                case.check(per[0].1.unwrap().ec != 0, "round-trip-differs", || format!("request {k} ({kind}) was answered with ec=0"));
            }
        }
        // The WebSocket proxy as an emission route: whatever arrives downstream, what it puts on
        // the upstream TCP stream is canonical frames of whole messages - a message with bytes
        // behind its frame contributes that frame or nothing, never the extra bytes.
        if simkernel::choose(3) == 0 {
            let pl = simkernel::tokio_net::TcpListener::bind("127.0.0.1:0").await.unwrap();
            let p_addr = pl.local_addr().unwrap();
            let up_conn: Arc<std::sync::Mutex<Option<simkernel::net::ConnRef>>> = Default::default();
            let up2 = up_conn.clone();
            let proxy = tokio::spawn(async move {
                let Ok((stream, _)) = pl.accept().await else { return };
                let limits = repe::WebSocketLimits::unlimited();
                let Ok(ws) = repe::websocket_server::WebSocketServer::accept_with_limits(stream, "/repe", limits).await else { return };
                let Ok(client) = AsyncClient::connect(a_addr).await else { return };
                *up2.lock().unwrap() = net::connections().last().cloned();
                let _ = repe::websocket_server::proxy_connection_with_limits(ws, client, limits).await;
            });
            if let Ok(ws) = raw_connect(p_addr, "/repe").await {
                use futures_util::SinkExt;
                use tokio_tungstenite::tungstenite::Message as WsMessage;
                let (mut sink, stream) = ws.split();
                let inbox = Arc::new(Inbox::default());
                let collector = spawn_collector(stream, inbox.clone());
                let plain = Frame::new(7_001, b"/d", &[0, 0, 0, 0, 0, 0, 0, 0, 0, 1, 2, 3]).with_formats(1, 0);
                let mut canon: Vec<Vec<u8>> = vec![plain.encode()];
                let _ = sink.send(WsMessage::Binary(plain.encode())).await;
                // a frame with junk behind it, and a frame with a second, complete frame stowed behind it
                let tailed = Frame::new(7_002, b"/d", &[0, 0, 0, 0, 0, 0, 0, 0, 0, 9]).with_formats(1, 0);
                let stow = Frame::new(7_003, b"/fails", b"{}").with_formats(1, 2);
                let extra = if coin() { crate::codec::pattern(0x77, pick(&[1usize, 5, 48])) } else { stow.encode() };
                let _ = sink.send(WsMessage::Binary([tailed.encode(), extra].concat())).await;
                canon.push(tailed.encode());
                let last = Frame::new(7_004, b"/d", &[0, 0, 0, 0, 0, 0, 0, 0, 0, 4]).with_formats(1, 0);
                let _ = sink.send(WsMessage::Binary(last.encode())).await;
                canon.push(last.encode());
                let ib = inbox.clone();
                wait_until(5_000, || !ib.responses_for(7_004).is_empty() || ib.ended()).await;
                tokio::time::sleep(Duration::from_millis(20)).await;
                let up = up_conn.lock().unwrap().clone();
                if let Some(c) = up {
                    let bytes = net::tap_of(&c, Side::A);
                    // accepted: a subsequence of the canonical frames, in order
                    let mut rest: &[u8] = &bytes;
                    for f in &canon {
                        if rest.starts_with(f) {
                            rest = &rest[f.len()..];
                        }
                    }
                    case.check(rest.is_empty(), "bytes-differ", || format!("the proxy wrote {} bytes upstream that are not the canonical frames of the messages it accepted ({} bytes unexplained; a message carried extra bytes behind its frame)", bytes.len(), rest.len()));
                    case.probe("proxy_got_a_message_with_bytes_behind_its_frame");
                }
                collector.abort();
            }
            proxy.abort();
        }
        case.nontrivial();
        a_task.abort();
        w_task.abort();
        net::shutdown_all();
    });
}

/// Client-side emission routes, tapped on the wire.
fn c01_clients(case: &Case) {
    use crate::families::ws_common::unlimited_config;
    use futures_util::{SinkExt, StreamExt};
    use tokio_tungstenite::tungstenite::Message as WsMessage;
    net::reset(draw_net());
    #[derive(Clone, Debug)]
    enum Op {
        /// (notify, path, query format, body, body format)
        Fmt(bool, String, u16, Option<Vec<u8>>, u16),
        /// (aligned form, path, values) - AsyncClient only
        Slice(bool, String, Vec<f64>),
    }
    let ws = coin();
    let n = range(1, 6) as usize;
    let ops: Vec<Op> = (0..n)
        .map(|i| {
            let path = format!("/c{}", "p".repeat(simkernel::choose(12) as usize));
            if !ws && simkernel::choose(3) == 0 {
                Op::Slice(coin(), path, (0..pick(&[0usize, 1, 3, 17])).map(|k| i as f64 + k as f64 / 4.0).collect())
            } else {
                let body = match simkernel::choose(3) {
                    0 => None,
                    1 => Some(Vec::new()),
                    _ => Some(bytes(pick(&[1usize, 7, 300]))),
                };
                Op::Fmt(simkernel::choose(3) == 0, path, any_u16(), body, any_u16())
            }
        })
        .collect();
    case.sample(json!({"client": if ws {"WebSocketClient"} else {"AsyncClient"}, "ops": ops.iter().map(|o| match o {
        Op::Fmt(nf, p, qf, b, bf) => format!("{} {p} qf={qf} bf={bf} body={:?}", if *nf {"notify"} else {"call"}, b.as_ref().map(|b| b.len())),
        Op::Slice(al, p, v) => format!("{} {p} {} values", if *al {"aligned-slice"} else {"slice"}, v.len()),
    }).collect::<Vec<_>>()}));
    let case = case.clone();
    aio::run_or_error(&case.clone(), 3_600, async move {
        // a recording peer that answers every request with an echo of it
        let listener = simkernel::tokio_net::TcpListener::bind("127.0.0.1:0").await.unwrap();
        let addr = listener.local_addr().unwrap();
        let seen: Arc<std::sync::Mutex<Vec<Vec<u8>>>> = Default::default();
        let seen2 = seen.clone();
        let server = tokio::spawn(async move {
            let Ok((stream, _)) = listener.accept().await else { return };
            if ws {
                let Ok(w) = tokio_tungstenite::accept_async_with_config(stream, Some(unlimited_config())).await else { return };
                let (mut sink, mut rd) = w.split();
                while let Some(Ok(m)) = rd.next().await {
                    if let WsMessage::Binary(b) = m {
                        seen2.lock().unwrap().push(b.to_vec());
                        if b.len() >= 48 && b[11] == 0 && sink.send(WsMessage::Binary(b)).await.is_err() {
                            return;
                        }
                    }
                }
            } else {
                let (rd, mut wr) = stream.into_split();
                let mut fr = FrameReader::new(rd);
                while let Ok(Some(f)) = fr.next().await {
                    let enc = f.encode();
                    seen2.lock().unwrap().push(enc.clone());
                    if f.notify == 0 && aio::write_all(&mut wr, &enc).await.is_err() {
                        return;
                    }
                }
            }
        });
        let to = Duration::from_secs(60);
        if ws {
            let Ok(client) = repe::WebSocketClient::connect(&format!("ws://{addr}/repe")).await else {
                case.harness_error("WebSocket connect failed");
                return;
            };
            for op in &ops {
                if let Op::Fmt(notify, path, qf, body, bf) = op {
                    if *notify {
                        let _ = client.notify_with_formats(path, *qf, body.as_deref(), *bf).await;
                    } else {
                        let _ = client.call_with_formats_and_timeout(path, *qf, body.as_deref(), *bf, to).await;
                    }
                }
            }
            let _ = client.call_with_formats_and_timeout("/fin", 1, None, 0, to).await;
        } else {
            let Ok(client) = AsyncClient::connect(addr).await else {
                case.harness_error("connect failed");
                return;
            };
            for op in &ops {
                match op {
                    Op::Fmt(true, path, qf, body, bf) => {
                        let _ = client.notify_with_formats(path, *qf, body.as_deref(), *bf).await;
                    }
                    Op::Fmt(false, path, qf, body, bf) => {
                        let _ = client.call_with_formats_and_timeout(path, *qf, body.as_deref(), *bf, to).await;
                    }
                    Op::Slice(true, path, v) => {
                        let _ = client.call_typed_slice_aligned_with_timeout::<_, f64, f64>(path, v, to).await;
                    }
                    Op::Slice(false, path, v) => {
                        let _ = client.call_typed_slice_with_timeout::<_, f64, f64>(path, v, to).await;
                    }
                }
            }
            let _ = client.call_with_formats_and_timeout("/fin", 1, None, 0, to).await;
        }
        let seen = seen.lock().unwrap().clone();
        if !case.check(seen.len() == ops.len() + 1, "round-trip-differs", || format!("{} operations (+1 barrier) put {} frames on the wire", ops.len(), seen.len())) {
            return;
        }
        for (k, (op, raw)) in ops.iter().zip(seen.iter()).enumerate() {
            if raw.len() < 48 {
                case.fail("bytes-differ", format!("operation {k}: {} bytes on the wire", raw.len()));
                return;
            }
            let id = crate::codec::rd_u64(raw, 16);
            match op {
                Op::Fmt(notify, path, qf, body, bf) => {
                    let mut f = Frame::new(id, path.as_bytes(), body.as_deref().unwrap_or(&[])).with_formats(*qf, *bf);
                    f.notify = *notify as u8;
                    if !same(&case, if ws { "WebSocketClient *_with_formats" } else { "AsyncClient *_with_formats" }, raw, &f.encode(), &format!("operation {k}: {op:?}")) {
                        return;
                    }
                }
                Op::Slice(aligned, path, v) => {
                    let b = Message::builder().id(id).query_str(path).query_format_code(1);
                    let reference = if *aligned { b.body_aligned_typed_slice(v) } else { b.body_typed_slice(v) }.build().to_vec();
                    if !same(&case, if *aligned { "AsyncClient::call_typed_slice_aligned vs. builder" } else { "AsyncClient::call_typed_slice vs. builder" }, raw, &reference, &format!("operation {k}: path {path:?}, {} values", v.len())) {
                        return;
                    }
                    if !*aligned {
                        let mut f = Frame::new(id, path.as_bytes(), &beve::to_vec_typed_slice(v)).with_formats(1, 1);
                        f.notify = 0;
                        same(&case, "AsyncClient::call_typed_slice", raw, &f.encode(), &format!("operation {k}"));
                    } else if !v.is_empty() {
                        // the payload (the last 8 * n bytes of the frame) starts on an 8-byte boundary
                        let start = raw.len() - 8 * v.len();
                        case.check(start % 8 == 0, "bytes-differ", || format!("operation {k}: the f64 payload of an aligned slice starts at frame offset {start} (path {path:?})"));
                        let payload: Vec<u8> = v.iter().flat_map(|x| x.to_le_bytes()).collect();
                        case.check(raw[start..] == payload[..], "bytes-differ", || format!("operation {k}: the aligned slice's payload bytes differ from the values"));
                    }
                }
            }
        }
        case.nontrivial();
        server.abort();
    });
}
