//! C03 on the real `WebSocketServer` (inline and off-reader dispatch, compared with the
//! routing model and field-by-field with the real `AsyncServer` on the same requests), and
//! C05 on the server's single-writer outbound path.

use crate::codec::{Frame, is_pattern, pattern};
use crate::families::aio::{self, FrameReader, jitter, sleep_ms};
use crate::families::c03_common::{Counters, Req, build_router, check_responses, draw_len, gen_requests, model, sanitize};
use crate::families::client_blocking::draw_net;
use crate::families::ws_common::{Inbox, check_inbox_clean, raw_connect, send_frame, spawn_collector, wait_until};
use crate::framework::{Case, Family, pick, range};
use futures_util::StreamExt;
use repe::server::{Execution, HandlerErased, Router};
use repe::websocket_server::WebSocketServer;
use repe::{AsyncServer, BodyFormat, Message, NotifyBody, PeerRegistry, RepeError};
use serde_json::{Value, json};
use simkernel::net::{self, NetConfig, Side};
use simkernel::tokio_net::TcpStream;
use std::sync::Arc;
use std::time::Duration;
use tokio::io::AsyncWriteExt;
use tokio::time::timeout;

pub fn families() -> Vec<Family> {
    vec![
        Family::new(
            "c03_ws_server",
            "C03",
            "pipelined request sequences to the real WebSocketServer (inline routes on the reader, _blocking routes off-reader on simulated threads) vs. routing/dispatch model, and field-by-field vs. the real AsyncServer on the same sequence",
            c03_ws_server,
        )
        .runs(8_000, 480_000)
        .steps(3_000_000)
        .tokio(),
        Family::new(
            "c05_ws_server",
            "C05",
            "WebSocketServer outbound path under concurrent inline responses, off-reader responses, handler-pushed notifies and registry broadcasts with a stalling client: every binary message is exactly one whole frame with its own body",
            c05_ws_server,
        )
        .runs(12_000, 720_000)
        .steps(3_000_000)
        .tokio(),
    ]
}

const OFF_READER_ROUTES: [&str; 4] = ["/bjson/echo", "/btyped/add", "/bctx/json", "/bctx/typed"];

async fn tcp_pipeline(addr: std::net::SocketAddr, reqs: &[Req], expect_n: usize) -> Option<Vec<Frame>> {
    let s = TcpStream::connect(addr).await.ok()?;
    let (rd, mut wr) = s.into_split();
    let frames: Vec<Vec<u8>> = reqs.iter().map(|r| r.frame().encode()).collect();
    let writer = tokio::spawn(async move {
        for f in frames {
            if wr.write_all(&f).await.is_err() {
                break;
            }
        }
        wr
    });
    let mut fr = FrameReader::new(rd);
    let mut out = Vec::new();
    while out.len() < expect_n {
        match timeout(Duration::from_millis(500), fr.next()).await {
            Ok(Ok(Some(f))) => out.push(f),
            _ => break,
        }
    }
    let _ = writer.await;
    Some(out)
}

fn c03_ws_server(case: &Case) {
    net::reset(draw_net());
    let n_mw = range(0, 2);
    let mw_first = simkernel::choose(2) == 0;
    let mut reqs = gen_requests(draw_len());
    sanitize(&mut reqs);
    // sometimes a few requests to inline routes carry a body of 70-100 KB (on a roomy network):
    // size must not change where a request runs or in which order it is answered
    if simkernel::choose(6) == 0 {
        net::set_config(simkernel::net::NetConfig { capacity: 1 << 20, lat_min: 0, lat_max: pick(&[0u64, 100_000]), max_segment: 0 });
        let mut left = range(1, 3);
        for (i, r) in reqs.iter_mut().enumerate() {
            if left > 0 && r.version == 1 && r.qfmt == 1 && r.bfmt == 2 && matches!(r.what.as_str(), "/json/echo" | "/ctx/json") && std::str::from_utf8(&r.body).is_ok() && serde_json::from_slice::<serde_json::Value>(&r.body).is_ok() && simkernel::choose(2) == 0 {
                r.body = serde_json::to_vec(&json!({"n": i, "s": "x".repeat(pick(&[70_000usize, 100_000]))})).unwrap();
                left -= 1;
                simkernel::count("probe.large_body_to_an_inline_route");
            }
        }
    }
    let expect_n = reqs.iter().filter(|r| model(r).ec.is_some()).count();
    let cap = pick(&[0usize, 0, 0, 1, 2, 16]);
    let out_cap = pick(&[256usize, 256, 1, 2, 4]);
    let stall_ms = if out_cap < 256 { pick(&[0u64, 5, 50, 400]) } else { pick(&[0u64, 0, 0, 50]) };
    if cap != 0 {
        // make saturation likely: more off-reader traffic, notifies included
        for r in reqs.iter_mut() {
            if r.version == 1 && r.qfmt == 1 && simkernel::choose(3) == 0 && crate::families::c03_common::routed_path(&r.what) && r.what.starts_with("/json/echo") {
                r.what = "/bjson/echo".to_string();
                r.query = b"/bjson/echo".to_vec();
            }
        }
    }
    case.sample(json!({"middlewares": n_mw, "offreader_cap": cap, "outbound_capacity": out_cap, "client_reads_after_ms": stall_ms, "requests": reqs.iter().map(|r| format!("{}{} v{} q{} b{} {}B", if r.notify {"notify "} else {""}, r.what, r.version, r.qfmt, r.bfmt, r.body.len())).collect::<Vec<_>>()}));
    let case = case.clone();
    aio::run_or_error(&case.clone(), 3_600, async move {
        let counters = Arc::new(Counters::default());
        let router = build_router(&counters, n_mw, mw_first);
        let listener = WebSocketServer::listen("127.0.0.1:0").await.unwrap();
        let addr = listener.local_addr().unwrap();
        // mostly unlimited off-reader slots (saturation replies are C16's subject); with a
        // finite cap an off-reader request may legitimately be answered ResourceExhausted
        // instead, and the lighter oracle below applies
        let server = WebSocketServer::new(router).with_offreader_limit(cap).with_outbound_capacity(out_cap);
        let srv = tokio::spawn(async move {
            let _ = server.serve_listener(listener, "/repe").await;
        });
        let Ok(ws) = raw_connect(addr, "/repe").await else {
            case.harness_error("handshake failed");
            return;
        };
        if stall_ms > 0 {
            // a slow consumer: tiny receive window and nobody reading for a while, so the
            // server's writer backs up and its bounded outbound queue fills
            net::set_capacity(&ws.get_ref().conn(), Side::B, 256);
        }
        let (mut sink, stream) = ws.split();
        let inbox = Arc::new(Inbox::default());
        let mut stream = Some(stream);
        let mut collector = None;
        if stall_ms == 0 {
            collector = Some(spawn_collector(stream.take().unwrap(), inbox.clone()));
        }
        // requests go out from their own task, so that a stalled reader on this side only
        // back-pressures the sender instead of cutting the sequence short
        let frames: Vec<Frame> = reqs.iter().map(|r| r.frame()).collect();
        let sender = tokio::spawn(async move {
            for f in &frames {
                if simkernel::choose(4) == 0 {
                    jitter().await;
                }
                if send_frame(&mut sink, f).await.is_err() {
                    break;
                }
            }
            sink
        });
        if stall_ms > 0 {
            case.probe("fault.stall_reader");
            sleep_ms(stall_ms).await;
            collector = Some(spawn_collector(stream.take().unwrap(), inbox.clone()));
        }
        let Ok(Ok(mut sink)) = timeout(Duration::from_secs(120), sender).await else {
            case.harness_error("request sender did not finish");
            return;
        };
        let collector = collector.unwrap();
        let ib = inbox.clone();
        wait_until(10_000, || ib.frames().len() >= expect_n || ib.ended()).await;
        // responses that must NOT come, and notifies at the tail that must still be dispatched
        sleep_ms(50).await;
        let responses = inbox.frames();
        case.check(!inbox.ended(), "connection-lost", || "the server ended the connection during a well-framed request sequence".into());
        check_inbox_clean(&case, "WebSocketServer", &inbox);
        if cap == 0 {
            if !check_responses(&case, "WebSocketServer", &reqs, &responses, &counters, n_mw, false) {
                return;
            }
        } else {
            // exactly one response per non-notify request, none per notify, whatever the cap did
            let mut want: Vec<u64> = reqs.iter().filter(|r| model(r).ec.is_some()).map(|r| r.id).collect();
            let mut got: Vec<u64> = responses.iter().map(|f| f.id).collect();
            want.sort();
            got.sort();
            if !case.check(got == want, "response-multiset", || format!("WebSocketServer (off-reader cap {cap}): response ids {got:?}, expected exactly one per non-notify request {want:?}; notifies {:?}", reqs.iter().filter(|r| r.notify).map(|r| (r.id, &r.what)).collect::<Vec<_>>())) {
                return;
            }
            for r in &reqs {
                let e = model(r);
                let Some(ec) = e.ec else { continue };
                let Some(f) = responses.iter().find(|f| f.id == r.id) else { continue };
                let off = r.version == 1 && r.qfmt == 1 && OFF_READER_ROUTES.contains(&String::from_utf8_lossy(&r.query).as_ref());
                let ok = ec == u32::MAX || f.ec == ec || (off && f.ec == repe::ErrorCode::ResourceExhausted as u32);
                if !case.check(ok && f.query == e.query, "wrong-error-code", || format!("WebSocketServer (off-reader cap {cap}): request {} ({}) answered ec {} query {:?}, model ec {ec}", r.id, r.what, f.ec, f.query_str())) {
                    return;
                }
                if f.ec == repe::ErrorCode::ResourceExhausted as u32 {
                    case.probe("saturation_reply_in_sequence");
                }
            }
        }
        // requests handled inline on one connection are answered in arrival order
        let inline_ids: Vec<u64> = reqs.iter().filter(|r| model(r).ec.is_some() && !(r.version == 1 && r.qfmt == 1 && OFF_READER_ROUTES.contains(&String::from_utf8_lossy(&r.query).as_ref()))).map(|r| r.id).collect();
        let got_inline: Vec<u64> = responses.iter().map(|f| f.id).filter(|id| inline_ids.contains(id)).collect();
        case.check(got_inline == inline_ids, "response-sequence", || format!("WebSocketServer inline responses came back as {got_inline:?}, arrival order was {inline_ids:?}"));
        if reqs.iter().any(|r| OFF_READER_ROUTES.contains(&r.what.as_str())) {
            case.probe("off_reader_route_in_sequence");
        }
        // the same sequence through the borrowed async-TCP path: same response fields
        let counters2 = Arc::new(Counters::default());
        let router2 = build_router(&counters2, n_mw, mw_first);
        let l2 = AsyncServer::listen("127.0.0.1:0").await.unwrap();
        let a2 = l2.local_addr().unwrap();
        let tcp = tokio::spawn(async move {
            let _ = AsyncServer::new(router2).serve(l2).await;
        });
        if let Some(tcp_responses) = tcp_pipeline(a2, &reqs, expect_n).await {
            for t in tcp_responses.iter().filter(|_| cap == 0) {
                if let Some(w) = responses.iter().find(|f| f.id == t.id) {
                    let same = w.ec == t.ec && w.query == t.query && w.query_format == t.query_format && w.body_format == t.body_format && w.body == t.body && w.version == t.version && w.notify == t.notify;
                    if !case.check(same, "transports-disagree", || {
                        let r = reqs.iter().find(|r| r.id == t.id);
                        format!("request {:?}: AsyncServer answered ec={} qf={} bf={} q={:?} body={:?}; WebSocketServer answered ec={} qf={} bf={} q={:?} body={:?}",
                            r.map(|r| (&r.what, r.version, r.qfmt, r.bfmt, String::from_utf8_lossy(&r.body).to_string())), t.ec, t.query_format, t.body_format, t.query_str(), String::from_utf8_lossy(&t.body),
                            w.ec, w.query_format, w.body_format, w.query_str(), String::from_utf8_lossy(&w.body))
                    }) {
                        break;
                    }
                }
            }
            case.probe("compared_with_async_tcp");
        }
        if reqs.len() >= 2 {
            case.nontrivial();
        }
        case.progress(responses.len() as u64, expect_n as u64);
        let _ = timeout(Duration::from_secs(2), futures_util::SinkExt::close(&mut sink)).await;
        let _ = timeout(Duration::from_secs(2), collector).await;
        srv.abort();
        tcp.abort();
        let _ = srv.await;
        let _ = tcp.await;
    });
}

/// Response body = pattern(id) of the requested length.
struct SizedBody {
    off_reader: bool,
}
impl HandlerErased for SizedBody {
    fn handle(&self, req: &Message) -> Result<Message, RepeError> {
        let v: Value = serde_json::from_slice(&req.body).unwrap_or(Value::Null);
        let n = v["n"].as_u64().unwrap_or(0) as usize;
        Ok(Message::builder().id(req.header.id).body_bytes(pattern(req.header.id, n)).body_format(BodyFormat::RawBinary).build())
    }
    fn execution(&self) -> Execution {
        if self.off_reader { Execution::OffReader } else { Execution::Inline }
    }
}

fn c05_ws_server(case: &Case) {
    let capacity = pick(&[256usize, 1024, 8192, 65_536]);
    net::reset(NetConfig { capacity, lat_min: 0, lat_max: pick(&[0u64, 200_000]), max_segment: pick(&[0usize, 0, 100]) });
    let n = range(1, 24) as usize;
    let big = simkernel::choose(4) == 0;
    // (kind, size): 0 inline response, 1 off-reader response, 2 pushed notify, 3 broadcast
    let ops: Vec<(u32, usize)> = (0..n).map(|_| (simkernel::choose(4), if big { pick(&[8191usize, 8192, 20_000, 70_000]) } else { pick(&[0usize, 1, 100, 1000, 3000]) })).collect();
    let stall_after = pick(&[0usize, 1, 3, 8]);
    let stall_ms = pick(&[0u64, 2, 10, 100, 1_000]);
    let out_cap = pick(&[4usize, 16, 256]);
    // an assumed peer frame limit (also tiny ones): replaced / dropped messages must still be whole frames
    let peer_limit: Option<usize> = pick(&[None, None, None, Some(100usize), Some(128), Some(160), Some(1024), Some(4096)]);
    case.sample(json!({"ops": ops, "capacity": capacity, "client_stalls_after_messages": stall_after, "stall_ms": stall_ms, "outbound_capacity": out_cap, "assumed_peer_frame_limit": peer_limit}));
    let case = case.clone();
    aio::run(&case.clone(), 3_600, async move {
        let reg = PeerRegistry::new();
        let reg2 = reg.clone();
        let router = Router::new()
            .with_erased_handler("/sized", Arc::new(SizedBody { off_reader: false }))
            .with_erased_handler("/sized_off", Arc::new(SizedBody { off_reader: true }))
            .with_json_ctx("/push", move |ctx, v: Value| {
                let n = v["n"].as_u64().unwrap_or(0) as usize;
                let tag = v["tag"].as_u64().unwrap_or(0);
                let body = pattern(tag, n);
                if v["broadcast"].as_bool().unwrap_or(false) {
                    let _ = reg2.broadcast_notify_raw(format!("/pushed/{tag}"), BodyFormat::RawBinary, &body);
                } else if let Some(p) = ctx.peer() {
                    let _ = p.send_notify(&format!("/pushed/{tag}"), NotifyBody::Raw(body, BodyFormat::RawBinary));
                }
                Ok(json!({"ok": true}))
            });
        let listener = WebSocketServer::listen("127.0.0.1:0").await.unwrap();
        let addr = listener.local_addr().unwrap();
        let server = WebSocketServer::new(router)
            .with_limits(repe::WebSocketLimits::default().with_assumed_peer_frame_limit(peer_limit))
            .on_error(|_e| {})
            .with_peer_registry(reg.clone())
            .with_outbound_capacity(out_cap)
            .with_offreader_limit(0);
        let srv = tokio::spawn(async move {
            let _ = server.serve_listener(listener, "/repe").await;
        });
        let Ok(ws) = raw_connect(addr, "/repe").await else {
            case.harness_error("handshake failed");
            return;
        };
        let cref = ws.get_ref().conn();
        let (mut sink, mut stream) = ws.split();
        // writer task: all requests pipelined
        let ops2 = ops.clone();
        let writer = tokio::spawn(async move {
            for (k, (kind, size)) in ops2.iter().enumerate() {
                let id = k as u64 + 1;
                let f = match kind {
                    0 => Frame::new(id, b"/sized", &serde_json::to_vec(&json!({"n": size})).unwrap()),
                    1 => Frame::new(id, b"/sized_off", &serde_json::to_vec(&json!({"n": size})).unwrap()),
                    2 => Frame::new(id, b"/push", &serde_json::to_vec(&json!({"n": size, "tag": 5000 + id})).unwrap()),
                    _ => Frame::new(id, b"/push", &serde_json::to_vec(&json!({"n": size, "tag": 5000 + id, "broadcast": true})).unwrap()),
                }
                .with_formats(1, 2);
                if timeout(Duration::from_secs(5), send_frame(&mut sink, &f)).await.is_err() {
                    break;
                }
            }
            sink
        });
        // reader: stalls once, then drains; every message is checked as it arrives
        let mut got = 0usize;
        let mut stalled = false;
        let mut quiet = 0;
        loop {
            if !stalled && got >= stall_after {
                stalled = true;
                case.probe("fault.stall_reader");
                sleep_ms(stall_ms).await;
            }
            match timeout(Duration::from_millis(400), stream.next()).await {
                Ok(Some(Ok(tokio_tungstenite::tungstenite::Message::Binary(b)))) => {
                    got += 1;
                    quiet = 0;
                    if b.len() < 48 {
                        case.fail("torn-or-merged-message", format!("binary message #{got} has {} bytes", b.len()));
                        break;
                    }
                    let mut f = Frame::parse_header(&b);
                    if !f.header_consistent() || f.length as usize != b.len() {
                        case.fail("torn-or-merged-message", format!("binary message #{got} of {} bytes is not exactly one REPE frame (declared length {})", b.len(), f.length));
                        break;
                    }
                    let q = f.query_length as usize;
                    f.query = b[48..48 + q].to_vec();
                    f.body = b[48 + q..].to_vec();
                    let qs = f.query_str();
                    let ok = if f.notify != 0 {
                        let tag: u64 = qs.rsplit('/').next().and_then(|s| s.parse().ok()).unwrap_or(0);
                        qs.starts_with("/pushed/") && is_pattern(tag, &f.body)
                    } else if f.ec != 0 {
                        // a response replaced by the outbound guard: any body, but a whole frame
                        peer_limit.is_some()
                    } else if qs == "/push" {
                        f.body == b"{\"ok\":true}"
                    } else {
                        (qs == "/sized" || qs == "/sized_off") && is_pattern(f.id, &f.body)
                    };
                    if !ok {
                        case.fail("interleaved", format!("message #{got} (id {} notify {} query {qs}) carries {} body bytes that are not its own", f.id, f.notify, f.body.len()));
                        break;
                    }
                }
                Ok(Some(Ok(_))) => {}
                Ok(Some(Err(_))) | Ok(None) => break,
                Err(_) => {
                    quiet += 1;
                    if quiet >= 3 {
                        break;
                    }
                }
            }
        }
        if got >= 2 {
            case.probe("multi_frame_stream");
        }
        let _ = net::unread_bytes(&cref, Side::B);
        case.nontrivial();
        if let Ok(Ok(mut sink)) = timeout(Duration::from_secs(10), writer).await {
            let _ = timeout(Duration::from_secs(2), futures_util::SinkExt::close(&mut sink)).await;
        }
        srv.abort();
        let _ = srv.await;
    });
}
