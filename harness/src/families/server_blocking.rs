//! C03 on the real blocking `Server` (thread per connection) over the simulated network.

use crate::codec::{Frame, read_frame, write_all_retry};
use crate::families::c03_common::{Counters, build_router, check_responses, draw_len, gen_requests, model, sanitize};
use crate::families::client_blocking::draw_net;
use crate::framework::{Case, Family, pick, range};
use repe::Server;
use serde_json::json;
use simkernel::net::{self, TcpListener, TcpStream};
use simkernel::sync::Arc;
use simkernel::thread;
use simkernel::time::Duration;
use std::io::ErrorKind;

pub fn families() -> Vec<Family> {
    vec![
        Family::new(
            "c05_server",
            "C05",
            "pipelined requests with large patterned echo bodies to the real blocking Server while the client stalls; server write timeouts; wire tap shape oracle on the response stream",
            c05_server,
        )
        .runs(6_000, 360_000)
        .steps(1_500_000),
        Family::new(
            "c03_server",
            "C03",
            "pipelined request sequences (every handler kind, format code, malformed bodies, notifies) to the real blocking Server vs. routing/dispatch model",
            c03_server,
        )
        .runs(6_000, 360_000)
        .steps(600_000),
    ]
}

/// Send `reqs` pipelined on one raw connection and collect the responses.
pub fn pipeline(addr: std::net::SocketAddr, reqs: &[crate::families::c03_common::Req], expect_n: usize, pace_ms: Option<u64>) -> Option<Vec<Frame>> {
    let s = TcpStream::connect(addr).ok()?;
    let mut w = s.try_clone().ok()?;
    let frames: Vec<Vec<u8>> = reqs.iter().map(|r| r.frame().encode()).collect();
    let writer = thread::spawn(move || {
        for f in frames {
            if write_all_retry(&mut w, &f).is_err() {
                return;
            }
            if let Some(ms) = pace_ms {
                thread::sleep(Duration::from_millis(ms));
            } else if simkernel::choose(4) == 0 {
                thread::sleep(Duration::from_micros(simkernel::choose(300) as u64));
            }
        }
    });
    let mut r = s.try_clone().ok()?;
    r.set_read_timeout(Some(Duration::from_millis(300))).ok();
    let mut out = Vec::new();
    // hold the connection open until every expected response arrived (bounded simulated time);
    // then wait a little longer for responses that must NOT come
    loop {
        match read_frame(&mut r) {
            Ok(Some(f)) => out.push(f),
            Ok(None) => break,
            Err(e) if e.kind() == ErrorKind::WouldBlock => {
                if out.len() >= expect_n || !writer.is_finished() && out.len() < expect_n {
                    if out.len() >= expect_n {
                        break;
                    }
                    continue;
                }
                break;
            }
            Err(_) => break,
        }
    }
    writer.join().ok();
    drop(s);
    Some(out)
}

/// A peer that stalls in the middle of a frame for longer than the server's read timeout and
/// then carries on as if nothing had happened. The rest of that frame is (on purpose) a
/// complete, valid frame for a registered route: a server that forgets it was in mid-frame
/// would dispatch it. Whatever the server does about the timeout, nothing may be answered
/// that was not asked as a whole frame, in order.
fn c03_midframe_stall(case: &Case) {
    net::set_config(simkernel::net::NetConfig { capacity: 1 << 20, lat_min: 0, lat_max: 0, max_segment: 0 });
    let counters = Arc::new(Counters::default());
    let router = build_router(&counters, 0, true);
    let listener = TcpListener::bind("127.0.0.1:0").unwrap();
    let addr = listener.local_addr().unwrap();
    let timeout_ms = pick(&[20u64, 50]);
    let stall_ms = pick(&[timeout_ms * 3 / 2, timeout_ms * 4]);
    let before = range(0, 3) as u64;
    case.sample(json!({"scenario": "peer stalls mid-frame past the read timeout", "read_timeout_ms": timeout_ms, "stall_ms": stall_ms, "whole_requests_before": before}));
    let server = thread::spawn(move || {
        let _ = Server::new(router).read_timeout(Some(Duration::from_millis(timeout_ms))).serve(listener);
    });
    let Ok(mut s) = TcpStream::connect(addr) else {
        case.harness_error("connect failed");
        return;
    };
    let mut r = s.try_clone().unwrap();
    r.set_read_timeout(Some(Duration::from_millis(stall_ms + 500))).ok();
    let mut sent_whole: Vec<u64> = Vec::new();
    for k in 0..before {
        let f = Frame::new(10 + k, b"/custom/plain", b"{\"k\":1}").with_formats(1, 2);
        let _ = write_all_retry(&mut s, &f.encode());
        sent_whole.push(10 + k);
    }
    // the straddling request: its body is 5 filler bytes followed by a complete frame
    let stowed = Frame::new(99, b"/custom/plain", b"{\"stowed\":true}").with_formats(1, 2).encode();
    let body = [b"12345".to_vec(), stowed].concat();
    let big = Frame::new(50, b"/custom/plain", &body).with_formats(1, 0).encode();
    let cut = 48 + "/custom/plain".len() + 5;
    let _ = write_all_retry(&mut s, &big[..cut]);
    thread::sleep(Duration::from_millis(stall_ms));
    simkernel::count("fault.peer_stalled_mid_frame_past_the_read_timeout");
    let _ = write_all_retry(&mut s, &big[cut..]);
    let after = Frame::new(60, b"/custom/plain", b"{\"k\":2}").with_formats(1, 2);
    let _ = write_all_retry(&mut s, &after.encode());
    let mut got: Vec<u64> = Vec::new();
    while let Ok(Some(f)) = read_frame(&mut r) {
        got.push(f.id);
    }
    // allowed: the whole requests before (in order); then either nothing more (connection
    // dropped at the timeout) or, had the timeout not fired, 50 and 60 in order
    let mut ok_a = sent_whole.clone();
    let is_prefix = |g: &Vec<u64>, of: &Vec<u64>| g.len() <= of.len() && of[..g.len()] == g[..];
    let with_rest = {
        ok_a.extend([50, 60]);
        ok_a
    };
    case.check(is_prefix(&got, &with_rest), "response-sequence", || format!("blocking Server, peer stalled {stall_ms} ms in mid-frame (read timeout {timeout_ms} ms): response ids {got:?}; whole requests were {with_rest:?} (99 is a frame stowed inside the body of 50)"));
    case.check(!got.contains(&99), "handler-invocations", || "a frame that was only ever the *body* of another request was dispatched and answered".into());
    case.nontrivial();
    drop(s);
    net::shutdown_all();
    server.join().ok();
}

fn c03_server(case: &Case) {
    net::reset(draw_net());
    if simkernel::choose(10) == 0 {
        return c03_midframe_stall(case);
    }
    let counters = Arc::new(Counters::default());
    let n_mw = range(0, 2);
    let router = build_router(&counters, n_mw, simkernel::choose(2) == 0);
    let listener = TcpListener::bind("127.0.0.1:0").unwrap();
    let addr = listener.local_addr().unwrap();
    // configured-but-generous timeouts: the timeout plumbing is in the path, nothing may fire
    let (mut rt, wt) = (pick(&[None, Some(Duration::from_secs(3_600))]), pick(&[None, Some(Duration::from_secs(3_600))]));
    // "paced": a short read timeout (50 ms) on a connection that is never idle that long -
    // one request every 10 ms on an instant network - but stays in use for longer than that
    let paced = simkernel::choose(5) == 0;
    if paced {
        rt = Some(Duration::from_millis(50));
        net::set_config(simkernel::net::NetConfig { capacity: 1 << 20, lat_min: 0, lat_max: 0, max_segment: 0 });
    }
    let server = thread::spawn(move || {
        let _ = Server::new(router).read_timeout(rt).write_timeout(wt).serve(listener);
    });
    let mut reqs = gen_requests(if paced { range(7, 16) as usize } else { draw_len() });
    sanitize(&mut reqs);
    let expect_n = reqs.iter().filter(|r| model(r).ec.is_some()).count();
    case.sample(json!({"middlewares": n_mw, "requests": reqs.iter().map(|r| format!("{}{} v{} q{} b{} {}B", if r.notify {"notify "} else {""}, r.what, r.version, r.qfmt, r.bfmt, r.body.len())).collect::<Vec<_>>()}));
    let Some(responses) = pipeline(addr, &reqs, expect_n, paced.then_some(10)) else {
        case.harness_error("connect failed");
        return;
    };
    // give notifies at the tail time to be dispatched before counting invocations
    thread::sleep(Duration::from_millis(50));
    check_responses(case, "blocking Server", &reqs, &responses, &counters, n_mw, true);
    if reqs.len() >= 2 {
        case.nontrivial();
    }
    case.progress(responses.len() as u64, expect_n as u64);
    net::shutdown_all();
    server.join().ok();
}

/// C05 on the blocking server: the response stream must stay whole frames whatever the
/// client does (stall, resume) and whatever write timeout is configured.
fn c05_server(case: &Case) {
    use crate::codec::pattern;
    use crate::families::client_blocking::check_tap;
    use crate::framework::pick;
    use simkernel::net::{NetConfig, Side};
    let capacity = pick(&[256usize, 1024, 8192, 65_536]);
    net::reset(NetConfig { capacity, lat_min: 0, lat_max: pick(&[0u64, 200_000]), max_segment: pick(&[0usize, 0, 100]) });
    let counters = Arc::new(Counters::default());
    let router = build_router(&counters, 0, true);
    let listener = TcpListener::bind("127.0.0.1:0").unwrap();
    let addr = listener.local_addr().unwrap();
    let write_timeout = if simkernel::choose(4) != 0 { Some(Duration::from_millis(pick(&[1u64, 5, 40]))) } else { None };
    let server = thread::spawn(move || {
        let _ = Server::new(router).write_timeout(write_timeout).serve(listener);
    });
    let n = range(1, 8) as u64;
    let big = simkernel::choose(3) == 0;
    let sizes: Vec<usize> = (0..n).map(|_| if big { pick(&[8191usize, 8192, 8193, 20_000, 40_000]) } else { pick(&[0usize, 1, 100, 1000, 3000]) }).collect();
    let stall_after = pick(&[0usize, 20, 48, 500, 9_000]);
    let between = write_timeout.map(|d| d.as_millis() as u64 * 3 / 2).unwrap_or(7).max(2); // between one and two write timeouts
    let stall_ms = pick(&[0u64, 2, 10, 100, 1_000, between, between]);
    case.sample(json!({"requests": n, "sizes": sizes, "capacity": capacity, "server_write_timeout_ms": write_timeout.map(|d| d.as_millis() as u64), "client_stalls_after_bytes": stall_after, "stall_ms": stall_ms}));
    let Ok(s) = TcpStream::connect(addr) else {
        case.harness_error("connect");
        return;
    };
    let mut w = s.try_clone().unwrap();
    let sz = sizes.clone();
    let writer = thread::spawn(move || {
        for (i, len) in sz.iter().enumerate() {
            let id = i as u64 + 1;
            let f = Frame::new(id, match simkernel::choose(6) { 0 | 1 => &b"/custom/ownecho"[..], 2 => &b"/custom/plainoff"[..], 3 => &b"/custom/pushy"[..], _ => &b"/custom/plain"[..] }, &pattern(id, *len));
            if write_all_retry(&mut w, &f.encode()).is_err() {
                return;
            }
        }
    });
    // reader: consume `stall_after` bytes, stall, then drain to EOF / quiet
    let mut r = s.try_clone().unwrap();
    r.set_read_timeout(Some(Duration::from_millis(300))).ok();
    let mut consumed = 0usize;
    let mut stalled = false;
    let mut buf = vec![0u8; 4096];
    let mut quiet = 0;
    loop {
        if !stalled && consumed >= stall_after {
            stalled = true;
            case.probe("fault.stall_reader");
            thread::sleep(Duration::from_millis(stall_ms));
        }
        let want = if stalled { buf.len() } else { (stall_after - consumed).clamp(1, buf.len()) };
        match std::io::Read::read(&mut r, &mut buf[..want]) {
            Ok(0) => break,
            Ok(k) => {
                consumed += k;
                quiet = 0;
            }
            Err(e) if e.kind() == ErrorKind::WouldBlock => {
                quiet += 1;
                if quiet >= 3 {
                    break;
                }
            }
            Err(e) if e.kind() == ErrorKind::Interrupted => {}
            Err(_) => break,
        }
    }
    writer.join().ok();
    let bytes = net::tap_of(&s.conn(), Side::B);
    let (frames, tail) = check_tap(case, "blocking Server", &bytes, |f| f.id);
    if tail > 0 {
        case.probe("torn_frame_on_wire");
    }
    if frames >= 2 {
        case.probe("multi_frame_stream");
    }
    case.nontrivial();
    drop(s);
    net::shutdown_all();
    server.join().ok();
}
