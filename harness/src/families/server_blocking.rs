//! C03 on the real blocking `Server` (thread per connection) over the simulated network.

use crate::codec::{Frame, read_frame, write_all_retry};
use crate::families::c03_common::{Counters, build_router, check_responses, draw_len, gen_requests, model, sanitize};
use crate::families::client_blocking::draw_net;
use crate::framework::{Case, Family, range};
use repe::Server;
use serde_json::json;
use simkernel::net::{self, TcpListener, TcpStream};
use simkernel::sync::Arc;
use simkernel::thread;
use simkernel::time::Duration;
use std::io::ErrorKind;

pub fn families() -> Vec<Family> {
    vec![
        Family::new(
            "c03_server",
            "C03",
            "pipelined request sequences (every handler kind, format code, malformed bodies, notifies) to the real blocking Server vs. routing/dispatch model",
            c03_server,
        )
        .runs(2_500, 100_000)
        .steps(600_000),
    ]
}

/// Send `reqs` pipelined on one raw connection and collect the responses.
pub fn pipeline(addr: std::net::SocketAddr, reqs: &[crate::families::c03_common::Req], expect_n: usize) -> Option<Vec<Frame>> {
    let s = TcpStream::connect(addr).ok()?;
    let mut w = s.try_clone().ok()?;
    let frames: Vec<Vec<u8>> = reqs.iter().map(|r| r.frame().encode()).collect();
    let writer = thread::spawn(move || {
        for f in frames {
            if write_all_retry(&mut w, &f).is_err() {
                return;
            }
            if simkernel::choose(4) == 0 {
                thread::sleep(Duration::from_micros(simkernel::choose(300) as u64));
            }
        }
    });
    let mut r = s.try_clone().ok()?;
    r.set_read_timeout(Some(Duration::from_millis(300))).ok();
    let mut out = Vec::new();
    // hold the connection open until every expected response arrived (bounded simulated time);
    // then wait a little longer for responses that must NOT come
    loop {
        match read_frame(&mut r) {
            Ok(Some(f)) => out.push(f),
            Ok(None) => break,
            Err(e) if e.kind() == ErrorKind::WouldBlock => {
                if out.len() >= expect_n || !writer.is_finished() && out.len() < expect_n {
                    if out.len() >= expect_n {
                        break;
                    }
                    continue;
                }
                break;
            }
            Err(_) => break,
        }
    }
    writer.join().ok();
    drop(s);
    Some(out)
}

fn c03_server(case: &Case) {
    net::reset(draw_net());
    let counters = Arc::new(Counters::default());
    let n_mw = range(0, 2);
    let router = build_router(&counters, n_mw, simkernel::choose(2) == 0);
    let listener = TcpListener::bind("127.0.0.1:0").unwrap();
    let addr = listener.local_addr().unwrap();
    let server = thread::spawn(move || {
        let _ = Server::new(router).serve(listener);
    });
    let mut reqs = gen_requests(draw_len());
    sanitize(&mut reqs);
    let expect_n = reqs.iter().filter(|r| model(r).ec.is_some()).count();
    case.sample(json!({"middlewares": n_mw, "requests": reqs.iter().map(|r| format!("{}{} v{} q{} b{} {}B", if r.notify {"notify "} else {""}, r.what, r.version, r.qfmt, r.bfmt, r.body.len())).collect::<Vec<_>>()}));
    let Some(responses) = pipeline(addr, &reqs, expect_n) else {
        case.harness_error("connect failed");
        return;
    };
    // give notifies at the tail time to be dispatched before counting invocations
    thread::sleep(Duration::from_millis(50));
    check_responses(case, "blocking Server", &reqs, &responses, &counters, n_mw, true);
    if reqs.len() >= 2 {
        case.nontrivial();
    }
    case.progress(responses.len() as u64, expect_n as u64);
    net::shutdown_all();
    server.join().ok();
}
