//! C03 / C04 / C05 / C06 on the real tokio endpoints (`AsyncClient`, `AsyncServer`) over the
//! async face of the simulated network, on a paused-clock current-thread runtime.

use crate::codec::{Frame, pattern, split_stream};
use crate::families::aio::{self, CancelAfter, FrameReader, jitter, sleep_ms, sleep_us};
use crate::families::c03_common::{Counters, Req, build_router, check_responses, draw_len, gen_requests, model, sanitize};
use crate::families::client_blocking::{check_tap, draw_net};
use crate::framework::{Case, Family, coin, pick, range};
use repe::{AsyncClient, AsyncServer, Message};
use serde_json::{Value, json};
use simkernel::net::{self, NetConfig, Side};
use simkernel::tokio_net::{TcpListener, TcpStream};
use std::sync::Arc;
use std::sync::atomic::{AtomicBool, AtomicU64, Ordering};
use std::time::Duration;
use tokio::io::AsyncWriteExt;
use tokio::time::timeout;

pub fn families() -> Vec<Family> {
    vec![
        Family::new(
            "c04_async_client",
            "C04",
            "1-64 concurrent tasks/batches on one AsyncClient vs. scripted server replying in seeded order with unknown-id and duplicate frames",
            c04_async_client,
        )
        .runs(30_000, 1_800_000)
        .tokio(),
        Family::new(
            "c06_async_client",
            "C06",
            "AsyncClient with 0-16 calls in flight; server closes/resets/sends malformed frames at every protocol step; timeouts racing responses; cancellation at every await point",
            c06_async_client,
        )
        .runs(100_000, 6_000_000)
        .tokio(),
        Family::new(
            "c05_async_client",
            "C05",
            "up to 32 concurrent writers on one AsyncClient, tiny socket buffers, stalled reader, callers abandoning a call mid-send (drop at poll k / enclosing timeout); wire tap shape oracle",
            c05_async_client,
        )
        .runs(60_000, 3_600_000)
        .tokio(),
        Family::new(
            "c05_async_server",
            "C05",
            "pipelined requests with large patterned echo bodies to the real AsyncServer while the client stalls; server write timeouts; wire tap shape oracle on the response stream",
            c05_async_server,
        )
        .runs(80_000, 4_800_000)
        .tokio(),
        Family::new(
            "c03_async_server",
            "C03",
            "pipelined request sequences (every handler kind, format code, malformed bodies, notifies) to the real AsyncServer vs. routing/dispatch model",
            c03_async_server,
        )
        .runs(80_000, 4_800_000)
        .tokio(),
    ]
}

fn token_value(t: u64) -> Value {
    json!({"t": t})
}

#[derive(Clone, Copy, Debug)]
pub enum CallKind {
    Json,
    TypedJson,
    TypedBeve,
    TypedSlice(usize),
    Raw(usize),
    Empty,
}

pub fn draw_kind() -> CallKind {
    match simkernel::choose(8) {
        0 | 1 => CallKind::Json,
        2 => CallKind::TypedJson,
        3 => CallKind::Empty,
        4 => CallKind::TypedBeve,
        5 => CallKind::TypedSlice(pick(&[0usize, 1, 3, 600])),
        _ => CallKind::Raw(pick(&[0usize, 1, 47, 48, 49, 300, 5000])),
    }
}

/// One call through one of the client's public entry points; Ok(()) iff the reply is this
/// call's own.
pub async fn do_call(client: &AsyncClient, kind: CallKind, token: u64, to: Option<Duration>) -> Result<(), String> {
    let path = format!("/echo/{token}");
    match kind {
        CallKind::Json => {
            let r = match to {
                Some(d) => client.call_json_with_timeout(&path, &token_value(token), d).await,
                None => client.call_json(&path, &token_value(token)).await,
            };
            match r {
                Ok(v) if v == token_value(token) => Ok(()),
                Ok(v) => Err(format!("WRONG-RESPONSE call {token} got {v}")),
                Err(e) => Err(format!("error: {e}")),
            }
        }
        CallKind::TypedJson => {
            let r: Result<Value, _> = match to {
                Some(d) => client.call_typed_json_with_timeout(&path, &token_value(token), d).await,
                None => client.call_typed_json(&path, &token_value(token)).await,
            };
            match r {
                Ok(v) if v == token_value(token) => Ok(()),
                Ok(v) => Err(format!("WRONG-RESPONSE call {token} got {v}")),
                Err(e) => Err(format!("error: {e}")),
            }
        }
        CallKind::TypedBeve => {
            let body = (token, format!("tok-{token}"));
            let r: Result<(u64, String), _> = match to {
                Some(d) => client.call_typed_beve_with_timeout(&path, &body, d).await,
                None => client.call_typed_beve(&path, &body).await,
            };
            match r {
                Ok(v) if v == body => Ok(()),
                Ok(v) => Err(format!("WRONG-RESPONSE call {token} got {v:?}")),
                Err(e) => Err(format!("error: {e}")),
            }
        }
        CallKind::TypedSlice(n) => {
            let body: Vec<f64> = (0..n).map(|i| token as f64 + i as f64 / 8.0).collect();
            let r: Result<Vec<f64>, _> = match to {
                Some(d) => client.call_typed_slice_with_timeout(&path, &body, d).await,
                None => client.call_typed_slice(&path, &body).await,
            };
            match r {
                Ok(v) if v == body => Ok(()),
                Ok(v) => Err(format!("WRONG-RESPONSE call {token} got a slice of {} (first {:?})", v.len(), v.first())),
                Err(e) => Err(format!("error: {e}")),
            }
        }
        CallKind::Raw(len) => {
            let body = pattern(token, len);
            let r = match to {
                Some(d) => client.call_with_formats_and_timeout(&path, 1, Some(&body), 0, d).await,
                None => client.call_with_formats(&path, 1, Some(&body), 0).await,
            };
            match r {
                Ok(m) if m.body == body && m.query == path.as_bytes() => Ok(()),
                Ok(m) => Err(format!("WRONG-RESPONSE call {token} got query {:?} body len {}", String::from_utf8_lossy(&m.query), m.body.len())),
                Err(e) => Err(format!("error: {e}")),
            }
        }
        CallKind::Empty => {
            let r = match to {
                Some(d) => client.call_message_with_timeout(&path, d).await,
                None => client.call_message(&path).await,
            };
            match r {
                Ok(m) if m.query == path.as_bytes() && m.body.is_empty() => Ok(()),
                Ok(m) => Err(format!("WRONG-RESPONSE call {token} got query {:?}", String::from_utf8_lossy(&m.query))),
                Err(e) => Err(format!("error: {e}")),
            }
        }
    }
}

fn echo_of(req: &Frame) -> Frame {
    let mut f = Frame::new(req.id, &req.query, &req.body);
    f.query_format = req.query_format;
    f.body_format = req.body_format;
    f
}

// =========================================================================== C04

fn c04_async_client(case: &Case) {
    net::reset(draw_net());
    let ncallers = pick(&[1u32, 2, 2, 3, 3, 4, 4, 5, 6, 6, 8, 16, 32, 64]);
    let calls_each = if ncallers > 8 { 1 } else { range(1, 2) };
    let with_batch = simkernel::choose(3) == 0;
    let batch_n = if with_batch { pick(&[1u32, 2, 5, 9, 20, 20, 64, 65, 70, 130]) } else { 0 };
    let window = range(1, 6.min(ncallers + batch_n.min(4)).max(1)) as usize;
    let inject_unknown = pick(&[0u32, 0, 20, 50]);
    let inject_dup = pick(&[0u32, 0, 20, 50]);
    let n_forwards = pick(&[0u32, 0, 1, 2, 4]);
    case.sample(json!({"callers": ncallers, "calls_each": calls_each, "batch": batch_n, "server_window": window,
        "inject_unknown_pct": inject_unknown, "inject_dup_pct": inject_dup, "forwarded_messages": n_forwards}));
    let case = case.clone();
    aio::run(&case.clone(), 3_600, async move {
        let listener = TcpListener::bind("127.0.0.1:0").await.unwrap();
        let addr = listener.local_addr().unwrap();
        let srv_case = case.clone();
        let server = tokio::spawn(async move {
            let Ok((s, _)) = listener.accept().await else { return };
            let (rd, mut wr) = s.into_split();
            let mut fr = FrameReader::new(rd);
            let mut outstanding: Vec<Frame> = Vec::new();
            let mut seen_ids = std::collections::BTreeSet::new();
            let mut answered: Vec<Frame> = Vec::new();
            let mut eof = false;
            let mut permuted = false;
            loop {
                while !eof && outstanding.len() < window {
                    match timeout(Duration::from_millis(20), fr.next()).await {
                        Ok(Ok(Some(f))) => {
                            // ids the client mints itself are never reused; a forwarded message
                            // carries its caller's id, which must at least not collide with a
                            // request that is still outstanding
                            let forwarded = f.query_str().starts_with("/fwd/");
                            if !seen_ids.insert(f.id) && !forwarded {
                                // (forwards reuse their caller's id legitimately once the earlier one completed)
                                srv_case.fail("duplicate-request-id", format!("request id {} issued twice on one connection", f.id));
                            }
                            if outstanding.iter().any(|o: &Frame| o.id == f.id) {
                                srv_case.fail("duplicate-request-id", format!("request id {} is on the wire twice at the same time", f.id));
                            }
                            if f.notify != 0 {
                                continue;
                            }
                            outstanding.push(f);
                        }
                        Ok(Ok(None)) | Ok(Err(_)) => eof = true,
                        Err(_) => break,
                    }
                }
                if outstanding.is_empty() {
                    if eof {
                        break;
                    }
                    continue;
                }
                let i = simkernel::choose(outstanding.len() as u32) as usize;
                if i != 0 {
                    permuted = true;
                }
                let req = outstanding.remove(i);
                if simkernel::choose(100) < inject_unknown {
                    srv_case.probe("fault.unknown_id_frame");
                    let f = Frame::new((1u64 << 40) + req.id, b"/nobody", b"{\"t\":0}").with_formats(1, 2);
                    if aio::write_all(&mut wr, &f.encode()).await.is_err() {
                        break;
                    }
                }
                // (a duplicate of a forwarded message's response would be indistinguishable
                // from the response to a later forward that legitimately reuses that id)
                if simkernel::choose(100) < inject_dup
                    && let Some(prev) = answered.last()
                    && !prev.query_str().starts_with("/fwd/")
                {
                    srv_case.probe("fault.duplicate_response");
                    if aio::write_all(&mut wr, &echo_of(prev).encode()).await.is_err() {
                        break;
                    }
                }
                if aio::write_all(&mut wr, &echo_of(&req).encode()).await.is_err() {
                    break;
                }
                answered.push(req);
            }
            if permuted {
                srv_case.probe("replies_out_of_arrival_order");
            }
            if answered.len() <= 6 && !answered.is_empty() {
                // which of the k! reply orders this run exercised (arrival rank of each answered request)
                let mut arrival: Vec<u64> = seen_ids.iter().copied().filter(|id| answered.iter().any(|a: &Frame| a.id == *id)).collect();
                arrival.sort();
                let perm: Vec<String> = answered.iter().map(|a| arrival.iter().position(|x| *x == a.id).unwrap_or(9).to_string()).collect();
                srv_case.cover("reply_order(k<=6; 1+2+6+24+120+720=873 orders)", format!("{}:{}", answered.len(), perm.join("")));
            }
        });

        let client = match AsyncClient::connect(addr).await {
            Ok(c) => c,
            Err(e) => {
                case.harness_error(format!("connect failed: {e}"));
                return;
            }
        };
        let mut hs = Vec::new();
        let mut token = 0u64;
        for _ in 0..ncallers {
            let c = client.clone();
            let case = case.clone();
            let plan: Vec<(CallKind, u64)> = (0..calls_each)
                .map(|_| {
                    token += 1;
                    (draw_kind(), token)
                })
                .collect();
            hs.push(tokio::spawn(async move {
                for (kind, t) in plan {
                    jitter().await;
                    if let Err(e) = do_call(&c, kind, t, None).await {
                        let class = if e.starts_with("WRONG-RESPONSE") { "wrong-response" } else { "call-failed-without-fault" };
                        case.fail(class, e);
                    }
                }
            }));
        }
        // forwarded messages carry caller-chosen ids: some far away from the client's own
        // counter, some colliding with ids that are probably in flight right now. A colliding
        // forward may be refused; it must never disturb anybody else.
        for k in 0..n_forwards {
            let c = client.clone();
            let case = case.clone();
            // ids far away from the client's own counter; pairs of forwards share an id
            let collide = n_forwards >= 2;
            let id = (1u64 << 33) + (k / 2) as u64;
            hs.push(tokio::spawn(async move {
                jitter().await;
                let body = serde_json::to_vec(&json!({"fwd": k})).unwrap();
                let msg = repe::Message::builder().id(id).query_str(&format!("/fwd/{k}")).body_bytes(body.clone()).body_format_code(2).build();
                match c.forward_message(&msg).await {
                    Ok(Some(m)) => {
                        case.probe("forwarded_message_answered");
                        case.check(m.header.id == id && m.body == body && m.query == format!("/fwd/{k}").as_bytes(), "wrong-response", || {
                            format!("forward_message(id {id}) got id {} query {:?} body {:?}", m.header.id, String::from_utf8_lossy(&m.query), String::from_utf8_lossy(&m.body))
                        });
                    }
                    Ok(None) => case.fail("wrong-response", format!("forward_message(id {id}) of a request returned no response")),
                    Err(e) => {
                        // the only acceptable failure: refused because that id is in flight
                        if collide && e.to_string().contains("already pending") {
                            case.probe("colliding_forward_refused");
                        } else {
                            case.fail("call-failed-without-fault", format!("forward_message(id {id}) failed: {e}"));
                        }
                    }
                }
            }));
        }
        if batch_n > 0 {
            let reqs: Vec<(String, Value)> = (0..batch_n)
                .map(|i| {
                    token += 1;
                    (format!("/echo/b{i}"), token_value(token))
                })
                .collect();
            let expect: Vec<Value> = reqs.iter().map(|r| r.1.clone()).collect();
            let c = client.clone();
            let case = case.clone();
            hs.push(tokio::spawn(async move {
                jitter().await;
                let out = if simkernel::choose(2) == 0 { c.batch_json(reqs).await } else { c.batch_json_with_timeout(reqs, Duration::from_secs(3_600)).await };
                if out.len() != expect.len() {
                    case.fail("batch-misaligned", format!("batch of {} returned {} results", expect.len(), out.len()));
                    return;
                }
                for (i, (got, want)) in out.iter().zip(expect.iter()).enumerate() {
                    match got {
                        Ok(v) if v == want => {}
                        Ok(v) => case.fail("batch-misaligned", format!("batch slot {i}: got {v}, want {want}")),
                        Err(e) => case.fail("call-failed-without-fault", format!("batch slot {i}: {e}")),
                    }
                }
            }));
        }
        for h in hs {
            if let Err(e) = h.await
                && e.is_panic()
            {
                case.fail("panic", format!("caller task panicked: {e}"));
            }
        }
        case.check(client.verif_pending_len() == 0, "pending-residue", || {
            format!("{} pending entries after all calls returned", client.verif_pending_len())
        });
        drop(client);
        let _ = server.await;
        if ncallers + batch_n >= 2 {
            case.nontrivial();
        }
    });
}

// =========================================================================== C06

#[derive(Clone, Copy, Debug, PartialEq)]
enum Kill {
    Close,
    Reset,
    Malformed(u8),
    Partial(u8),
}

fn malformed_header(kind: u8, id: u64) -> Vec<u8> {
    let mut f = Frame::new(id, b"/x", b"abc");
    match kind % 6 {
        0 => f.spec = 0x1234,
        1 => f.length = 48,
        2 => f.length += 1,
        3 => {
            f.query_length = u64::MAX;
            f.length = 47 + 3;
        }
        4 => {
            f.body_length = 1 << 62;
            f.length = 48 + 2 + (1u64 << 62);
        }
        _ => {
            f.query_length = u64::MAX - 10;
            f.body_length = 20;
            f.length = 57;
        }
    }
    let mut b = f.header_bytes();
    b.extend_from_slice(b"/xabc");
    b
}

fn c06_async_client(case: &Case) {
    net::reset(draw_net());
    if simkernel::choose(8) == 0 {
        return c06_stall_then_silent(case);
    }
    if simkernel::choose(6) == 0 {
        return c06_timeout_with_held_siblings(case);
    }
    if simkernel::choose(8) == 0 {
        return c06_cancel_queued(case);
    }
    if simkernel::choose(10) == 0 {
        return c06_batch_timeout(case);
    }
    match simkernel::choose(4) {
        0 | 1 => c06_fault(case),
        2 => c06_timeout_race(case),
        _ => c06_cancel(case),
    }
}

/// A batch with a timeout in which one entry is never answered in time: the results stay
/// aligned, and the timed-out entry leaves nothing behind - no pending entry, no worker that
/// keeps the connection alive after the last handle is dropped, no taker for its late reply.
fn c06_batch_timeout(case: &Case) {
    let n = range(2, 6) as usize;
    let slow = simkernel::choose(n as u32) as usize;
    let timeout_ms = pick(&[5u64, 20, 100]);
    let late_reply = coin();
    case.sample(json!({"scenario": "batch-with-timeout", "entries": n, "slow_entry": slow, "timeout_ms": timeout_ms, "late_reply_for_the_slow_entry": late_reply}));
    net::set_config(NetConfig { capacity: 65_536, lat_min: 0, lat_max: pick(&[0u64, 50_000]), max_segment: 0 });
    let case = case.clone();
    aio::run(&case.clone(), 3_600, async move {
        let listener = TcpListener::bind("127.0.0.1:0").await.unwrap();
        let addr = listener.local_addr().unwrap();
        let saw_eof = Arc::new(AtomicBool::new(false));
        let saw_eof2 = saw_eof.clone();
        // answers everything at once except "/echo/victim", whose reply comes 300 ms late (or never)
        let hold = move |arrive: u64| arrive + 300_000_000;
        let srv_case = case.clone();
        let server = tokio::spawn(async move {
            victim_server(listener, srv_case, hold, late_reply).await;
            saw_eof2.store(true, Ordering::SeqCst);
        });
        let client = match AsyncClient::connect(addr).await {
            Ok(c) => c,
            Err(e) => {
                case.harness_error(format!("connect failed: {e}"));
                return;
            }
        };
        let reqs: Vec<(String, Value)> = (0..n).map(|i| (if i == slow { "/echo/victim".to_string() } else { format!("/echo/b{i}") }, token_value(500 + i as u64))).collect();
        let out = client.batch_json_with_timeout(reqs, Duration::from_millis(timeout_ms)).await;
        case.check(out.len() == n, "batch-misaligned", || format!("batch of {n} returned {} results", out.len()));
        for (i, r) in out.iter().enumerate() {
            if i == slow {
                case.check(r.is_err(), "ok-without-response", || format!("the slow entry {i} was not answered within {timeout_ms} ms but returned Ok"));
            } else {
                case.check(matches!(r, Ok(v) if *v == token_value(500 + i as u64)), "unrelated-call-failed", || format!("batch entry {i} next to a timed-out entry: {:?}", r.as_ref().map(|v| v.to_string()).map_err(|e| e.to_string())));
            }
        }
        case.check(client.verif_pending_len() == 0, "pending-residue", || format!("{} pending entries right after a batch whose entry {slow} timed out", client.verif_pending_len()));
        // the late reply (if any) arrives now: nobody may take it, and other calls keep working
        sleep_ms(400).await;
        if let Err(e) = do_call(&client, CallKind::Json, 777, None).await {
            case.fail("unrelated-call-failed", format!("call after a batch with a timed-out entry: {e}"));
        }
        case.check(client.verif_pending_len() == 0, "pending-residue", || format!("{} pending entries after the late reply", client.verif_pending_len()));
        // the last handle goes: the connection must go with it
        drop(client);
        let eof = saw_eof.clone();
        let closed = timeout(Duration::from_secs(30), async move {
            while !eof.load(Ordering::SeqCst) {
                sleep_ms(1).await;
            }
        })
        .await
        .is_ok();
        case.check(closed, "connection-kept-alive", || "every client handle was dropped after a batch with a timed-out entry, but the peer saw no end-of-stream within 30 s (something still holds the connection)".into());
        server.abort();
        case.probe("batch_entry_timed_out");
        case.nontrivial();
    });
}

/// A call is abandoned while it is still *queued behind* a sibling whose large request is
/// parked in back-pressure (the server is not reading yet): not one byte of the abandoned
/// call ever reached the wire, so once the server reads on, the sibling and every later call
/// must complete.
fn c06_cancel_queued(case: &Case) {
    let big = pick(&[200_000usize, 600_000]);
    let stall_ms = pick(&[20u64, 200]);
    let n_victims = range(1, 3);
    let cancel_polls = range(1, 4);
    case.sample(json!({"scenario": "cancel-while-queued-for-the-writer", "sibling_request_bytes": big, "server_starts_reading_after_ms": stall_ms, "victims": n_victims, "cancel_at_poll": cancel_polls}));
    net::set_config(NetConfig { capacity: pick(&[8_192usize, 65_536]), lat_min: 0, lat_max: pick(&[0u64, 50_000]), max_segment: 0 });
    let case = case.clone();
    aio::run(&case.clone(), 3_600, async move {
        let listener = TcpListener::bind("127.0.0.1:0").await.unwrap();
        let addr = listener.local_addr().unwrap();
        let server = tokio::spawn(async move {
            let Ok((s, _)) = listener.accept().await else { return };
            let (rd, mut wr) = s.into_split();
            sleep_ms(stall_ms).await;
            let mut fr = FrameReader::new(rd);
            while let Ok(Some(f)) = fr.next().await {
                if aio::write_all(&mut wr, &echo_of(&f).encode()).await.is_err() {
                    return;
                }
            }
        });
        let client = match AsyncClient::connect(addr).await {
            Ok(c) => c,
            Err(e) => {
                case.harness_error(format!("connect failed: {e}"));
                return;
            }
        };
        let conn = net::connections().last().cloned();
        let c2 = client.clone();
        let sibling = tokio::spawn(async move { do_call(&c2, CallKind::Raw(big), 1, None).await });
        // wait until the sibling's frame is partly on the wire: it holds the writer and is parked
        let mut parked = false;
        for _ in 0..stall_ms.saturating_sub(2).min(10) {
            sleep_ms(1).await;
            let on_wire = conn.as_ref().map(|c| net::tap_of(c, Side::A).len()).unwrap_or(0);
            if on_wire > 0 && on_wire < big {
                parked = true;
                break;
            }
        }
        if !parked {
            let _ = sibling.await;
            return;
        }
        for _ in 0..n_victims {
            let call = client.call_with_formats("/echo/victim", 1, Some(b"victim-body"), 0);
            let out = timeout(Duration::from_millis(1), CancelAfter::new(call, cancel_polls)).await.ok().flatten();
            case.check(out.is_none(), "harness", || "a call queued behind a parked write completed".into());
        }
        let on_wire = conn.as_ref().map(|c| net::tap_of(c, Side::A).len()).unwrap_or(0);
        if on_wire >= big {
            // the sibling got through meanwhile: the victims may have held the writer after all
            let _ = sibling.await;
            return;
        }
        case.probe("call_cancelled_while_queued_for_the_writer");
        match timeout(Duration::from_secs(120), sibling).await {
            Err(_) => case.fail("hang", "the call whose write was parked never returned"),
            Ok(Ok(Err(e))) => case.fail(if e.starts_with("WRONG-RESPONSE") { "wrong-response" } else { "unrelated-call-failed" }, format!("sibling of a call cancelled before it wrote anything: {e}")),
            Ok(Err(e)) => case.fail("panic", format!("caller task failed: {e}")),
            Ok(Ok(Ok(()))) => {}
        }
        match timeout(Duration::from_secs(120), do_call(&client, CallKind::Json, 777, None)).await {
            Err(_) => case.fail("hang", "a call after a cancelled call never returned"),
            Ok(Err(e)) => case.fail(if e.starts_with("WRONG-RESPONSE") { "wrong-response" } else { "unrelated-call-failed" }, format!("call after a call that was cancelled before it wrote anything: {e}")),
            Ok(Ok(())) => {}
        }
        let wire = conn.as_ref().map(|c| split_stream(&net::tap_of(c, Side::A))).unwrap();
        case.check(!wire.frames.iter().any(|f| f.query_str().ends_with("/victim")), "cancelled-call-sent", || "a call abandoned while queued for the writer was written anyway".into());
        case.check(client.verif_pending_len() == 0, "pending-residue", || format!("{} pending entries after cancellation", client.verif_pending_len()));
        drop(client);
        let _ = server.await;
        case.nontrivial();
    });
}

fn c06_fault(case: &Case) {
    let n_inflight = pick(&[0u32, 1, 1, 2, 3, 4, 8, 16]);
    let kill = match simkernel::choose(8) {
        0 | 1 => Kill::Close,
        2 | 3 => Kill::Reset,
        4 | 5 => Kill::Malformed(simkernel::choose(6) as u8),
        _ => Kill::Partial(simkernel::choose(5) as u8),
    };
    let read_first = if n_inflight == 0 { 0 } else { simkernel::choose(n_inflight + 1) };
    let answer_first = if read_first > 0 { simkernel::choose(read_first + 1) } else { 0 };
    let with_timeouts = coin();
    let call_timeout = Duration::from_millis(pick(&[50u64, 200, 1000]));
    let pre_kill_us = pick(&[0u64, 100, 5_000]);
    // the malformed header arrives from a peer that has stopped reading while a caller with a
    // large request is parked in its write: the calls in flight must fail all the same
    let peer_stops_reading = matches!(kill, Kill::Malformed(_)) && simkernel::choose(3) == 0;
    case.sample(json!({"scenario": "connection-fault", "in_flight": n_inflight, "kill": format!("{kill:?}"),
        "server_reads": read_first, "server_answers": answer_first, "per_call_timeouts": with_timeouts, "peer_stops_reading": peer_stops_reading}));
    let case = case.clone();
    aio::run(&case.clone(), 3_600, async move {
        let listener = TcpListener::bind("127.0.0.1:0").await.unwrap();
        let addr = listener.local_addr().unwrap();
        let srv_case = case.clone();
        let server = tokio::spawn(async move {
            let Ok((s, _)) = listener.accept().await else { return };
            let conn = s.conn();
            let (rd, mut wr) = s.into_split();
            let mut fr = FrameReader::new(rd);
            let mut got: Vec<Frame> = Vec::new();
            while (got.len() as u32) < read_first {
                match timeout(Duration::from_millis(30), fr.next()).await {
                    Ok(Ok(Some(f))) => got.push(f),
                    _ => break,
                }
            }
            for f in got.iter().take(answer_first as usize) {
                if aio::write_all(&mut wr, &echo_of(f).encode()).await.is_err() {
                    return;
                }
            }
            // the peer keeps draining what the client writes - unless this is the run where it
            // stops reading for good
            if peer_stops_reading {
                net::set_capacity(&conn, Side::A, 2048);
            }
            let drainer = tokio::spawn(async move {
                if peer_stops_reading {
                    let _keep_open = fr;
                    sleep_ms(700_000).await;
                    return;
                }
                loop {
                    match timeout(Duration::from_millis(500), fr.drain_some(4096)).await {
                        Ok(Ok(n)) if n > 0 => {}
                        _ => break,
                    }
                }
            });
            sleep_us(pre_kill_us).await;
            match kill {
                Kill::Close => {
                    srv_case.probe("fault.close_fin");
                    let _ = wr.shutdown().await;
                }
                Kill::Reset => net::reset_conn(&conn),
                Kill::Malformed(k) => {
                    srv_case.probe("fault.malformed_header");
                    let id = got.last().map(|f| f.id).unwrap_or(1);
                    let _ = aio::write_all(&mut wr, &malformed_header(k, id)).await;
                    // keep the socket open (ten minutes): the client must fail on the bytes alone
                    sleep_ms(600_000).await;
                }
                Kill::Partial(class) => {
                    srv_case.probe("fault.cut_mid_frame");
                    let req = got.last().cloned().unwrap_or_else(|| Frame::new(1, b"/x", b"0123456789"));
                    let bytes = echo_of(&req).encode();
                    let cut = match class % 5 {
                        0 => 1,
                        1 => 47,
                        2 => 48.min(bytes.len() - 1),
                        3 => (48 + req.query.len()).min(bytes.len() - 1),
                        _ => bytes.len() - 1,
                    }
                    .max(1);
                    let _ = aio::write_all(&mut wr, &bytes[..cut]).await;
                    let _ = wr.shutdown().await;
                }
            }
            // after a FIN (clean or in mid-frame) the peer keeps the socket open too:
            // end-of-stream alone must fail the calls
            if matches!(kill, Kill::Close | Kill::Partial(_)) {
                sleep_ms(600_000).await;
            }
            let _ = drainer.await;
            drop(wr);
        });

        let client = match AsyncClient::connect(addr).await {
            Ok(c) => c,
            Err(e) => {
                case.harness_error(format!("connect failed: {e}"));
                return;
            }
        };
        let mut hs = Vec::new();
        for t in 1..=n_inflight as u64 {
            let c = client.clone();
            let to = if with_timeouts && t % 2 == 0 { Some(call_timeout) } else { None };
            hs.push(tokio::spawn(async move { (t, do_call(&c, CallKind::Json, t, to).await) }));
        }
        if peer_stops_reading {
            // one more caller whose request cannot fit into the socket: it parks in its write
            let c = client.clone();
            hs.push(tokio::spawn(async move { (99, do_call(&c, CallKind::Raw(40_000), 99, None).await) }));
            case.probe("writer_parked_when_malformed_frame_arrived");
        }
        let mut oks = 0u32;
        for h in hs {
            match timeout(Duration::from_secs(120), h).await {
                Err(_) => {
                    case.fail("hang", format!("a call in flight when the connection failed ({kill:?}) had not returned two minutes later"));
                    return;
                }
                Ok(Ok((t, Err(e)))) if e.starts_with("WRONG-RESPONSE") => case.fail("wrong-response", format!("call {t}: {e}")),
                Ok(Ok((_, Ok(())))) => oks += 1,
                Ok(Ok(_)) => {}
                Ok(Err(e)) => case.fail("panic", format!("caller task failed: {e}")),
            }
        }
        case.check(oks <= answer_first, "ok-without-response", || {
            format!("{oks} calls returned Ok but the server answered only {answer_first}")
        });
        sleep_ms(3_000).await;
        let Ok(later) = timeout(Duration::from_secs(120), do_call(&client, CallKind::Json, 1000, if coin() { Some(call_timeout) } else { None })).await else {
            case.fail("hang", format!("a call made after the connection failed ({kill:?}) had not returned two minutes later"));
            return;
        };
        case.check(later.is_err(), "call-on-dead-connection-succeeded", || "a call after the connection failed returned Ok".into());
        let Ok(later2) = timeout(Duration::from_secs(120), do_call(&client, CallKind::Empty, 1001, None)).await else {
            case.fail("hang", format!("a second call made after the connection failed ({kill:?}) had not returned two minutes later"));
            return;
        };
        case.check(later2.is_err(), "call-on-dead-connection-succeeded", || "a second call after the connection failed returned Ok".into());
        case.check(client.verif_pending_len() == 0, "pending-residue", || {
            format!("{} pending entries left after the connection failed", client.verif_pending_len())
        });
        drop(client);
        let _ = timeout(Duration::from_secs(10), server).await;
        case.nontrivial();
        if n_inflight > 0 {
            case.probe("calls_in_flight_at_fault");
        }
    });
}

/// Scripted echo server that holds back the response to "/echo/victim" until `due(arrival)`.
async fn victim_server(listener: TcpListener, case: Case, hold_ns: impl Fn(u64) -> u64 + Send + 'static, answer_victim: bool) {
    let Ok((s, _)) = listener.accept().await else { return };
    let (rd, mut wr) = s.into_split();
    let mut fr = FrameReader::new(rd);
    let mut held: Option<(Frame, u64)> = None;
    loop {
        let now = simkernel::now_ns();
        if let Some((_, due)) = &held
            && now >= *due
        {
            let (f, due) = held.take().unwrap();
            if now > due {
                case.probe("late_response_sent");
            }
            if answer_victim && aio::write_all(&mut wr, &echo_of(&f).encode()).await.is_err() {
                return;
            }
            continue;
        }
        let next = match &held {
            Some((_, due)) => match timeout(Duration::from_nanos(due - now), fr.next()).await {
                Ok(r) => r,
                Err(_) => continue,
            },
            None => fr.next().await,
        };
        match next {
            Ok(Some(f)) => {
                if f.query_str().ends_with("/victim") {
                    let arrive = simkernel::now_ns();
                    held = Some((f, hold_ns(arrive)));
                } else if aio::write_all(&mut wr, &echo_of(&f).encode()).await.is_err() {
                    return;
                }
            }
            _ => return,
        }
    }
}

fn c06_timeout_race(case: &Case) {
    let timeout_ms = pick(&[5u64, 20, 100]);
    let delta: i64 = pick(&[-1_000_000i64, -1_000, -1, 0, 1, 1_000, 1_000_000, 50_000_000]);
    let other_calls = range(0, 3);
    case.sample(json!({"scenario": "timeout-race", "timeout_ms": timeout_ms, "response_at_deadline_plus_ns": delta, "other_calls": other_calls}));
    net::set_config(NetConfig { capacity: 65_536, lat_min: 0, lat_max: 0, max_segment: 0 });
    let case = case.clone();
    aio::run(&case.clone(), 3_600, async move {
        let listener = TcpListener::bind("127.0.0.1:0").await.unwrap();
        let addr = listener.local_addr().unwrap();
        let hold = move |arrive: u64| (arrive as i64 + (timeout_ms * 1_000_000) as i64 + delta).max(arrive as i64) as u64;
        let server = tokio::spawn(victim_server(listener, case.clone(), hold, true));
        let client = match AsyncClient::connect(addr).await {
            Ok(c) => c,
            Err(e) => {
                case.harness_error(format!("connect failed: {e}"));
                return;
            }
        };
        let vc = client.clone();
        let vcase = case.clone();
        let victim = tokio::spawn(async move {
            let r = vc.call_with_formats_and_timeout("/echo/victim", 1, Some(b"victim-body"), 0, Duration::from_millis(timeout_ms)).await;
            match r {
                Ok(m) => {
                    vcase.probe("victim_got_response_in_time");
                    vcase.check(m.body == b"victim-body", "wrong-response", || "victim got a foreign body".into());
                }
                Err(_) => vcase.probe("fault.call_timeout_fired"),
            }
        });
        let mut hs = Vec::new();
        for t in 1..=other_calls as u64 {
            let c = client.clone();
            let case = case.clone();
            let delay = pick(&[0u64, 1, timeout_ms, timeout_ms + 1, timeout_ms * 2]);
            let kind = draw_kind();
            hs.push(tokio::spawn(async move {
                sleep_ms(delay).await;
                if let Err(e) = do_call(&c, kind, t, None).await {
                    let class = if e.starts_with("WRONG-RESPONSE") { "wrong-response" } else { "unrelated-call-failed" };
                    case.fail(class, format!("call {t} around a timed-out call: {e}"));
                }
            }));
        }
        let _ = victim.await;
        for h in hs {
            let _ = h.await;
        }
        sleep_ms(200).await;
        if let Err(e) = do_call(&client, CallKind::Json, 777, None).await {
            case.fail("unrelated-call-failed", format!("call after a timed-out call: {e}"));
        }
        case.check(client.verif_pending_len() == 0, "pending-residue", || {
            format!("{} pending entries after timeout + late response", client.verif_pending_len())
        });
        drop(client);
        let _ = server.await;
        case.nontrivial();
    });
}

/// A call is abandoned (its future dropped) at its k-th poll, for every k a dry run shows
/// the call has; the response still arrives later (or never). Nothing may be left behind
/// and the client must keep serving other calls.
fn c06_cancel(case: &Case) {
    let hold_ms = pick(&[0u64, 1, 10, 100]);
    let answer_victim = simkernel::choose(4) != 0;
    let cancel_polls = range(1, 6);
    let other_calls = range(0, 3);
    let via_timeout = simkernel::choose(3) == 0;
    case.sample(json!({"scenario": "cancellation", "cancel_at_poll": cancel_polls, "via_enclosing_timeout": via_timeout,
        "server_holds_ms": hold_ms, "server_answers_victim": answer_victim, "other_calls": other_calls}));
    let case = case.clone();
    aio::run(&case.clone(), 3_600, async move {
        let listener = TcpListener::bind("127.0.0.1:0").await.unwrap();
        let addr = listener.local_addr().unwrap();
        let hold = move |arrive: u64| arrive + hold_ms * 1_000_000;
        let server = tokio::spawn(victim_server(listener, case.clone(), hold, answer_victim));
        let client = match AsyncClient::connect(addr).await {
            Ok(c) => c,
            Err(e) => {
                case.harness_error(format!("connect failed: {e}"));
                return;
            }
        };
        let conn = net::connections().last().cloned();
        let mut hs = Vec::new();
        for t in 1..=other_calls as u64 {
            let c = client.clone();
            let kind = draw_kind();
            hs.push(tokio::spawn(async move {
                jitter().await;
                (t, do_call(&c, kind, t, None).await)
            }));
        }
        jitter().await;
        let call = client.call_with_formats("/echo/victim", 1, Some(b"victim-body"), 0);
        let outcome = if via_timeout {
            timeout(Duration::from_micros(pick(&[1u64, 50, 500, 5_000])), call).await.ok()
        } else {
            // at its k-th poll, or (if it is never polled that often) some time later
            timeout(Duration::from_millis(hold_ms + 500), CancelAfter::new(call, cancel_polls)).await.ok().flatten()
        };
        // at the instant of cancellation: is the victim's whole request frame on the wire?
        let victim_sent = conn
            .as_ref()
            .map(|c| split_stream(&net::tap_of(c, Side::A)).frames.iter().any(|f| f.query_str().ends_with("/victim")))
            .unwrap_or(false);
        match outcome {
            None => case.probe("fault.call_cancelled"),
            Some(Ok(m)) => {
                case.probe("victim_completed_before_cancel");
                case.check(m.body == b"victim-body", "wrong-response", || "victim got a foreign body".into());
            }
            Some(Err(e)) => case.fail("call-failed-without-fault", format!("victim call failed: {e}")),
        }
        let mut other_errs: Vec<(u64, String)> = Vec::new();
        for h in hs {
            match h.await {
                Ok((t, Err(e))) if e.starts_with("WRONG-RESPONSE") => case.fail("wrong-response", format!("call {t}: {e}")),
                Ok((t, Err(e))) => other_errs.push((t, e)),
                Ok(_) => {}
                Err(e) => case.fail("panic", format!("caller task failed: {e}")),
            }
        }
        sleep_ms(hold_ms + 50).await;
        let later = timeout(Duration::from_secs(30), do_call(&client, CallKind::Json, 777, None)).await;
        // Where did the cancellation land relative to the victim's request frame? If the
        // frame was completely on the wire the send was over and the client must go on
        // serving everybody else. If it was not, the call was abandoned mid-send: C05
        // decides what must happen to the connection (nothing may follow a torn frame), so
        // other calls may fail - but they must still return, and never with a foreign reply.
        if !victim_sent {
            case.probe("cancel_landed_mid_send");
        }
        match later {
            Err(_) => case.fail("hang", "a call after a cancelled call never returned"),
            Ok(Err(e)) if e.starts_with("WRONG-RESPONSE") => case.fail("wrong-response", e),
            Ok(Err(e)) if victim_sent => case.fail("unrelated-call-failed", format!("call after a cancelled call: {e}")),
            Ok(_) => {}
        }
        if victim_sent && let Some((t, e)) = other_errs.first() {
            case.fail("unrelated-call-failed", format!("call {t} next to a cancelled call: {e}"));
        }
        case.check(client.verif_pending_len() == 0, "pending-residue", || {
            format!("{} pending entries after cancellation", client.verif_pending_len())
        });
        drop(client);
        let _ = server.await;
        case.nontrivial();
    });
}

/// One call times out while 2-5 sibling calls (lower and higher ids) are still pending; the
/// server answers the siblings only afterwards, in a seeded order.
fn c06_timeout_with_held_siblings(case: &Case) {
    let timeout_ms = pick(&[5u64, 20, 100]);
    let n_sib = range(2, 5) as u64;
    let victim_pos = simkernel::choose(n_sib as u32 + 1) as u64;
    let answer_victim_late = coin();
    case.sample(json!({"scenario": "timeout-with-held-siblings", "timeout_ms": timeout_ms, "siblings": n_sib, "siblings_started_before_victim": victim_pos, "late_victim_response": answer_victim_late}));
    net::set_config(NetConfig { capacity: 65_536, lat_min: 0, lat_max: pick(&[0u64, 50_000]), max_segment: 0 });
    let total = n_sib + 1;
    let case = case.clone();
    aio::run(&case.clone(), 3_600, async move {
        let listener = TcpListener::bind("127.0.0.1:0").await.unwrap();
        let addr = listener.local_addr().unwrap();
        let server = tokio::spawn(async move {
            let Ok((s, _)) = listener.accept().await else { return };
            let (rd, mut wr) = s.into_split();
            let mut fr = FrameReader::new(rd);
            let mut held: Vec<Frame> = Vec::new();
            while (held.len() as u64) < total {
                match timeout(Duration::from_millis(2_000), fr.next()).await {
                    Ok(Ok(Some(f))) => held.push(f),
                    _ => return,
                }
            }
            sleep_ms(timeout_ms + 20).await;
            while !held.is_empty() {
                let f = held.remove(simkernel::choose(held.len() as u32) as usize);
                if f.query_str().ends_with("/victim") && !answer_victim_late {
                    continue;
                }
                if aio::write_all(&mut wr, &echo_of(&f).encode()).await.is_err() {
                    return;
                }
            }
            while let Ok(Some(f)) = fr.next().await {
                if aio::write_all(&mut wr, &echo_of(&f).encode()).await.is_err() {
                    return;
                }
            }
        });
        let client = match AsyncClient::connect(addr).await {
            Ok(c) => c,
            Err(e) => {
                case.harness_error(format!("connect failed: {e}"));
                return;
            }
        };
        let mut hs = Vec::new();
        for k in 0..=n_sib {
            let c = client.clone();
            let case = case.clone();
            if k == victim_pos {
                hs.push(tokio::spawn(async move {
                    let r = c.call_with_formats_and_timeout("/echo/victim", 1, Some(b"victim-body"), 0, Duration::from_millis(timeout_ms)).await;
                    case.check(r.is_err(), "ok-without-response", || "the victim was answered only after its deadline but returned Ok".into());
                }));
            } else {
                let t = 100 + k;
                hs.push(tokio::spawn(async move {
                    if let Err(e) = do_call(&c, CallKind::Json, t, None).await {
                        let class = if e.starts_with("WRONG-RESPONSE") { "wrong-response" } else { "unrelated-call-failed" };
                        case.fail(class, format!("sibling call {t} of a timed-out call: {e}"));
                    }
                }));
            }
            sleep_us(200).await;
        }
        for h in hs {
            let _ = h.await;
        }
        sleep_ms(50).await;
        if let Err(e) = do_call(&client, CallKind::Json, 777, None).await {
            case.fail("unrelated-call-failed", format!("call after a timed-out call: {e}"));
        }
        case.check(client.verif_pending_len() == 0, "pending-residue", || format!("{} pending entries after timeout with siblings", client.verif_pending_len()));
        drop(client);
        let _ = timeout(Duration::from_secs(10), server).await;
        case.nontrivial();
        case.probe("timeout_with_siblings_pending");
    });
}

/// A peer that does not read for longer than the call's timeout, then drains and never answers.
fn c06_stall_then_silent(case: &Case) {
    let stall_ms = pick(&[20u64, 200, 1_500]);
    let timeout_ms = pick(&[5u64, 50, 150]);
    let size = pick(&[10usize, 5_000, 200_000]);
    case.sample(json!({"scenario": "stall-then-silent", "peer_reads_after_ms": stall_ms, "call_timeout_ms": timeout_ms, "request_bytes": size}));
    net::set_config(NetConfig { capacity: pick(&[1024usize, 65_536]), lat_min: 0, lat_max: 10_000, max_segment: 0 });
    let case = case.clone();
    aio::run(&case.clone(), 3_600, async move {
        let listener = TcpListener::bind("127.0.0.1:0").await.unwrap();
        let addr = listener.local_addr().unwrap();
        let server = tokio::spawn(async move {
            let Ok((mut s, _)) = listener.accept().await else { return };
            sleep_ms(stall_ms).await;
            simkernel::count("fault.stall_reader");
            let mut buf = vec![0u8; 1 << 16];
            loop {
                match timeout(Duration::from_millis(3_000), tokio::io::AsyncReadExt::read(&mut s, &mut buf)).await {
                    Ok(Ok(n)) if n > 0 => {}
                    _ => return,
                }
            }
        });
        let client = match AsyncClient::connect(addr).await {
            Ok(c) => c,
            Err(e) => {
                case.harness_error(format!("connect failed: {e}"));
                return;
            }
        };
        let body = pattern(1, size);
        let t0 = simkernel::now_ns();
        let r = timeout(Duration::from_secs(600), client.call_with_formats_and_timeout("/never-answered", 1, Some(&body), 0, Duration::from_millis(timeout_ms))).await;
        let took_ms = (simkernel::now_ns() - t0) / 1_000_000;
        match r {
            Err(_) => case.fail("hang", format!("a call with a {timeout_ms} ms timeout was still pending after 600 s (peer read after {stall_ms} ms, never answered)")),
            Ok(r) => {
                case.check(r.is_err(), "ok-without-response", || "a call the peer never answered returned Ok".into());
                case.check(took_ms <= stall_ms + timeout_ms + 1_000, "call-outlived-its-timeout", || format!("call with a {timeout_ms} ms timeout returned after {took_ms} ms (the peer started reading after {stall_ms} ms and never answered)"));
            }
        }
        let r2 = timeout(Duration::from_secs(600), client.call_json_with_timeout("/also-never", &json!({"x": 1}), Duration::from_millis(timeout_ms))).await;
        case.check(matches!(r2, Ok(Err(_))), "hang", || "a second timed call did not return an error".into());
        case.check(client.verif_pending_len() == 0, "pending-residue", || format!("{} pending entries after timed-out calls", client.verif_pending_len()));
        drop(client);
        let _ = timeout(Duration::from_secs(10), server).await;
        case.nontrivial();
        case.probe("timeout_expired_while_peer_stalled");
    });
}

// =========================================================================== C05 (client)

fn c05_async_client(case: &Case) {
    let capacity = pick(&[64usize, 256, 1024, 8192, 65_536]);
    net::reset(NetConfig { capacity, lat_min: pick(&[0u64, 10_000]), lat_max: pick(&[10_000u64, 500_000]), max_segment: pick(&[0usize, 0, 13, 100]) });
    let nwriters = pick(&[1u32, 2, 3, 4, 8, 16, 32]);
    let stall = simkernel::choose(3) != 0;
    let stall_after = pick(&[0usize, 10, 47, 48, 100, 5_000, 20_000]);
    let stall_ms = pick(&[0u64, 3, 20, 200, 2_000]);
    let big = simkernel::choose(6) == 0;
    let sizes: Vec<usize> = (0..nwriters)
        .map(|_| if big { pick(&[8191usize, 8192, 8193, 20_000, 70_000]) } else { pick(&[0usize, 1, 63, 64, 65, 300, 1000, 3000]) })
        .collect();
    // how each writer may abandon its call: 0 = never, 1 = dropped at poll k, 2 = enclosing timeout
    let cancel_mode: Vec<u32> = (0..nwriters).map(|_| pick(&[0u32, 0, 0, 1, 2])).collect();
    case.sample(json!({"writers": nwriters, "capacity": capacity, "reader_stalls": stall, "stall_after_bytes": stall_after,
        "stall_ms": stall_ms, "sizes": sizes, "cancel_mode": cancel_mode}));
    let case = case.clone();
    aio::run(&case.clone(), 3_600, async move {
        let listener = TcpListener::bind("127.0.0.1:0").await.unwrap();
        let addr = listener.local_addr().unwrap();
        let stop = Arc::new(AtomicBool::new(false));
        let stop2 = stop.clone();
        let srv_case = case.clone();
        let server = tokio::spawn(async move {
            let Ok((s, _)) = listener.accept().await else { return };
            let (mut rd, mut wr) = s.into_split();
            let mut consumed = 0usize;
            let mut stalled = !stall;
            let mut acc: Vec<u8> = Vec::new();
            let mut replied = 0usize;
            let mut buf = vec![0u8; 1 << 14];
            loop {
                if stop2.load(Ordering::SeqCst) {
                    return;
                }
                if !stalled && consumed >= stall_after {
                    stalled = true;
                    srv_case.probe("fault.stall_reader");
                    sleep_ms(stall_ms).await;
                }
                let want = if !stalled { (stall_after - consumed).clamp(1, buf.len()) } else { buf.len() };
                match timeout(Duration::from_millis(50), tokio::io::AsyncReadExt::read(&mut rd, &mut buf[..want])).await {
                    Err(_) => continue,
                    Ok(Ok(0)) | Ok(Err(_)) => return,
                    Ok(Ok(n)) => {
                        consumed += n;
                        acc.extend_from_slice(&buf[..n]);
                        let shape = split_stream(&acc);
                        if shape.garbage_at.is_some() {
                            continue;
                        }
                        for f in shape.frames.iter().skip(replied) {
                            if f.notify == 0 {
                                let r = Frame::new(f.id, &f.query, b"");
                                let _ = aio::write_all(&mut wr, &r.encode()).await;
                            }
                        }
                        replied = shape.frames.len();
                    }
                }
            }
        });
        let client = match AsyncClient::connect(addr).await {
            Ok(c) => c,
            Err(e) => {
                case.harness_error(format!("connect failed: {e}"));
                return;
            }
        };
        let conn = net::connections().last().cloned().unwrap();
        let errs = Arc::new(AtomicU64::new(0));
        let mut hs = Vec::new();
        for (i, len) in sizes.iter().cloned().enumerate() {
            let c = client.clone();
            let errs = errs.clone();
            let case = case.clone();
            let notify = simkernel::choose(5) == 0;
            // a prebuilt message relayed as is (the proxy's route to the wire)
            let forward = !notify && simkernel::choose(5) == 0;
            let mode = cancel_mode[i];
            let polls = range(1, 8);
            let to_us = pick(&[1u64, 20, 300, 2_000, 30_000]);
            hs.push(tokio::spawn(async move {
                jitter().await;
                let body = pattern(i as u64 + 1, len);
                let path = format!("/w/{}", i + 1);
                let fut = async {
                    if forward {
                        let m = Message::builder().id((1u64 << 33) + i as u64).query_str(&path).query_format_code(1).body_bytes(body.clone()).build();
                        c.forward_message_with_timeout(&m, Duration::from_secs(5)).await.map(|_| ())
                    } else if notify {
                        c.notify_with_formats(&path, 1, Some(&body), 0).await.map(|_| ())
                    } else {
                        c.call_with_formats_and_timeout(&path, 1, Some(&body), 0, Duration::from_secs(5)).await.map(|_| ())
                    }
                };
                let r = match mode {
                    1 => timeout(Duration::from_secs(6), CancelAfter::new(fut, polls)).await.ok().flatten(),
                    2 => timeout(Duration::from_micros(to_us), fut).await.ok(),
                    _ => Some(fut.await),
                };
                match r {
                    None => case.probe("fault.caller_abandoned_call"),
                    Some(Err(_)) => {
                        errs.fetch_add(1, Ordering::SeqCst);
                    }
                    Some(Ok(())) => {}
                }
            }));
        }
        for h in hs {
            let _ = h.await;
        }
        if errs.load(Ordering::SeqCst) > 0 {
            case.probe("writer_saw_error");
        }
        let follow = pattern(999, 10);
        let _ = timeout(Duration::from_secs(2), client.notify_with_formats("/w/999", 1, Some(&follow), 0)).await;
        let _ = client.call_with_formats_and_timeout("/w/999", 1, Some(&follow), 0, Duration::from_millis(300)).await;
        let fm = Message::builder().id((1u64 << 33) + 999).query_str("/w/999").query_format_code(1).body_bytes(follow.clone()).build();
        let _ = client.forward_message_with_timeout(&fm, Duration::from_millis(300)).await;
        sleep_ms(2_500).await;
        let bytes = net::tap_of(&conn, Side::A);
        let id_of = |f: &Frame| -> u64 { f.query_str().rsplit('/').next().and_then(|s| s.parse().ok()).unwrap_or(0) };
        let (frames, tail) = check_tap(&case, "AsyncClient", &bytes, id_of);
        if tail > 0 {
            case.probe("torn_frame_on_wire");
        }
        if frames >= 2 {
            case.probe("multi_frame_stream");
        }
        stop.store(true, Ordering::SeqCst);
        drop(client);
        let _ = server.await;
        case.nontrivial();
    });
}

// =========================================================================== C05 (server)

fn c05_async_server(case: &Case) {
    let capacity = pick(&[256usize, 1024, 8192, 65_536]);
    net::reset(NetConfig { capacity, lat_min: 0, lat_max: pick(&[0u64, 200_000]), max_segment: pick(&[0usize, 0, 100]) });
    let write_timeout = if simkernel::choose(4) != 0 { Some(Duration::from_millis(pick(&[1u64, 5, 40]))) } else { None };
    let n = range(1, 8) as u64;
    let big = simkernel::choose(3) == 0;
    let sizes: Vec<usize> = (0..n).map(|_| if big { pick(&[8191usize, 8192, 8193, 20_000, 40_000]) } else { pick(&[0usize, 1, 100, 1000, 3000]) }).collect();
    let stall_after = pick(&[0usize, 20, 48, 500, 9_000]);
    let between = write_timeout.map(|d| d.as_millis() as u64 * 3 / 2).unwrap_or(7).max(2); // between one and two write timeouts
    let stall_ms = pick(&[0u64, 2, 10, 100, 1_000, between, between]);
    let second_wave = coin();
    case.sample(json!({"requests": n, "sizes": sizes, "capacity": capacity, "server_write_timeout_ms": write_timeout.map(|d| d.as_millis() as u64),
        "client_stalls_after_bytes": stall_after, "stall_ms": stall_ms, "second_wave_after_stall": second_wave}));
    let case = case.clone();
    aio::run(&case.clone(), 3_600, async move {
        let counters = Arc::new(Counters::default());
        let router = build_router(&counters, 0, true);
        let listener = AsyncServer::listen("127.0.0.1:0").await.unwrap();
        let addr = listener.local_addr().unwrap();
        let server = tokio::spawn(async move {
            let _ = AsyncServer::new(router).write_timeout(write_timeout).serve(listener).await;
        });
        let Ok(s) = TcpStream::connect(addr).await else {
            case.harness_error("connect");
            return;
        };
        let conn = s.conn();
        let (mut rd, mut wr) = s.into_split();
        let sz = sizes.clone();
        let writer = tokio::spawn(async move {
            for (i, len) in sz.iter().enumerate() {
                let id = i as u64 + 1;
                let f = Frame::new(id, match simkernel::choose(6) { 0 | 1 => &b"/custom/ownecho"[..], 2 => &b"/custom/plainoff"[..], 3 => &b"/custom/pushy"[..], _ => &b"/custom/plain"[..] }, &pattern(id, *len));
                if wr.write_all(&f.encode()).await.is_err() {
                    return wr;
                }
            }
            if second_wave {
                // more requests after the stall is over: they must not be answered on a
                // connection whose response stream was torn
                sleep_ms(stall_ms + 5).await;
                for k in 0..2u64 {
                    let id = 100 + k;
                    let f = Frame::new(id, b"/custom/plain", &pattern(id, 10));
                    if wr.write_all(&f.encode()).await.is_err() {
                        break;
                    }
                }
            }
            wr
        });
        let mut consumed = 0usize;
        let mut stalled = false;
        let mut buf = vec![0u8; 4096];
        let mut quiet = 0;
        loop {
            if !stalled && consumed >= stall_after {
                stalled = true;
                case.probe("fault.stall_reader");
                sleep_ms(stall_ms).await;
            }
            let want = if stalled { buf.len() } else { (stall_after - consumed).clamp(1, buf.len()) };
            match timeout(Duration::from_millis(300), tokio::io::AsyncReadExt::read(&mut rd, &mut buf[..want])).await {
                Ok(Ok(0)) | Ok(Err(_)) => break,
                Ok(Ok(k)) => {
                    consumed += k;
                    quiet = 0;
                }
                Err(_) => {
                    quiet += 1;
                    if quiet >= 3 {
                        break;
                    }
                }
            }
        }
        let wr = writer.await;
        let bytes = net::tap_of(&conn, Side::B);
        let (frames, tail) = check_tap(&case, "AsyncServer", &bytes, |f| f.id);
        if tail > 0 {
            case.probe("torn_frame_on_wire");
        }
        if frames >= 2 {
            case.probe("multi_frame_stream");
        }
        case.nontrivial();
        drop(wr);
        drop(rd);
        server.abort();
        let _ = server.await;
    });
}

// =========================================================================== C03 (server)

async fn pipeline(addr: std::net::SocketAddr, reqs: &[Req], expect_n: usize, pace_ms: Option<u64>) -> Option<Vec<Frame>> {
    let s = TcpStream::connect(addr).await.ok()?;
    let (rd, mut wr) = s.into_split();
    let frames: Vec<Vec<u8>> = reqs.iter().map(|r| r.frame().encode()).collect();
    let done = Arc::new(AtomicBool::new(false));
    let done2 = done.clone();
    let writer = tokio::spawn(async move {
        for f in frames {
            if wr.write_all(&f).await.is_err() {
                break;
            }
            if let Some(ms) = pace_ms {
                sleep_ms(ms).await;
            } else if simkernel::choose(4) == 0 {
                sleep_us(simkernel::choose(300) as u64).await;
            }
        }
        done2.store(true, Ordering::SeqCst);
        wr
    });
    let mut fr = FrameReader::new(rd);
    let mut out = Vec::new();
    loop {
        match timeout(Duration::from_millis(300), fr.next()).await {
            Ok(Ok(Some(f))) => out.push(f),
            Ok(Ok(None)) | Ok(Err(_)) => break,
            Err(_) => {
                if out.len() >= expect_n {
                    break;
                }
                if !done.load(Ordering::SeqCst) {
                    continue;
                }
                break;
            }
        }
    }
    let wr = writer.await.ok();
    drop(wr);
    Some(out)
}

fn c03_async_server(case: &Case) {
    net::reset(draw_net());
    let n_mw = range(0, 2);
    let mw_first = simkernel::choose(2) == 0;
    // "paced": a short read timeout (50 ms) on a connection that is never idle that long -
    // one request every 10 ms on an instant network - but stays in use for longer than that
    let paced = simkernel::choose(5) == 0;
    let mut reqs = gen_requests(if paced { range(7, 16) as usize } else { draw_len() });
    sanitize(&mut reqs);
    if paced {
        net::set_config(NetConfig { capacity: 1 << 20, lat_min: 0, lat_max: 0, max_segment: 0 });
    }
    let expect_n = reqs.iter().filter(|r| model(r).ec.is_some()).count();
    case.sample(json!({"middlewares": n_mw, "paced_with_50ms_read_timeout": paced, "requests": reqs.iter().map(|r| format!("{}{} v{} q{} b{} {}B", if r.notify {"notify "} else {""}, r.what, r.version, r.qfmt, r.bfmt, r.body.len())).collect::<Vec<_>>()}));
    let case = case.clone();
    aio::run_or_error(&case.clone(), 3_600, async move {
        let counters = Arc::new(Counters::default());
        let router = build_router(&counters, n_mw, mw_first);
        let listener = AsyncServer::listen("127.0.0.1:0").await.unwrap();
        let addr = listener.local_addr().unwrap();
        let (mut rt, wt) = (pick(&[None, Some(Duration::from_secs(3_600))]), pick(&[None, Some(Duration::from_secs(3_600))]));
        if paced {
            rt = Some(Duration::from_millis(50));
        }
        let server = tokio::spawn(async move {
            let _ = AsyncServer::new(router).read_timeout(rt).write_timeout(wt).serve(listener).await;
        });
        let Some(responses) = pipeline(addr, &reqs, expect_n, paced.then_some(10)).await else {
            case.harness_error("connect failed");
            return;
        };
        sleep_ms(50).await;
        check_responses(&case, "AsyncServer", &reqs, &responses, &counters, n_mw, true);
        if reqs.len() >= 2 {
            case.nontrivial();
        }
        case.progress(responses.len() as u64, expect_n as u64);
        server.abort();
        let _ = server.await;
    });
}
