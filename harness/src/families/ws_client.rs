//! C04 / C05 / C06 on the real `WebSocketClient` against a scripted raw tungstenite server
//! on the simulated network.

use crate::codec::{Frame, is_pattern, pattern};
use crate::families::aio::{self, CancelAfter, jitter, sleep_ms, sleep_us};
use crate::families::client_blocking::draw_net;
use crate::families::ws_common::unlimited_config;
use crate::framework::{Case, Family, coin, pick, range};
use futures_util::{SinkExt, StreamExt};
use repe::{RepeError, WebSocketClient};
use serde_json::{Value, json};
use simkernel::net::{self, NetConfig, Side};
use simkernel::tokio_net::TcpListener;
use std::sync::Arc;
use std::sync::atomic::{AtomicU64, Ordering};
use std::time::Duration;
use tokio::time::timeout;
use tokio_tungstenite::tungstenite::Message as WsMessage;

pub fn families() -> Vec<Family> {
    vec![
        Family::new(
            "c04_ws_client",
            "C04",
            "1-64 concurrent tasks/batches on one WebSocketClient vs. scripted server replying in seeded order with unknown-id, duplicate and notify-with-in-flight-id frames; notify subscriber",
            c04_ws_client,
        )
        .runs(25_000, 1_500_000)
        .tokio(),
        Family::new(
            "c06_ws_client",
            "C06",
            "WebSocketClient with 0-16 calls in flight and a notify subscriber; server closes (Close frame / FIN / RST), sends text / malformed REPE frames / WebSocket garbage at every protocol step; timeouts racing responses; cancellation",
            c06_ws_client,
        )
        .runs(100_000, 6_000_000)
        .tokio(),
        Family::new(
            "c05_ws_client",
            "C05",
            "up to 32 concurrent writers on one WebSocketClient, tiny socket buffers, stalled server, callers abandoning calls mid-send; every binary message the server receives must be exactly one whole REPE frame with its own body",
            c05_ws_client,
        )
        .runs(25_000, 1_500_000)
        .tokio(),
    ]
}

type RawWsServer = tokio_tungstenite::WebSocketStream<simkernel::tokio_net::TcpStream>;

async fn raw_accept(listener: &TcpListener) -> Option<(RawWsServer, simkernel::net::ConnRef)> {
    let (stream, _) = listener.accept().await.ok()?;
    let conn = stream.conn();
    let ws = tokio_tungstenite::accept_async_with_config(stream, Some(unlimited_config())).await.ok()?;
    Some((ws, conn))
}

fn parse_frame(b: &[u8]) -> Option<Frame> {
    if b.len() < 48 {
        return None;
    }
    let mut f = Frame::parse_header(b);
    if !f.header_consistent() || f.length as usize != b.len() {
        return None;
    }
    let q = f.query_length as usize;
    f.query = b[48..48 + q].to_vec();
    f.body = b[48 + q..].to_vec();
    Some(f)
}

fn echo_of(req: &Frame) -> Frame {
    let mut f = Frame::new(req.id, &req.query, &req.body);
    f.query_format = req.query_format;
    f.body_format = req.body_format;
    f
}

fn token_value(t: u64) -> Value {
    json!({"t": t})
}

#[derive(Clone, Copy, Debug)]
enum CallKind {
    Json,
    TypedJson,
    TypedBeve,
    Raw(usize),
    Empty,
}
fn draw_kind() -> CallKind {
    match simkernel::choose(7) {
        0 | 1 => CallKind::Json,
        2 => CallKind::TypedJson,
        3 => CallKind::Empty,
        4 => CallKind::TypedBeve,
        _ => CallKind::Raw(pick(&[0usize, 1, 47, 48, 49, 300, 5000])),
    }
}

async fn do_call(client: &WebSocketClient, kind: CallKind, token: u64, to: Option<Duration>) -> Result<(), String> {
    let path = format!("/echo/{token}");
    match kind {
        CallKind::Json => {
            let r = match to {
                Some(d) => client.call_json_with_timeout(&path, &token_value(token), d).await,
                None => client.call_json(&path, &token_value(token)).await,
            };
            match r {
                Ok(v) if v == token_value(token) => Ok(()),
                Ok(v) => Err(format!("WRONG-RESPONSE call {token} got {v}")),
                Err(e) => Err(format!("error: {e}")),
            }
        }
        CallKind::TypedJson => {
            let r: Result<Value, _> = match to {
                Some(d) => client.call_typed_json_with_timeout(&path, &token_value(token), d).await,
                None => client.call_typed_json(&path, &token_value(token)).await,
            };
            match r {
                Ok(v) if v == token_value(token) => Ok(()),
                Ok(v) => Err(format!("WRONG-RESPONSE call {token} got {v}")),
                Err(e) => Err(format!("error: {e}")),
            }
        }
        CallKind::TypedBeve => {
            let body = (token, format!("tok-{token}"));
            let r: Result<(u64, String), _> = match to {
                Some(d) => client.call_typed_beve_with_timeout(&path, &body, d).await,
                None => client.call_typed_beve(&path, &body).await,
            };
            match r {
                Ok(v) if v == body => Ok(()),
                Ok(v) => Err(format!("WRONG-RESPONSE call {token} got {v:?}")),
                Err(e) => Err(format!("error: {e}")),
            }
        }
        CallKind::Raw(len) => {
            let body = pattern(token, len);
            let r = match to {
                Some(d) => client.call_with_formats_and_timeout(&path, 1, Some(&body), 0, d).await,
                None => client.call_with_formats(&path, 1, Some(&body), 0).await,
            };
            match r {
                Ok(m) if m.body == body && m.query == path.as_bytes() => Ok(()),
                Ok(m) => Err(format!("WRONG-RESPONSE call {token} got query {:?} body len {}", String::from_utf8_lossy(&m.query), m.body.len())),
                Err(e) => Err(format!("error: {e}")),
            }
        }
        CallKind::Empty => {
            let r = match to {
                Some(d) => client.call_message_with_timeout(&path, d).await,
                None => client.call_message(&path).await,
            };
            match r {
                Ok(m) if m.query == path.as_bytes() && m.body.is_empty() => Ok(()),
                Ok(m) => Err(format!("WRONG-RESPONSE call {token} got query {:?}", String::from_utf8_lossy(&m.query))),
                Err(e) => Err(format!("error: {e}")),
            }
        }
    }
}

// =========================================================================== C04

fn c04_ws_client(case: &Case) {
    net::reset(draw_net());
    let ncallers = pick(&[1u32, 2, 2, 3, 3, 4, 4, 5, 6, 6, 8, 16, 32, 64]);
    let calls_each = if ncallers > 8 { 1 } else { range(1, 2) };
    let batch_n = if simkernel::choose(3) == 0 { pick(&[1u32, 2, 5, 9, 20, 20, 64, 65, 70, 130]) } else { 0 };
    let window = range(1, 6.min(ncallers + batch_n.min(4)).max(1)) as usize;
    let inject_unknown = pick(&[0u32, 0, 20, 50]);
    let inject_dup = pick(&[0u32, 0, 20, 50]);
    let inject_notify = pick(&[0u32, 20, 50]);
    let subscribe = simkernel::choose(4) != 0;
    case.sample(json!({"callers": ncallers, "calls_each": calls_each, "batch": batch_n, "server_window": window, "inject_unknown_pct": inject_unknown,
        "inject_dup_pct": inject_dup, "inject_notify_with_inflight_id_pct": inject_notify, "subscriber": subscribe}));
    let case = case.clone();
    aio::run(&case.clone(), 3_600, async move {
        let listener = TcpListener::bind("127.0.0.1:0").await.unwrap();
        let addr = listener.local_addr().unwrap();
        let srv_case = case.clone();
        let notifies_sent = Arc::new(AtomicU64::new(0));
        let ns = notifies_sent.clone();
        let server = tokio::spawn(async move {
            let Some((ws, _)) = raw_accept(&listener).await else { return };
            let (mut sink, mut stream) = ws.split();
            let mut outstanding: Vec<Frame> = Vec::new();
            let mut seen_ids = std::collections::BTreeSet::new();
            let mut answered: Vec<Frame> = Vec::new();
            let mut eof = false;
            let mut permuted = false;
            loop {
                while !eof && outstanding.len() < window {
                    match timeout(Duration::from_millis(20), stream.next()).await {
                        Ok(Some(Ok(WsMessage::Binary(b)))) => match parse_frame(&b) {
                            Some(f) => {
                                if !seen_ids.insert(f.id) {
                                    srv_case.fail("duplicate-request-id", format!("request id {} issued twice on one connection", f.id));
                                }
                                if f.notify == 0 {
                                    outstanding.push(f);
                                }
                            }
                            None => srv_case.fail("not-a-frame", format!("client sent a binary message of {} bytes that is not one REPE frame", b.len())),
                        },
                        Ok(Some(Ok(_))) => {}
                        Ok(Some(Err(_))) | Ok(None) => eof = true,
                        Err(_) => break,
                    }
                }
                if outstanding.is_empty() {
                    if eof {
                        break;
                    }
                    continue;
                }
                let i = simkernel::choose(outstanding.len() as u32) as usize;
                if i != 0 {
                    permuted = true;
                }
                let req = outstanding.remove(i);
                if simkernel::choose(100) < inject_unknown {
                    srv_case.probe("fault.unknown_id_frame");
                    let f = Frame::new((1u64 << 40) + req.id, b"/nobody", b"{\"t\":0}").with_formats(1, 2);
                    if sink.send(WsMessage::Binary(f.encode())).await.is_err() {
                        break;
                    }
                }
                if simkernel::choose(100) < inject_notify {
                    // a server push that reuses the id of a call still in flight
                    srv_case.probe("fault.notify_with_inflight_id");
                    let f = Frame::new(req.id, b"/pushed", b"{\"t\":\"not-a-response\"}").with_formats(1, 2).notify(1);
                    ns.fetch_add(1, Ordering::SeqCst);
                    if sink.send(WsMessage::Binary(f.encode())).await.is_err() {
                        break;
                    }
                }
                if simkernel::choose(100) < inject_dup
                    && let Some(prev) = answered.last()
                {
                    srv_case.probe("fault.duplicate_response");
                    if sink.send(WsMessage::Binary(echo_of(prev).encode())).await.is_err() {
                        break;
                    }
                }
                if sink.send(WsMessage::Binary(echo_of(&req).encode())).await.is_err() {
                    break;
                }
                answered.push(req);
            }
            if permuted {
                srv_case.probe("replies_out_of_arrival_order");
            }
            if answered.len() <= 6 && !answered.is_empty() {
                // which of the k! reply orders this run exercised (arrival rank of each answered request)
                let mut arrival: Vec<u64> = seen_ids.iter().copied().filter(|id| answered.iter().any(|a: &Frame| a.id == *id)).collect();
                arrival.sort();
                let perm: Vec<String> = answered.iter().map(|a| arrival.iter().position(|x| *x == a.id).unwrap_or(9).to_string()).collect();
                srv_case.cover("reply_order(k<=6; 1+2+6+24+120+720=873 orders)", format!("{}:{}", answered.len(), perm.join("")));
            }
        });
        // sometimes the client has an assumed peer frame limit and one batch entry exceeds it:
        // that entry fails locally, every other entry keeps its position
        let oversize_slot: Option<usize> = if batch_n >= 2 && simkernel::choose(3) == 0 { Some(simkernel::choose(batch_n) as usize) } else { None };
        let limits = if oversize_slot.is_some() { repe::WebSocketLimits::default().with_assumed_peer_frame_limit(Some(4096)) } else { repe::WebSocketLimits::default() };
        let client = match WebSocketClient::connect_with_limits(&format!("ws://{addr}/repe"), limits).await {
            Ok(c) => c,
            Err(e) => {
                case.harness_error(format!("connect failed: {e}"));
                return;
            }
        };
        let mut sub = if subscribe { client.subscribe_notifies().ok() } else { None };
        let mut hs = Vec::new();
        let mut token = 0u64;
        for _ in 0..ncallers {
            let c = client.clone();
            let case = case.clone();
            let plan: Vec<(CallKind, u64)> = (0..calls_each)
                .map(|_| {
                    token += 1;
                    let k = match draw_kind() {
                        // (ordinary callers stay below the peer limit when one is configured)
                        CallKind::Raw(n) if oversize_slot.is_some() && n > 3000 => CallKind::Raw(300),
                        k => k,
                    };
                    (k, token)
                })
                .collect();
            hs.push(tokio::spawn(async move {
                for (kind, t) in plan {
                    jitter().await;
                    if let Err(e) = do_call(&c, kind, t, None).await {
                        let class = if e.starts_with("WRONG-RESPONSE") { "wrong-response" } else { "call-failed-without-fault" };
                        case.fail(class, e);
                    }
                }
            }));
        }
        if batch_n > 0 {
            let reqs: Vec<(String, Value)> = (0..batch_n)
                .map(|i| {
                    token += 1;
                    if oversize_slot == Some(i as usize) { (format!("/echo/b{i}"), json!({"t": token, "pad": "x".repeat(6000)})) } else { (format!("/echo/b{i}"), token_value(token)) }
                })
                .collect();
            let expect: Vec<Value> = reqs.iter().map(|r| r.1.clone()).collect();
            let c = client.clone();
            let case = case.clone();
            hs.push(tokio::spawn(async move {
                jitter().await;
                let out = if simkernel::choose(2) == 0 { c.batch_json(reqs).await } else { c.batch_json_with_timeout(reqs, Duration::from_secs(3_600)).await };
                if out.len() != expect.len() {
                    case.fail("batch-misaligned", format!("batch of {} returned {} results", expect.len(), out.len()));
                    return;
                }
                for (i, (got, want)) in out.iter().zip(expect.iter()).enumerate() {
                    if oversize_slot == Some(i) {
                        case.probe("batch_entry_over_the_peer_limit");
                        case.check(matches!(got, Err(RepeError::MessageTooLarge { .. })), "batch-misaligned", || format!("batch slot {i} holds the request over the peer limit but returned {:?}", got.as_ref().map(|v| v.to_string().len()).map_err(|e| e.to_string())));
                        continue;
                    }
                    match got {
                        Ok(v) if v == want => {}
                        Ok(v) => case.fail("batch-misaligned", format!("batch slot {i}: got {v}, want {want}")),
                        Err(e) => case.fail("call-failed-without-fault", format!("batch slot {i}: {e}")),
                    }
                }
            }));
        }
        for h in hs {
            if let Err(e) = h.await
                && e.is_panic()
            {
                case.fail("panic", format!("caller task panicked: {e}"));
            }
        }
        case.check(client.verif_pending_len() == 0, "pending-residue", || format!("{} pending entries after all calls returned", client.verif_pending_len()));
        // pushes that reused an in-flight id went to the subscriber and nowhere else
        sleep_ms(30).await;
        if let Some(rx) = sub.as_mut() {
            let mut got = 0u64;
            while let Ok(m) = rx.try_recv() {
                got += 1;
                case.check(m.header.notify != 0 && m.query == b"/pushed", "subscriber-got-non-notify", || format!("subscriber received id {} notify {} query {:?}", m.header.id, m.header.notify, String::from_utf8_lossy(&m.query)));
            }
            let sent = notifies_sent.load(Ordering::SeqCst);
            case.check(got == sent, "notify-lost", || format!("server pushed {sent} notifies reusing in-flight ids; the subscriber received {got}"));
            if got > 0 {
                case.probe("notify_with_inflight_id_reached_subscriber");
            }
        }
        drop(sub);
        drop(client);
        let _ = timeout(Duration::from_secs(10), server).await;
        if ncallers + batch_n >= 2 {
            case.nontrivial();
        }
    });
}

// =========================================================================== C06

#[derive(Clone, Copy, Debug, PartialEq)]
enum Kill {
    CloseFrame,
    /// a Close frame after which the peer does *not* close the socket
    CloseFrameHeld,
    Fin,
    Reset,
    Text,
    /// binary message that is not a REPE frame (0 bad magic, 1 inconsistent length, 2 trailing bytes, 3 short, 4 wrapping lengths)
    BadRepe(u8),
    /// raw bytes that are not a WebSocket frame
    WsGarbage,
}

fn bad_repe(kind: u8, id: u64) -> Vec<u8> {
    let good = Frame::new(id, b"/x", b"abc");
    match kind % 5 {
        0 => {
            let mut f = good;
            f.spec = 0x1234;
            f.encode()
        }
        1 => {
            let mut f = good;
            f.length += 1;
            f.encode()
        }
        2 => {
            let mut b = good.encode();
            b.extend_from_slice(b"zz");
            b
        }
        3 => vec![9, 9, 9],
        _ => {
            let mut f = good;
            f.query_length = u64::MAX;
            f.length = 47 + 3;
            f.encode()
        }
    }
}

fn c06_ws_client(case: &Case) {
    net::reset(draw_net());
    if simkernel::choose(8) == 0 {
        return c06_stall_then_silent(case);
    }
    if simkernel::choose(6) == 0 {
        return c06_timeout_with_held_siblings(case);
    }
    if simkernel::choose(10) == 0 {
        return c06_batch_timeout(case);
    }
    match simkernel::choose(4) {
        0 | 1 => c06_fault(case),
        2 => c06_timeout_race(case),
        _ => c06_cancel(case),
    }
}

/// A batch with a timeout in which one entry is never answered in time: the results stay
/// aligned, and the timed-out entry leaves nothing behind - no pending entry, no worker that
/// keeps the connection alive after the last handle is dropped, no taker for its late reply.
fn c06_batch_timeout(case: &Case) {
    let n = range(2, 6) as usize;
    let slow = simkernel::choose(n as u32) as usize;
    let timeout_ms = pick(&[5u64, 20, 100]);
    let late_reply = coin();
    case.sample(json!({"scenario": "batch-with-timeout", "entries": n, "slow_entry": slow, "timeout_ms": timeout_ms, "late_reply_for_the_slow_entry": late_reply}));
    net::set_config(NetConfig { capacity: 65_536, lat_min: 0, lat_max: pick(&[0u64, 50_000]), max_segment: 0 });
    let case = case.clone();
    aio::run(&case.clone(), 3_600, async move {
        let listener = TcpListener::bind("127.0.0.1:0").await.unwrap();
        let addr = listener.local_addr().unwrap();
        let saw_eof = Arc::new(std::sync::atomic::AtomicBool::new(false));
        let saw_eof2 = saw_eof.clone();
        // answers everything at once except "/echo/victim", whose reply comes 300 ms late (or never)
        let hold = move |arrive: u64| arrive + 300_000_000;
        let srv_case = case.clone();
        let server = tokio::spawn(async move {
            victim_server(listener, srv_case, hold, late_reply).await;
            saw_eof2.store(true, Ordering::SeqCst);
        });
        let client = match WebSocketClient::connect(&format!("ws://{addr}/repe")).await {
            Ok(c) => c,
            Err(e) => {
                case.harness_error(format!("connect failed: {e}"));
                return;
            }
        };
        let reqs: Vec<(String, Value)> = (0..n).map(|i| (if i == slow { "/echo/victim".to_string() } else { format!("/echo/b{i}") }, token_value(500 + i as u64))).collect();
        let out = client.batch_json_with_timeout(reqs, Duration::from_millis(timeout_ms)).await;
        case.check(out.len() == n, "batch-misaligned", || format!("batch of {n} returned {} results", out.len()));
        for (i, r) in out.iter().enumerate() {
            if i == slow {
                case.check(r.is_err(), "ok-without-response", || format!("the slow entry {i} was not answered within {timeout_ms} ms but returned Ok"));
            } else {
                case.check(matches!(r, Ok(v) if *v == token_value(500 + i as u64)), "unrelated-call-failed", || format!("batch entry {i} next to a timed-out entry: {:?}", r.as_ref().map(|v| v.to_string()).map_err(|e| e.to_string())));
            }
        }
        case.check(client.verif_pending_len() == 0, "pending-residue", || format!("{} pending entries right after a batch whose entry {slow} timed out", client.verif_pending_len()));
        // the late reply (if any) arrives now: nobody may take it, and other calls keep working
        sleep_ms(400).await;
        if let Err(e) = do_call(&client, CallKind::Json, 777, None).await {
            case.fail("unrelated-call-failed", format!("call after a batch with a timed-out entry: {e}"));
        }
        case.check(client.verif_pending_len() == 0, "pending-residue", || format!("{} pending entries after the late reply", client.verif_pending_len()));
        // the last handle goes: the connection must go with it
        drop(client);
        let eof = saw_eof.clone();
        let closed = timeout(Duration::from_secs(30), async move {
            while !eof.load(Ordering::SeqCst) {
                sleep_ms(1).await;
            }
        })
        .await
        .is_ok();
        case.check(closed, "connection-kept-alive", || "every client handle was dropped after a batch with a timed-out entry, but the peer saw no end-of-stream within 30 s (something still holds the connection)".into());
        server.abort();
        case.probe("batch_entry_timed_out");
        case.nontrivial();
    });
}


/// How long a peer that has sent something fatal keeps the socket open afterwards.
const HOLD_MS: u64 = 600_000;

fn c06_fault(case: &Case) {
    let n_inflight = pick(&[0u32, 1, 1, 2, 3, 4, 8, 16]);
    let kill = match simkernel::choose(11) {
        10 => Kill::CloseFrameHeld,
        0 | 1 => Kill::CloseFrame,
        2 => Kill::Fin,
        3 | 4 => Kill::Reset,
        5 => Kill::Text,
        6 | 7 | 8 => Kill::BadRepe(simkernel::choose(5) as u8),
        _ => Kill::WsGarbage,
    };
    let read_first = if n_inflight == 0 { 0 } else { simkernel::choose(n_inflight + 1) };
    let answer_first = if read_first > 0 { simkernel::choose(read_first + 1) } else { 0 };
    let with_timeouts = coin();
    let call_timeout = Duration::from_millis(pick(&[50u64, 200, 1000]));
    let pre_kill_us = pick(&[0u64, 100, 5_000]);
    let subscribe = coin();
    let push_first = coin();
    // the fatal message arrives from a peer that has stopped reading while a caller with a
    // large request is parked in its send: the calls in flight must fail all the same
    let peer_stops_reading = matches!(kill, Kill::Text | Kill::BadRepe(_) | Kill::WsGarbage | Kill::CloseFrameHeld) && simkernel::choose(3) == 0;
    case.sample(json!({"scenario": "connection-fault", "in_flight": n_inflight, "kill": format!("{kill:?}"), "server_reads": read_first,
        "server_answers": answer_first, "per_call_timeouts": with_timeouts, "subscriber": subscribe, "notify_pushed_before_the_fault": push_first, "peer_stops_reading": peer_stops_reading}));
    let case = case.clone();
    aio::run(&case.clone(), 3_600, async move {
        let listener = TcpListener::bind("127.0.0.1:0").await.unwrap();
        let addr = listener.local_addr().unwrap();
        let srv_case = case.clone();
        let server = tokio::spawn(async move {
            let Some((ws, conn)) = raw_accept(&listener).await else { return };
            let (mut sink, mut stream) = ws.split();
            let mut got: Vec<Frame> = Vec::new();
            while (got.len() as u32) < read_first {
                match timeout(Duration::from_millis(30), stream.next()).await {
                    Ok(Some(Ok(WsMessage::Binary(b)))) => {
                        if let Some(f) = parse_frame(&b) {
                            got.push(f);
                        }
                    }
                    Ok(Some(Ok(_))) => {}
                    _ => break,
                }
            }
            for f in got.iter().take(answer_first as usize) {
                if sink.send(WsMessage::Binary(echo_of(f).encode())).await.is_err() {
                    return;
                }
            }
            if subscribe && push_first {
                // the subscriber has already been served once when the connection fails
                let n = Frame::new(0, b"/pushed", b"\"early\"").with_formats(1, 2).notify(1);
                let _ = sink.send(WsMessage::Binary(n.encode())).await;
            }
            // the peer keeps draining what the client writes (peer stalls are C05's quantifier)
            if peer_stops_reading {
                net::set_capacity(&conn, Side::A, 2048);
            }
            let drainer = tokio::spawn(async move {
                if peer_stops_reading {
                    let _keep_open = stream;
                    sleep_ms(700_000).await;
                    return;
                }
                loop {
                    match timeout(Duration::from_millis(500), stream.next()).await {
                        Ok(Some(Ok(_))) => {}
                        _ => break,
                    }
                }
            });
            sleep_us(pre_kill_us).await;
            let id = got.last().map(|f| f.id).unwrap_or(1);
            match kill {
                Kill::CloseFrame => {
                    srv_case.probe("fault.close_frame");
                    let _ = timeout(Duration::from_secs(2), sink.close()).await;
                }
                Kill::CloseFrameHeld => {
                    // a Close frame, and then the peer keeps the TCP connection open
                    srv_case.probe("fault.close_frame_socket_held_open");
                    net::inject_bytes(&conn, Side::B, &[0x88, 0x00]);
                    sleep_ms(HOLD_MS).await;
                }
                Kill::Fin => {
                    srv_case.probe("fault.close_fin");
                    net::close_side(&conn, Side::B);
                    sleep_ms(HOLD_MS).await;
                }
                Kill::Reset => net::reset_conn(&conn),
                Kill::Text => {
                    srv_case.probe("fault.text_message");
                    let _ = sink.send(WsMessage::Text("not binary".into())).await;
                    sleep_ms(HOLD_MS).await;
                }
                Kill::BadRepe(k) => {
                    srv_case.probe("fault.malformed_repe_frame");
                    let _ = sink.send(WsMessage::Binary(bad_repe(k, id))).await;
                    // keep the socket open: the client must fail on the bytes alone
                    sleep_ms(HOLD_MS).await;
                }
                Kill::WsGarbage => {
                    srv_case.probe("fault.ws_protocol_violation");
                    net::inject_bytes(&conn, Side::B, &[0x8b, 0x05, 1, 2, 3, 4, 5]);
                    sleep_ms(HOLD_MS).await;
                }
            }
            let _ = drainer.await;
            drop(sink);
        });
        let client = match WebSocketClient::connect(&format!("ws://{addr}/repe")).await {
            Ok(c) => c,
            Err(e) => {
                // the fault may land before the client has read the handshake response: then
                // connect itself fails, which is a correct outcome
                if read_first == 0 {
                    case.probe("connect_failed_by_fault");
                    let _ = timeout(Duration::from_secs(10), server).await;
                    return;
                }
                case.harness_error(format!("connect failed: {e}"));
                return;
            }
        };
        let mut sub = if subscribe { client.subscribe_notifies().ok() } else { None };
        let mut hs = Vec::new();
        for t in 1..=n_inflight as u64 {
            let c = client.clone();
            let to = if with_timeouts && t % 2 == 0 { Some(call_timeout) } else { None };
            hs.push(tokio::spawn(async move { (t, do_call(&c, CallKind::Json, t, to).await) }));
        }
        if peer_stops_reading {
            let c = client.clone();
            hs.push(tokio::spawn(async move { (99, do_call(&c, CallKind::Raw(40_000), 99, None).await) }));
            case.probe("writer_parked_when_fatal_message_arrived");
        }
        let mut oks = 0u32;
        for h in hs {
            // (the peer may hold the dead connection's socket open for ten minutes: the calls
            // must fail on what was received, not when the socket finally closes)
            match timeout(Duration::from_secs(120), h).await {
                Err(_) => {
                    case.fail("hang", format!("a call in flight when the connection failed ({kill:?}) had not returned two minutes later"));
                    return;
                }
                Ok(Ok((t, Err(e)))) if e.starts_with("WRONG-RESPONSE") => case.fail("wrong-response", format!("call {t}: {e}")),
                Ok(Ok((_, Ok(())))) => oks += 1,
                Ok(Ok(_)) => {}
                Ok(Err(e)) => case.fail("panic", format!("caller task failed: {e}")),
            }
        }
        case.check(oks <= answer_first, "ok-without-response", || format!("{oks} calls returned Ok but the server answered only {answer_first}"));
        sleep_ms(3_000).await;
        let Ok(later) = timeout(Duration::from_secs(120), do_call(&client, CallKind::Json, 1000, if coin() { Some(call_timeout) } else { None })).await else {
            case.fail("hang", format!("a call made after the connection failed ({kill:?}) had not returned two minutes later"));
            return;
        };
        case.check(later.is_err(), "call-on-dead-connection-succeeded", || "a call after the connection failed returned Ok".into());
        let Ok(later2) = timeout(Duration::from_secs(120), do_call(&client, CallKind::Empty, 1001, None)).await else {
            case.fail("hang", format!("a second call made after the connection failed ({kill:?}) had not returned two minutes later"));
            return;
        };
        case.check(later2.is_err(), "call-on-dead-connection-succeeded", || "a second call after the connection failed returned Ok".into());
        case.check(client.verif_pending_len() == 0, "pending-residue", || format!("{} pending entries left after the connection failed", client.verif_pending_len()));
        // the notification subscriber sees end-of-stream
        if let Some(rx) = sub.as_mut() {
            match timeout(Duration::from_secs(5), async {
                loop {
                    if rx.recv().await.is_none() {
                        break;
                    }
                }
            })
            .await
            {
                Ok(()) => case.probe("subscriber_saw_end_of_stream"),
                Err(_) => case.fail("subscriber-not-closed", format!("the connection failed ({kill:?}) but the notify subscriber's recv() is still pending")),
            }
        }
        drop(sub);
        drop(client);
        let _ = timeout(Duration::from_secs(10), server).await;
        case.nontrivial();
        if n_inflight > 0 {
            case.probe("calls_in_flight_at_fault");
        }
    });
}

/// Echo server that holds the response to "/echo/victim" for a while (or forever).
async fn victim_server(listener: TcpListener, case: Case, hold_ns: impl Fn(u64) -> u64 + Send + 'static, answer_victim: bool) {
    let Some((ws, _)) = raw_accept(&listener).await else { return };
    let (mut sink, mut stream) = ws.split();
    let mut held: Option<(Frame, u64)> = None;
    loop {
        let now = simkernel::now_ns();
        if let Some((_, due)) = &held
            && now >= *due
        {
            let (f, due) = held.take().unwrap();
            if now > due {
                case.probe("late_response_sent");
            }
            if answer_victim && sink.send(WsMessage::Binary(echo_of(&f).encode())).await.is_err() {
                return;
            }
            continue;
        }
        let next = match &held {
            Some((_, due)) => match timeout(Duration::from_nanos(due - now), stream.next()).await {
                Ok(r) => r,
                Err(_) => continue,
            },
            None => stream.next().await,
        };
        match next {
            Some(Ok(WsMessage::Binary(b))) => {
                let Some(f) = parse_frame(&b) else {
                    case.fail("not-a-frame", format!("client sent a binary message of {} bytes that is not one REPE frame", b.len()));
                    return;
                };
                if f.query_str().ends_with("/victim") {
                    let arrive = simkernel::now_ns();
                    held = Some((f, hold_ns(arrive)));
                } else if f.notify == 0 && sink.send(WsMessage::Binary(echo_of(&f).encode())).await.is_err() {
                    return;
                }
            }
            Some(Ok(_)) => {}
            _ => return,
        }
    }
}

fn c06_timeout_race(case: &Case) {
    let timeout_ms = pick(&[5u64, 20, 100]);
    let delta: i64 = pick(&[-1_000_000i64, -1_000, -1, 0, 1, 1_000, 1_000_000, 50_000_000]);
    let other_calls = range(0, 3);
    case.sample(json!({"scenario": "timeout-race", "timeout_ms": timeout_ms, "response_at_deadline_plus_ns": delta, "other_calls": other_calls}));
    net::set_config(NetConfig { capacity: 65_536, lat_min: 0, lat_max: 0, max_segment: 0 });
    let case = case.clone();
    aio::run(&case.clone(), 3_600, async move {
        let listener = TcpListener::bind("127.0.0.1:0").await.unwrap();
        let addr = listener.local_addr().unwrap();
        let hold = move |arrive: u64| (arrive as i64 + (timeout_ms * 1_000_000) as i64 + delta).max(arrive as i64) as u64;
        let server = tokio::spawn(victim_server(listener, case.clone(), hold, true));
        let client = match WebSocketClient::connect(&format!("ws://{addr}/repe")).await {
            Ok(c) => c,
            Err(e) => {
                case.harness_error(format!("connect failed: {e}"));
                return;
            }
        };
        let vc = client.clone();
        let vcase = case.clone();
        let victim = tokio::spawn(async move {
            match vc.call_with_formats_and_timeout("/echo/victim", 1, Some(b"victim-body"), 0, Duration::from_millis(timeout_ms)).await {
                Ok(m) => {
                    vcase.probe("victim_got_response_in_time");
                    vcase.check(m.body == b"victim-body", "wrong-response", || "victim got a foreign body".into());
                }
                Err(_) => vcase.probe("fault.call_timeout_fired"),
            }
        });
        let mut hs = Vec::new();
        for t in 1..=other_calls as u64 {
            let c = client.clone();
            let case = case.clone();
            let delay = pick(&[0u64, 1, timeout_ms, timeout_ms + 1, timeout_ms * 2]);
            let kind = draw_kind();
            hs.push(tokio::spawn(async move {
                sleep_ms(delay).await;
                if let Err(e) = do_call(&c, kind, t, None).await {
                    let class = if e.starts_with("WRONG-RESPONSE") { "wrong-response" } else { "unrelated-call-failed" };
                    case.fail(class, format!("call {t} around a timed-out call: {e}"));
                }
            }));
        }
        let _ = victim.await;
        for h in hs {
            let _ = h.await;
        }
        sleep_ms(200).await;
        if let Err(e) = do_call(&client, CallKind::Json, 777, None).await {
            case.fail("unrelated-call-failed", format!("call after a timed-out call: {e}"));
        }
        case.check(client.verif_pending_len() == 0, "pending-residue", || format!("{} pending entries after timeout + late response", client.verif_pending_len()));
        drop(client);
        let _ = timeout(Duration::from_secs(10), server).await;
        case.nontrivial();
    });
}

fn c06_cancel(case: &Case) {
    let hold_ms = pick(&[0u64, 1, 10, 100]);
    let answer_victim = simkernel::choose(4) != 0;
    let cancel_polls = range(1, 6);
    let other_calls = range(0, 3);
    let via_timeout = simkernel::choose(3) == 0;
    case.sample(json!({"scenario": "cancellation", "cancel_at_poll": cancel_polls, "via_enclosing_timeout": via_timeout, "server_holds_ms": hold_ms,
        "server_answers_victim": answer_victim, "other_calls": other_calls}));
    let case = case.clone();
    aio::run(&case.clone(), 3_600, async move {
        let listener = TcpListener::bind("127.0.0.1:0").await.unwrap();
        let addr = listener.local_addr().unwrap();
        let hold = move |arrive: u64| arrive + hold_ms * 1_000_000;
        let server = tokio::spawn(victim_server(listener, case.clone(), hold, answer_victim));
        let client = match WebSocketClient::connect(&format!("ws://{addr}/repe")).await {
            Ok(c) => c,
            Err(e) => {
                case.harness_error(format!("connect failed: {e}"));
                return;
            }
        };
        let mut hs = Vec::new();
        for t in 1..=other_calls as u64 {
            let c = client.clone();
            let kind = draw_kind();
            hs.push(tokio::spawn(async move {
                jitter().await;
                (t, do_call(&c, kind, t, None).await)
            }));
        }
        jitter().await;
        let call = client.call_with_formats("/echo/victim", 1, Some(b"victim-body"), 0);
        let outcome = if via_timeout {
            timeout(Duration::from_micros(pick(&[1u64, 50, 500, 5_000])), call).await.ok()
        } else {
            timeout(Duration::from_millis(hold_ms + 500), CancelAfter::new(call, cancel_polls)).await.ok().flatten()
        };
        match outcome {
            None => case.probe("fault.call_cancelled"),
            Some(Ok(m)) => {
                case.probe("victim_completed_before_cancel");
                case.check(m.body == b"victim-body", "wrong-response", || "victim got a foreign body".into());
            }
            Some(Err(e)) => case.fail("call-failed-without-fault", format!("victim call failed: {e}")),
        }
        // A WebSocket message is queued whole inside the transport, so abandoning a call
        // never tears a frame: the client must go on serving everybody else in every case.
        for h in hs {
            match h.await {
                Ok((t, Err(e))) if e.starts_with("WRONG-RESPONSE") => case.fail("wrong-response", format!("call {t}: {e}")),
                Ok((t, Err(e))) => case.fail("unrelated-call-failed", format!("call {t} next to a cancelled call: {e}")),
                Ok(_) => {}
                Err(e) => case.fail("panic", format!("caller task failed: {e}")),
            }
        }
        sleep_ms(hold_ms + 50).await;
        match timeout(Duration::from_secs(30), do_call(&client, CallKind::Json, 777, None)).await {
            Err(_) => case.fail("hang", "a call after a cancelled call never returned"),
            Ok(Err(e)) if e.starts_with("WRONG-RESPONSE") => case.fail("wrong-response", e),
            Ok(Err(e)) => case.fail("unrelated-call-failed", format!("call after a cancelled call: {e}")),
            Ok(Ok(())) => {}
        }
        case.check(client.verif_pending_len() == 0, "pending-residue", || format!("{} pending entries after cancellation", client.verif_pending_len()));
        drop(client);
        let _ = timeout(Duration::from_secs(10), server).await;
        case.nontrivial();
    });
}

/// One call times out while 2-5 sibling calls (lower and higher ids) are still pending; the
/// server answers the siblings only afterwards, in a seeded order.
fn c06_timeout_with_held_siblings(case: &Case) {
    let timeout_ms = pick(&[5u64, 20, 100]);
    let n_sib = range(2, 5) as u64;
    let victim_pos = simkernel::choose(n_sib as u32 + 1) as u64;
    let answer_victim_late = coin();
    case.sample(json!({"scenario": "timeout-with-held-siblings", "timeout_ms": timeout_ms, "siblings": n_sib, "siblings_started_before_victim": victim_pos, "late_victim_response": answer_victim_late}));
    net::set_config(NetConfig { capacity: 65_536, lat_min: 0, lat_max: pick(&[0u64, 50_000]), max_segment: 0 });
    let total = n_sib + 1;
    let case = case.clone();
    aio::run(&case.clone(), 3_600, async move {
        let listener = TcpListener::bind("127.0.0.1:0").await.unwrap();
        let addr = listener.local_addr().unwrap();
        let server = tokio::spawn(async move {
            let Some((ws, _)) = raw_accept(&listener).await else { return };
            let (mut sink, mut stream) = ws.split();
            let mut held: Vec<Frame> = Vec::new();
            while (held.len() as u64) < total {
                match timeout(Duration::from_millis(2_000), stream.next()).await {
                    Ok(Some(Ok(WsMessage::Binary(b)))) => {
                        if let Some(f) = parse_frame(&b) {
                            held.push(f);
                        }
                    }
                    Ok(Some(Ok(_))) => {}
                    _ => return,
                }
            }
            sleep_ms(timeout_ms + 20).await;
            while !held.is_empty() {
                let f = held.remove(simkernel::choose(held.len() as u32) as usize);
                if f.query_str().ends_with("/victim") && !answer_victim_late {
                    continue;
                }
                if sink.send(WsMessage::Binary(echo_of(&f).encode())).await.is_err() {
                    return;
                }
            }
            while let Some(Ok(m)) = stream.next().await {
                if let WsMessage::Binary(b) = m
                    && let Some(f) = parse_frame(&b)
                    && sink.send(WsMessage::Binary(echo_of(&f).encode())).await.is_err()
                {
                    return;
                }
            }
        });
        let client = match WebSocketClient::connect(&format!("ws://{addr}/repe")).await {
            Ok(c) => c,
            Err(e) => {
                case.harness_error(format!("connect failed: {e}"));
                return;
            }
        };
        let mut hs = Vec::new();
        for k in 0..=n_sib {
            let c = client.clone();
            let case = case.clone();
            if k == victim_pos {
                hs.push(tokio::spawn(async move {
                    let r = c.call_with_formats_and_timeout("/echo/victim", 1, Some(b"victim-body"), 0, Duration::from_millis(timeout_ms)).await;
                    case.check(r.is_err(), "ok-without-response", || "the victim was answered only after its deadline but returned Ok".into());
                }));
            } else {
                let t = 100 + k;
                hs.push(tokio::spawn(async move {
                    if let Err(e) = do_call(&c, CallKind::Json, t, None).await {
                        let class = if e.starts_with("WRONG-RESPONSE") { "wrong-response" } else { "unrelated-call-failed" };
                        case.fail(class, format!("sibling call {t} of a timed-out call: {e}"));
                    }
                }));
            }
            sleep_us(200).await;
        }
        for h in hs {
            let _ = h.await;
        }
        sleep_ms(50).await;
        if let Err(e) = do_call(&client, CallKind::Json, 777, None).await {
            case.fail("unrelated-call-failed", format!("call after a timed-out call: {e}"));
        }
        case.check(client.verif_pending_len() == 0, "pending-residue", || format!("{} pending entries after timeout with siblings", client.verif_pending_len()));
        drop(client);
        let _ = timeout(Duration::from_secs(10), server).await;
        case.nontrivial();
        case.probe("timeout_with_siblings_pending");
    });
}

/// A peer that does not read for longer than the call's timeout, then drains and never answers.
fn c06_stall_then_silent(case: &Case) {
    let stall_ms = pick(&[20u64, 200, 1_500]);
    let timeout_ms = pick(&[5u64, 50, 150]);
    let size = pick(&[10usize, 5_000, 200_000]);
    case.sample(json!({"scenario": "stall-then-silent", "peer_reads_after_ms": stall_ms, "call_timeout_ms": timeout_ms, "request_bytes": size}));
    net::set_config(NetConfig { capacity: pick(&[1024usize, 65_536]), lat_min: 0, lat_max: 10_000, max_segment: 0 });
    let case = case.clone();
    aio::run(&case.clone(), 3_600, async move {
        let listener = TcpListener::bind("127.0.0.1:0").await.unwrap();
        let addr = listener.local_addr().unwrap();
        let server = tokio::spawn(async move {
            let Some((ws, _)) = raw_accept(&listener).await else { return };
            let (_sink, mut stream) = ws.split();
            sleep_ms(stall_ms).await;
            simkernel::count("fault.stall_reader");
            loop {
                match timeout(Duration::from_millis(3_000), stream.next()).await {
                    Ok(Some(Ok(_))) => {}
                    _ => return,
                }
            }
        });
        let client = match WebSocketClient::connect(&format!("ws://{addr}/repe")).await {
            Ok(c) => c,
            Err(e) => {
                case.harness_error(format!("connect failed: {e}"));
                return;
            }
        };
        let body = pattern(1, size);
        let t0 = simkernel::now_ns();
        let r = timeout(Duration::from_secs(600), client.call_with_formats_and_timeout("/never-answered", 1, Some(&body), 0, Duration::from_millis(timeout_ms))).await;
        let took_ms = (simkernel::now_ns() - t0) / 1_000_000;
        match r {
            Err(_) => case.fail("hang", format!("a call with a {timeout_ms} ms timeout was still pending after 600 s (peer read after {stall_ms} ms, never answered)")),
            Ok(r) => {
                case.check(r.is_err(), "ok-without-response", || "a call the peer never answered returned Ok".into());
                case.check(took_ms <= stall_ms + timeout_ms + 1_000, "call-outlived-its-timeout", || format!("call with a {timeout_ms} ms timeout returned after {took_ms} ms (the peer started reading after {stall_ms} ms and never answered)"));
            }
        }
        let r2 = timeout(Duration::from_secs(600), client.call_json_with_timeout("/also-never", &json!({"x": 1}), Duration::from_millis(timeout_ms))).await;
        case.check(matches!(r2, Ok(Err(_))), "hang", || "a second timed call did not return an error".into());
        case.check(client.verif_pending_len() == 0, "pending-residue", || format!("{} pending entries after timed-out calls", client.verif_pending_len()));
        drop(client);
        let _ = timeout(Duration::from_secs(10), server).await;
        case.nontrivial();
        case.probe("timeout_expired_while_peer_stalled");
    });
}

// =========================================================================== C05

fn c05_ws_client(case: &Case) {
    let capacity = pick(&[64usize, 256, 1024, 8192, 65_536]);
    net::reset(NetConfig { capacity, lat_min: pick(&[0u64, 10_000]), lat_max: pick(&[10_000u64, 500_000]), max_segment: pick(&[0usize, 0, 13, 100]) });
    let nwriters = pick(&[1u32, 2, 3, 4, 8, 16, 32]);
    let stall_after = pick(&[0usize, 1, 2, 5]);
    let stall_ms = pick(&[0u64, 3, 20, 200, 2_000]);
    let big = simkernel::choose(6) == 0;
    let mut sizes: Vec<usize> = (0..nwriters).map(|_| if big { pick(&[8191usize, 8192, 8193, 20_000, 70_000]) } else { pick(&[0usize, 1, 63, 64, 65, 300, 1000, 3000]) }).collect();
    let mut cancel_mode: Vec<u32> = (0..nwriters).map(|_| pick(&[0u32, 0, 0, 1, 2])).collect();
    // rarely: one multi-megabyte message (beyond any internal buffer), abandoned mid-send
    if simkernel::choose(150) == 0 {
        sizes[0] = pick(&[1_100_000usize, 2_500_000]);
        cancel_mode[0] = pick(&[1u32, 2, 2]);
        // (a wide pipe, or the byte-granular simulation of the transfer dominates the run)
        net::set_config(NetConfig { capacity: 256 * 1024, lat_min: 0, lat_max: 100_000, max_segment: 0 });
        simkernel::count("probe.multi_megabyte_message");
    }
    case.sample(json!({"writers": nwriters, "capacity": capacity, "server_stalls_after_messages": stall_after, "stall_ms": stall_ms, "sizes": sizes, "cancel_mode": cancel_mode}));
    let case = case.clone();
    aio::run(&case.clone(), 3_600, async move {
        let listener = TcpListener::bind("127.0.0.1:0").await.unwrap();
        let addr = listener.local_addr().unwrap();
        let srv_case = case.clone();
        let received = Arc::new(AtomicU64::new(0));
        let rc = received.clone();
        let server = tokio::spawn(async move {
            let Some((ws, _)) = raw_accept(&listener).await else { return };
            let (mut sink, mut stream) = ws.split();
            let mut n = 0usize;
            let mut stalled = false;
            loop {
                if !stalled && n >= stall_after {
                    stalled = true;
                    srv_case.probe("fault.stall_reader");
                    sleep_ms(stall_ms).await;
                }
                match timeout(Duration::from_secs(8), stream.next()).await {
                    Ok(Some(Ok(WsMessage::Binary(b)))) => {
                        n += 1;
                        rc.fetch_add(1, Ordering::SeqCst);
                        let Some(f) = parse_frame(&b) else {
                            srv_case.fail("torn-or-merged-message", format!("binary message #{n} of {} bytes is not exactly one REPE frame", b.len()));
                            return;
                        };
                        let writer: u64 = f.query_str().rsplit('/').next().and_then(|s| s.parse().ok()).unwrap_or(0);
                        if !is_pattern(writer, &f.body) {
                            srv_case.fail("interleaved", format!("message #{n} (id {}, query {}) carries a body that is not its writer's {} bytes", f.id, f.query_str(), f.body.len()));
                            return;
                        }
                        if f.notify == 0 && sink.send(WsMessage::Binary(Frame::new(f.id, &f.query, b"").encode())).await.is_err() {
                            return;
                        }
                    }
                    Ok(Some(Ok(_))) => {}
                    Ok(Some(Err(tokio_tungstenite::tungstenite::Error::Protocol(e)))) => {
                        // the byte stream the client wrote is not a sequence of whole WebSocket
                        // messages (an abrupt end of the connection is not a protocol error of
                        // the stream itself)
                        if !matches!(e, tokio_tungstenite::tungstenite::error::ProtocolError::ResetWithoutClosingHandshake) {
                            srv_case.fail("torn-or-merged-message", format!("after {n} whole messages the client's byte stream violates the WebSocket framing: {e}"));
                        }
                        return;
                    }
                    _ => return,
                }
            }
        });
        let client = match WebSocketClient::connect(&format!("ws://{addr}/repe")).await {
            Ok(c) => c,
            Err(e) => {
                case.harness_error(format!("connect failed: {e}"));
                return;
            }
        };
        let mut hs = Vec::new();
        for (i, len) in sizes.iter().cloned().enumerate() {
            let c = client.clone();
            let case = case.clone();
            let notify = simkernel::choose(5) == 0;
            let mode = cancel_mode[i];
            let polls = range(1, 8);
            let to_us = pick(&[1u64, 20, 300, 2_000, 30_000]);
            hs.push(tokio::spawn(async move {
                jitter().await;
                let body = pattern(i as u64 + 1, len);
                let path = format!("/w/{}", i + 1);
                let fut = async {
                    if notify {
                        c.notify_with_formats(&path, 1, Some(&body), 0).await.map(|_| ())
                    } else {
                        c.call_with_formats_and_timeout(&path, 1, Some(&body), 0, Duration::from_secs(5)).await.map(|_| ())
                    }
                };
                let r: Option<Result<(), RepeError>> = match mode {
                    1 => timeout(Duration::from_secs(6), CancelAfter::new(fut, polls)).await.ok().flatten(),
                    2 => timeout(Duration::from_micros(to_us), fut).await.ok(),
                    _ => Some(fut.await),
                };
                if r.is_none() {
                    case.probe("fault.caller_abandoned_call");
                }
            }));
        }
        for h in hs {
            let _ = h.await;
        }
        let follow = pattern(999, 10);
        let _ = timeout(Duration::from_secs(2), client.notify_with_formats("/w/999", 1, Some(&follow), 0)).await;
        let _ = client.call_with_formats_and_timeout("/w/999", 1, Some(&follow), 0, Duration::from_millis(300)).await;
        sleep_ms(2_500).await;
        if received.load(Ordering::SeqCst) >= 2 {
            case.probe("multi_frame_stream");
        }
        drop(client);
        let _ = timeout(Duration::from_secs(20), server).await;
        case.nontrivial();
    });
}
