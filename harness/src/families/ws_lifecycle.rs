//! C15 on the real `WebSocketServer`: every exit cause crossed with every connection phase,
//! 1-32 connections, served through the built-in accept loops (plain and graceful drain),
//! an embedder accept loop (`accept_with_handshake` + `serve_connection_with_cancel_and_
//! handshake`) and adopted "already upgraded" streams (`adopt_upgraded` + `serve_connection`).

use crate::codec::Frame;
use crate::families::aio::{self, jitter, sleep_ms};
use crate::families::ws_common::{
    Exit, Gate, HookLog, Inbox, RawSink, Rx, raw_client_no_handshake, raw_connect_with_headers, send_frame, spawn_collector, wait_until,
};
use crate::framework::{Case, Family, pick, range};
use futures_util::{SinkExt, StreamExt};
use repe::constants::ErrorCode;
use repe::server::Router;
use repe::websocket_server::{ConnectionError, HandshakeContext, ShutdownToken, WebSocketServer};
use repe::{NotifyBody, PeerHandle, PeerId, PeerRegistry, WebSocketLimits};
use serde_json::{Value, json};
use simkernel::net::{self, ConnRef, NetConfig, Side};
use simkernel::tokio_net::{TcpListener, TcpStream};
use std::collections::BTreeMap;
use std::sync::Arc;
use std::sync::atomic::{AtomicBool, AtomicU64, Ordering};
use std::time::Duration;
use tokio_tungstenite::tungstenite::Message as WsMessage;

pub fn families() -> Vec<Family> {
    vec![
        Family::new(
            "c15_ws_lifecycle",
            "C15",
            "WebSocketServer lifecycle: exit cause x connection phase x serving mode for 1-32 connections; hook order/once-ness, registry presence, connect-notifies first, cancellation seen by parked handlers",
            c15_ws_lifecycle,
        )
        .runs(20_000, 1_200_000)
        .steps(3_000_000)
        .tokio(),
        Family::new(
            "c15_registry_teardown",
            "C15",
            "the registry half of a disconnect on its own, under the thread scheduler: what the server's disconnect callback does (remove the peer) races handlers and background threads that still assign aliases to that peer or look it up; afterwards the peer and every one of its aliases must be absent, whatever alias() returned",
            c15_registry_teardown,
        )
        .runs(60_000, 3_600_000)
        .steps(100_000),
    ]
}

/// A key whose conversion to `String` is a scheduling point.
struct YieldingKey(String);
impl From<YieldingKey> for String {
    fn from(k: YieldingKey) -> String {
        simkernel::thread::yield_now();
        k.0
    }
}

fn c15_registry_teardown(case: &Case) {
    use repe::peer::{NotifyBody, PeerSendError, PeerSink};
    struct Null;
    impl PeerSink for Null {
        fn send_notify(&self, _: &str, _: NotifyBody) -> Result<(), PeerSendError> {
            Ok(())
        }
        fn is_connected(&self) -> bool {
            true
        }
    }
    let reg = PeerRegistry::new();
    let n_peers = pick(&[1u64, 2, 3]);
    for id in 0..n_peers {
        reg.insert(PeerHandle::new(PeerId(id), Arc::new(Null)));
        reg.alias(PeerId(id), format!("connect-{id}"));
    }
    reg.alias(PeerId(0), "shared");
    let n_aliasers = pick(&[1usize, 2, 3]);
    case.sample(json!({"peers": n_peers, "threads_assigning_aliases_to_the_departing_peer": n_aliasers}));
    let results: Arc<std::sync::Mutex<Vec<(String, bool)>>> = Default::default();
    let mut hs = Vec::new();
    for t in 0..n_aliasers {
        let (r, res) = (reg.clone(), results.clone());
        let yielding = simkernel::choose(2) == 0;
        let key = if simkernel::choose(3) == 0 { "shared".to_string() } else { format!("late-{t}") };
        hs.push(simkernel::thread::spawn(move || {
            let ok = if yielding { r.alias(PeerId(0), YieldingKey(key.clone())) } else { r.alias(PeerId(0), key.clone()) };
            res.lock().unwrap().push((key, ok));
        }));
    }
    // the disconnect callback of peer 0
    let r2 = reg.clone();
    hs.push(simkernel::thread::spawn(move || {
        r2.remove(PeerId(0));
    }));
    if n_peers > 1 && simkernel::choose(2) == 0 {
        let r3 = reg.clone();
        hs.push(simkernel::thread::spawn(move || {
            r3.alias(PeerId(1), "shared");
        }));
    }
    for h in hs {
        h.join().ok();
    }
    let res = results.lock().unwrap().clone();
    case.check(reg.get(PeerId(0)).is_none(), "registry-residue", || "the removed peer is still in the registry".into());
    let left = reg.aliases_for(PeerId(0));
    case.check(left.is_empty() && reg.key_for(PeerId(0)).is_none(), "registry-residue", || format!("peer 0 was removed; aliases_for(0) = {left:?}, key_for(0) = {:?}; alias() calls returned {res:?}", reg.key_for(PeerId(0))));
    for k in ["connect-0", "late-0", "late-1", "late-2", "shared"] {
        let owner = reg.get_by(k).map(|p| p.peer_id().0);
        case.check(owner != Some(0), "registry-residue", || format!("key {k:?} still resolves to the removed peer; alias() calls returned {res:?}"));
    }
    for id in 1..n_peers {
        case.check(reg.get_by(&format!("connect-{id}")).map(|p| p.peer_id().0) == Some(id), "registry-presence", || format!("a bystander's alias connect-{id} was lost"));
    }
    if res.iter().any(|(_, ok)| *ok) && res.iter().any(|(_, ok)| !*ok) {
        case.probe("alias_raced_the_disconnect_both_ways");
    }
    case.nontrivial();
}

tokio::task_local! {
    static CONN_INDEX: u64;
}

#[derive(Clone, Copy, Debug, PartialEq, Eq)]
enum Mode {
    /// `serve_listener_with_shutdown`
    Loop,
    /// `serve_listener_with_graceful_drain`
    Drain,
    /// harness accept loop: `accept_with_handshake` + `serve_connection_with_cancel_and_handshake`
    Embedder,
    /// no HTTP at all: `adopt_upgraded` + `serve_connection`
    Adopted,
}

#[derive(Clone, Copy, Debug, PartialEq, Eq)]
enum Phase {
    Idle,
    InlineRunning,
    OffReaderParked,
    OutboundBusy,
    DuringConnect,
}

#[derive(Clone, Copy, Debug, PartialEq, Eq)]
enum Cause {
    CleanClose,
    Fin,
    Rst,
    /// 0 reserved opcode, 1 unmasked client frame, 2 text message, 3 oversize message
    WsViolation(u8),
    /// 0 bad magic, 1 inconsistent lengths, 2 trailing bytes, 3 shorter than a header
    MalformedRepe(u8),
    InlinePanic,
    ConnectPanic,
    /// the inline handler itself cancels the embedder's ShutdownToken (embedder mode; elsewhere it survives)
    CancelInside,
    /// stays up until the run-level event (embedder cancel / drain / client close at the end)
    Survive,
}

#[derive(Clone, Copy, Debug, PartialEq, Eq)]
enum Handshake {
    Ok,
    WrongPath,
    Garbage,
    EofMidway,
}

#[derive(Clone, Debug)]
struct Plan {
    phase: Phase,
    cause: Cause,
    handshake: Handshake,
}

struct Shared {
    log: HookLog,
    reg: PeerRegistry,
    gate: Arc<Gate>,
    plans: Vec<Plan>,
    conns: std::sync::Mutex<BTreeMap<u64, ConnRef>>,
    /// peer id -> connection index (learned in a connect hook)
    peer_conn: std::sync::Mutex<BTreeMap<u64, u64>>,
    token: ShutdownToken,
    errors: std::sync::Mutex<Vec<String>>,
    /// observations made inside hooks that contradict the property
    hook_faults: std::sync::Mutex<Vec<String>>,
    mode: Mode,
    /// further (padded) notifies the first connect callback queues: enough, sometimes, to keep
    /// the writer busy while the first request is already being read
    extra_hellos: usize,
    hello_pad: usize,
    /// builder order: the handshake-aware (aliasing) hook is registered before the registry
    alias_hook_first: bool,
}

impl Shared {
    fn act(&self, conn: u64, what: &str) {
        match what {
            "reset" => {
                if let Some(c) = self.conns.lock().unwrap().get(&conn) {
                    net::reset_conn(c);
                }
            }
            "cancel" => self.token.cancel(),
            "panic" => std::panic::panic_any(simkernel::ExpectedPanic("callback panics on purpose")),
            _ => {}
        }
    }
    /// The action a connect callback performs for connection `conn` (phase DuringConnect).
    fn connect_action(&self, conn: u64) -> &'static str {
        let Some(p) = self.plans.get(conn as usize) else { return "" };
        if p.phase != Phase::DuringConnect {
            return "";
        }
        match p.cause {
            Cause::Rst => "reset",
            Cause::ConnectPanic => "panic",
            _ => "",
        }
    }
}

fn make_handshake_hook(h: Arc<Shared>) -> impl Fn(&PeerHandle, &HandshakeContext) + Send + Sync + 'static {
    move |peer: &PeerHandle, hs: &HandshakeContext| {
            let id = peer.peer_id().0;
            h.log.push("handshake-H", id);
            let conn: u64 = hs.header("x-conn").and_then(|s| s.parse().ok()).unwrap_or(u64::MAX);
            h.peer_conn.lock().unwrap().insert(id, conn);
            if !h.reg.alias(PeerId(id), format!("k{id}")) || !h.reg.alias(PeerId(id), format!("s{id}")) {
                h.hook_faults.lock().unwrap().push(format!("alias for peer {id} refused although its insert hook has run"));
            }
            // a key that moves: every new connection takes "shared" over from whoever holds it
            h.reg.alias(PeerId(id), "shared");
            h.log.push("aliased", id);
            let act = h.connect_action(conn);
            h.act(conn, act);
            }
}

fn build_server(sh: &Arc<Shared>, limits: WebSocketLimits) -> WebSocketServer {
    let gate = sh.gate.clone();
    let (s1, s2, s3) = (sh.clone(), sh.clone(), sh.clone());
    // the same "act" reachable as a callable of a registry mounted on the router: its context
    // carries the connection's cancellation signal like any other handler's
    let tree = Arc::new(repe::registry::Registry::new());
    let s4 = sh.clone();
    tree.register_function(
        "/act",
        repe::registry::WithContext(move |ctx: &repe::peer::CallContext, params: Option<Value>| {
            let v = params.unwrap_or(Value::Null);
            let act = v["act"].as_str().unwrap_or("").to_string();
            s4.act(v["conn"].as_u64().unwrap_or(0), &act);
            if act == "cancel" && s4.mode == Mode::Embedder {
                simkernel::count("probe.cancel_from_inside_registry_callable");
                if !ctx.is_cancelled() {
                    s4.hook_faults.lock().unwrap().push("a registry callable still running after the embedder's ShutdownToken was cancelled saw is_cancelled() == false".to_string());
                }
            }
            Ok(json!({"acted": true}))
        }),
    )
    .expect("register /act");
    let router = Router::new()
        .with_registry("/tree", tree)
        .with_json("/echo", |v: Value| Ok(json!({"echo": v})))
        .with_json_ctx("/act", move |ctx, v: Value| {
            let act = v["act"].as_str().unwrap_or("");
            s1.act(v["conn"].as_u64().unwrap_or(0), act);
            // an inline handler that is running when the embedder cancels sees it too
            if act == "cancel" && s1.mode == Mode::Embedder {
                simkernel::count("probe.cancel_from_inside_inline_handler");
                if !ctx.is_cancelled() {
                    s1.hook_faults.lock().unwrap().push("an inline handler still running after the embedder's ShutdownToken was cancelled saw is_cancelled() == false".to_string());
                }
            }
            Ok(json!({"acted": true}))
        })
        .with_json_ctx("/burst", move |ctx, v: Value| {
            let n = v["n"].as_u64().unwrap_or(0);
            if let Some(p) = ctx.peer() {
                for k in 0..n {
                    let _ = p.send_notify("/pushed", NotifyBody::Json(serde_json::to_vec(&json!({"k": k, "pad": "x".repeat(200)})).unwrap()));
                }
            }
            let _ = &s2;
            Ok(json!({"burst": n, "pad": "y".repeat(v["pad"].as_u64().unwrap_or(0) as usize)}))
        })
        .with_json_ctx_blocking("/gate", move |ctx, v: Value| {
            let tag = v["tag"].as_u64().unwrap_or(0);
            match gate.enter(tag, || ctx.is_cancelled()) {
                Exit::Return => Ok(json!({"tag": tag})),
                Exit::Error => Err((ErrorCode::ApplicationErrorBase, "gate-error".into())),
                Exit::Panic => std::panic::panic_any(simkernel::ExpectedPanic("gated handler panics on purpose")),
            }
        });
    let _ = s3;
    let (a, b, x, y, e) = (sh.clone(), sh.clone(), sh.clone(), sh.clone(), sh.clone());
    // The handshake-aware hook (it assigns the aliases) may be registered before or after the
    // registry: either way it runs after every plain connect hook, i.e. after the insert.
    let srv = WebSocketServer::new(router).with_limits(limits).with_outbound_capacity(8);
    let srv = if sh.alias_hook_first { srv.on_peer_connect_with_handshake(make_handshake_hook(sh.clone())) } else { srv };
    let srv = srv
        .on_peer_connect(move |peer: PeerHandle| {
            let id = peer.peer_id().0;
            a.log.push("connect-A", id);
            if a.reg.get(PeerId(id)).is_some() {
                a.hook_faults.lock().unwrap().push(format!("peer {id} already in the registry before its insert hook ran"));
            }
            let _ = peer.send_notify("/hello", NotifyBody::Json(serde_json::to_vec(&json!({"peer": id})).unwrap()));
            for k in 0..a.extra_hellos {
                let _ = peer.send_notify("/hello", NotifyBody::Json(serde_json::to_vec(&json!({"peer": id, "k": k, "pad": "p".repeat(a.hello_pad)})).unwrap()));
            }
        })
        .on_peer_disconnect(move |id: PeerId| {
            x.log.push("disconnect-X", id.0);
            // its own aliases are still there (losing "shared" to a later connection is fine)
            if x.log.of_peer(id.0).iter().any(|e| e == "aliased") {
                let al = x.reg.aliases_for(id);
                if !al.contains(&format!("k{}", id.0)) || !al.contains(&format!("s{}", id.0)) || x.reg.get_by(&format!("s{}", id.0)).map(|p| p.peer_id()) != Some(id) {
                    x.hook_faults.lock().unwrap().push(format!("peer {} lost its own aliases while connected: aliases_for = {al:?}", id.0));
                }
            }
            // registered before the registry's remove hook: the peer is still present
            if x.log.of_peer(id.0).iter().any(|e| e == "inserted") && x.reg.get(id).is_none() {
                x.hook_faults.lock().unwrap().push(format!("peer {} vanished from the registry before its disconnect hooks ran", id.0));
            }
        })
        .with_peer_registry(sh.reg.clone())
        .on_peer_connect(move |peer: PeerHandle| {
            let id = peer.peer_id().0;
            b.log.push("connect-B", id);
            if b.reg.get(PeerId(id)).is_none() {
                b.hook_faults.lock().unwrap().push(format!("peer {id} not in the registry after the insert hook"));
            } else {
                b.log.push("inserted", id);
            }
            let _ = peer.send_notify("/hello2", NotifyBody::Utf8(format!("second-{id}")));
            // adopted streams carry no handshake: the connection index rides in a task-local
            if let Ok(conn) = CONN_INDEX.try_with(|c| *c) {
                b.peer_conn.lock().unwrap().insert(id, conn);
                if b.mode == Mode::Adopted {
                    b.reg.alias(PeerId(id), format!("k{id}"));
                    b.reg.alias(PeerId(id), format!("s{id}"));
                    b.reg.alias(PeerId(id), "shared");
                    b.log.push("aliased", id);
                    let act = b.connect_action(conn);
                    b.act(conn, act);
                }
            }
        })
        ;
    let srv = if !sh.alias_hook_first { srv.on_peer_connect_with_handshake(make_handshake_hook(sh.clone())) } else { srv };
    srv
        .on_peer_disconnect(move |id: PeerId| {
            y.log.push("disconnect-Y", id.0);
            // registered after the registry's remove hook: peer and aliases are gone
            if y.reg.get(id).is_some() || y.reg.get_by(&format!("k{}", id.0)).is_some() || y.reg.get_by(&format!("s{}", id.0)).is_some() || !y.reg.aliases_for(id).is_empty() || y.reg.get_by("shared").is_some_and(|p| p.peer_id() == id) {
                y.hook_faults.lock().unwrap().push(format!("peer {} (or its alias) still in the registry after the remove hook", id.0));
            }
        })
        .on_error(move |err: &ConnectionError| {
            e.errors.lock().unwrap().push(err.to_string());
        })
}

fn draw_plan(mode: Mode) -> Plan {
    let handshake = if mode != Mode::Adopted && simkernel::choose(8) == 0 { pick(&[Handshake::WrongPath, Handshake::Garbage, Handshake::EofMidway]) } else { Handshake::Ok };
    let phase = pick(&[Phase::Idle, Phase::Idle, Phase::InlineRunning, Phase::OffReaderParked, Phase::OffReaderParked, Phase::OutboundBusy, Phase::DuringConnect]);
    let cause = match phase {
        Phase::InlineRunning => pick(&[Cause::Rst, Cause::InlinePanic, Cause::InlinePanic, Cause::CancelInside]),
        Phase::DuringConnect => pick(&[Cause::Rst, Cause::ConnectPanic, Cause::ConnectPanic]),
        _ => match simkernel::choose(13) {
            12 => Cause::InlinePanic,
            0 | 1 => Cause::CleanClose,
            2 | 3 => Cause::Fin,
            4 => Cause::Rst,
            5 | 6 => Cause::WsViolation(simkernel::choose(4) as u8),
            7 | 8 => Cause::MalformedRepe(simkernel::choose(4) as u8),
            _ => Cause::Survive,
        },
    };
    Plan { phase, cause, handshake }
}

struct ClientOutcome {
    handshake_ok: bool,
    inbox: Arc<Inbox>,
    gate_tag: Option<u64>,
}

async fn fail_handshake(addr: std::net::SocketAddr, how: Handshake, conn: u64) {
    match how {
        Handshake::WrongPath => {
            let _ = raw_connect_with_headers(addr, "/not-repe", &[("x-conn", &conn.to_string())]).await;
        }
        Handshake::Garbage => {
            if let Ok(mut s) = TcpStream::connect(addr).await {
                let _ = tokio::io::AsyncWriteExt::write_all(&mut s, b"\x00\x01garbage that is not http\r\n\r\n").await;
                let mut buf = [0u8; 256];
                let _ = tokio::time::timeout(Duration::from_millis(50), tokio::io::AsyncReadExt::read(&mut s, &mut buf)).await;
            }
        }
        Handshake::EofMidway => {
            if let Ok(mut s) = TcpStream::connect(addr).await {
                let _ = tokio::io::AsyncWriteExt::write_all(&mut s, b"GET /repe HTTP/1.1\r\nHost: x\r\nUpgrade: websoc").await;
                drop(s);
            }
        }
        Handshake::Ok => {}
    }
}

/// One client connection living through its planned phase and exit cause.
async fn client(case: Case, sh: Arc<Shared>, conn: u64, ws: crate::families::ws_common::RawWs, cref: ConnRef) -> ClientOutcome {
    let plan = sh.plans[conn as usize].clone();
    let (mut sink, stream) = ws.split();
    let inbox = Arc::new(Inbox::default());
    // the first request is pipelined right behind the handshake: connect-hook notifies must
    // still come first on the wire
    let mut next_id = 1u64;
    // (... whoever produces that response: a handler, or the reader itself rejecting the request)
    let first = match simkernel::choose(4) {
        0 => Frame::new(next_id, b"/no/such/method", b"{\"first\":true}").with_formats(1, 2),
        1 => {
            let mut f = Frame::new(next_id, b"/echo", b"{\"first\":true}").with_formats(1, 2);
            f.version = 9;
            f
        }
        _ => Frame::new(next_id, b"/echo", b"{\"first\":true}").with_formats(1, 2),
    };
    let _ = send_frame(&mut sink, &first).await;
    let mut stream = Some(stream);
    let mut collector = None;
    if plan.phase != Phase::OutboundBusy {
        collector = Some(spawn_collector(stream.take().unwrap(), inbox.clone()));
    }
    let mut gate_tag = None;
    match plan.phase {
        Phase::Idle | Phase::DuringConnect => {
            wait_until(50, || !inbox.responses_for(1).is_empty() || inbox.ended()).await;
        }
        Phase::OffReaderParked => {
            next_id += 1;
            let tag = conn * 100 + 1;
            gate_tag = Some(tag);
            let body = serde_json::to_vec(&json!({"tag": tag})).unwrap();
            let _ = send_frame(&mut sink, &Frame::new(next_id, b"/gate", &body).with_formats(1, 2)).await;
            let g = sh.gate.clone();
            wait_until(100, || g.has_arrived(tag) || inbox.ended()).await;
            if sh.gate.has_arrived(tag) {
                case.probe("exit_with_offreader_handler_parked");
            }
        }
        Phase::InlineRunning => {
            next_id += 1;
            let act = match plan.cause {
                Cause::Rst => "reset",
                Cause::CancelInside => "cancel",
                _ => "panic",
            };
            let body = serde_json::to_vec(&json!({"conn": conn, "act": act})).unwrap();
            let route: &[u8] = if simkernel::choose(3) == 0 { b"/tree/act" } else { b"/act" };
            let _ = send_frame(&mut sink, &Frame::new(next_id, route, &body).with_formats(1, 2)).await;
            case.probe("exit_from_inside_inline_handler");
        }
        Phase::OutboundBusy => {
            // nobody reads on this side: the server's writer backs up behind a full socket
            net::set_capacity(&cref, Side::B, 256);
            next_id += 1;
            // several bursts: more responses than the outbound queue (8) holds, so the reader
            // itself ends up parked on the full queue
            for _ in 0..12 {
                let body = serde_json::to_vec(&json!({"n": 12, "pad": 4000})).unwrap();
                let _ = tokio::time::timeout(Duration::from_millis(50), send_frame(&mut sink, &Frame::new(next_id, b"/burst", &body).with_formats(1, 2))).await;
                next_id += 1;
            }
            sleep_ms(5).await;
            if net::unread_bytes(&cref, Side::B) >= 200 {
                case.probe("exit_with_outbound_backlog");
            }
        }
    }
    jitter().await;
    simkernel::event(|| format!("client {conn}: phase {:?} reached, cause {:?}", plan.phase, plan.cause));
    // the exit cause
    match plan.cause {
        Cause::CleanClose => {
            if collector.is_none() {
                collector = Some(spawn_collector(stream.take().unwrap(), inbox.clone()));
            }
            let _ = tokio::time::timeout(Duration::from_secs(2), sink.close()).await;
        }
        Cause::Fin => {
            if let Some(c) = collector.take() {
                c.abort();
                let _ = c.await;
            }
            drop(stream.take());
            drop(sink);
            simkernel::count("fault.close_fin");
            return ClientOutcome { handshake_ok: true, inbox, gate_tag };
        }
        Cause::Rst if plan.phase != Phase::InlineRunning && plan.phase != Phase::DuringConnect => net::reset_conn(&cref),
        Cause::WsViolation(k) => {
            simkernel::count("fault.ws_protocol_violation");
            match k {
                0 => net::inject_bytes(&cref, Side::A, &[0x83, 0x80, 1, 2, 3, 4]),
                1 => net::inject_bytes(&cref, Side::A, &[0x82, 0x03, b'a', b'b', b'c']),
                2 => {
                    let _ = tokio::time::timeout(Duration::from_secs(2), sink.send(WsMessage::Text("text is not allowed".into()))).await;
                }
                _ => {
                    // (bounded: the server stops reading once it has seen enough)
                    let _ = tokio::time::timeout(Duration::from_secs(2), sink.send(WsMessage::Binary(vec![0u8; 70_000]))).await;
                }
            }
        }
        Cause::InlinePanic if plan.phase != Phase::InlineRunning => {
            // an inline handler panics while another handler of this connection is parked / the
            // queue is backed up
            next_id += 1;
            let body = serde_json::to_vec(&json!({"conn": conn, "act": "panic"})).unwrap();
            let _ = tokio::time::timeout(Duration::from_secs(2), send_frame(&mut sink, &Frame::new(next_id, b"/act", &body).with_formats(1, 2))).await;
        }
        Cause::MalformedRepe(k) => {
            simkernel::count("fault.malformed_repe_frame");
            let good = Frame::new(77, b"/echo", b"{}").with_formats(1, 2);
            let bytes = match k {
                0 => {
                    let mut f = good.clone();
                    f.spec = 0x4242;
                    f.encode()
                }
                1 => {
                    let mut f = good.clone();
                    f.length += 5;
                    f.encode()
                }
                2 => {
                    let mut b = good.encode();
                    b.extend_from_slice(b"trailing");
                    b
                }
                _ => vec![1, 2, 3],
            };
            let _ = tokio::time::timeout(Duration::from_secs(2), sink.send(WsMessage::Binary(bytes))).await;
        }
        _ => {}
    }
    if matches!(plan.cause, Cause::Survive | Cause::CancelInside) && collector.is_none() {
        // still not reading: the backlog must be there when the run-level event arrives
        simkernel::count("probe.backlog_held_through_run_level_event");
        wait_until(60_000, || RUN_END.load(Ordering::SeqCst)).await;
        // ... and possibly long after it: an embedder cancel / drain must end this
        // connection although its peer never reads
        sleep_ms(pick(&[0u64, 5, 100, 12_000])).await;
    }
    if collector.is_none() {
        collector = Some(spawn_collector(stream.take().unwrap(), inbox.clone()));
    }
    if matches!(plan.cause, Cause::Survive | Cause::CancelInside) {
        // kept open until the run-level event; hand the sink to the caller by leaking it into
        // a task that closes it when the run says so
        return finish_survivor(sh, inbox, gate_tag, sink, collector.unwrap()).await;
    }
    // wait for the server to end the connection
    simkernel::event(|| format!("client {conn}: cause applied"));
    let ib = inbox.clone();
    wait_until(12_000, || ib.ended()).await;
    simkernel::event(|| format!("client {conn}: done (ended={})", inbox.ended()));
    drop(sink);
    if let Some(c) = collector {
        c.abort();
        let _ = c.await;
    }
    ClientOutcome { handshake_ok: true, inbox, gate_tag }
}

static RUN_END: AtomicBool = AtomicBool::new(false);

async fn finish_survivor(sh: Arc<Shared>, inbox: Arc<Inbox>, gate_tag: Option<u64>, mut sink: RawSink, collector: tokio::task::JoinHandle<()>) -> ClientOutcome {
    // wait for the run-level event, then (for modes where the server does not end the
    // connection itself) close cleanly
    wait_until(60_000, || RUN_END.load(Ordering::SeqCst) || inbox.ended()).await;
    if !inbox.ended() && matches!(sh.mode, Mode::Loop | Mode::Adopted) {
        let _ = tokio::time::timeout(Duration::from_secs(2), sink.close()).await;
    }
    let ib = inbox.clone();
    wait_until(12_000, || ib.ended()).await;
    drop(sink);
    collector.abort();
    let _ = collector.await;
    ClientOutcome { handshake_ok: true, inbox, gate_tag }
}

fn c15_ws_lifecycle(case: &Case) {
    let mode = pick(&[Mode::Loop, Mode::Drain, Mode::Embedder, Mode::Adopted]);
    net::reset(NetConfig { capacity: pick(&[4096usize, 65_536]), lat_min: pick(&[0u64, 10_000]), lat_max: pick(&[10_000u64, 300_000]), max_segment: pick(&[0usize, 0, 97]) });
    let nconn = pick(&[1u32, 1, 2, 2, 3, 4, 6, 8, 16, 32]) as usize;
    let plans: Vec<Plan> = (0..nconn).map(|_| draw_plan(mode)).collect();
    // co-hosting modes: at the run-level event the embedder sometimes aborts its per-connection
    // tasks (drops the serve_connection futures) instead of cancelling / waiting
    let abort_tasks = matches!(mode, Mode::Embedder | Mode::Adopted) && simkernel::choose(3) == 0;
    let alias_hook_first = simkernel::choose(2) == 0;
    let extra_hellos = pick(&[0usize, 0, 3, 6]);
    let hello_pad = pick(&[0usize, 1500]);
    let drain_ms = pick(&[50u64, 300, 2_000]);
    case.sample(json!({"mode": format!("{mode:?}"), "connections": nconn, "embedder_aborts_tasks_at_the_end": abort_tasks, "extra_connect_notifies": extra_hellos, "connect_notify_pad": hello_pad, "drain_timeout_ms": drain_ms,
        "plans": plans.iter().map(|p| format!("{:?}/{:?}/{:?}", p.handshake, p.phase, p.cause)).collect::<Vec<_>>()}));
    for p in &plans {
        case.cover("mode/handshake/phase/cause", format!("{mode:?}/{:?}/{:?}/{:?}", p.handshake, p.phase, p.cause));
    }
    RUN_END.store(false, Ordering::SeqCst);
    let case = case.clone();
    aio::run(&case.clone(), 3_600, async move {
        let sh = Arc::new(Shared {
            log: HookLog::default(),
            reg: PeerRegistry::new(),
            gate: Gate::new(),
            plans: plans.clone(),
            conns: Default::default(),
            peer_conn: Default::default(),
            token: ShutdownToken::new(),
            errors: Default::default(),
            hook_faults: Default::default(),
            mode,
            extra_hellos,
            hello_pad,
            alias_hook_first,
        });
        let limits = WebSocketLimits::default().with_max_incoming_message_size(Some(65_536)).with_max_incoming_frame_size(Some(65_536));
        let server = build_server(&sh, limits);
        let listener = TcpListener::bind("127.0.0.1:0").await.unwrap();
        let addr = listener.local_addr().unwrap();
        let (stop_tx, stop_rx) = tokio::sync::oneshot::channel::<()>();
        let served_panics = Arc::new(AtomicU64::new(0));
        let srv: tokio::task::JoinHandle<()> = match mode {
            Mode::Loop => tokio::spawn(async move {
                let _ = server.serve_listener_with_shutdown(listener, "/repe", async { let _ = stop_rx.await; }).await;
            }),
            Mode::Drain => tokio::spawn(async move {
                let _ = server.serve_listener_with_graceful_drain(listener, "/repe", async { let _ = stop_rx.await; }, Duration::from_millis(drain_ms)).await;
            }),
            Mode::Embedder => {
                let shared = server.into_shared();
                let sh2 = sh.clone();
                let sp = served_panics.clone();
                tokio::spawn(async move {
                    let mut set = tokio::task::JoinSet::new();
                    let mut stop_rx = stop_rx;
                    loop {
                        tokio::select! {
                            acc = listener.accept() => {
                                let Ok((stream, _)) = acc else { break };
                                let shared = shared.clone();
                                let token = sh2.token.clone();
                                set.spawn(async move {
                                    if let Ok((ws, hs)) = WebSocketServer::accept_with_handshake_and_limits(stream, "/repe", shared.limits()).await {
                                        let _ = shared.serve_connection_with_cancel_and_handshake(ws, hs, &token).await;
                                    }
                                });
                            }
                            _ = &mut stop_rx => break,
                        }
                    }
                    if abort_tasks {
                        // the embedder simply drops its per-connection futures
                        simkernel::count("fault.embedder_aborts_connection_tasks");
                        set.shutdown().await;
                        return;
                    }
                    sh2.token.cancel();
                    while let Some(r) = set.join_next().await {
                        if let Err(e) = r && e.is_panic() {
                            sp.fetch_add(1, Ordering::SeqCst);
                        }
                    }
                })
            }
            Mode::Adopted => {
                let shared = server.into_shared();
                let sp = served_panics.clone();
                let next = Arc::new(AtomicU64::new(0));
                tokio::spawn(async move {
                    let mut set = tokio::task::JoinSet::new();
                    let mut stop_rx = stop_rx;
                    loop {
                        tokio::select! {
                            acc = listener.accept() => {
                                let Ok((stream, _)) = acc else { break };
                                let shared = shared.clone();
                                // adopted connections arrive in the order the harness opened them
                                let idx = next.fetch_add(1, Ordering::SeqCst);
                                set.spawn(CONN_INDEX.scope(idx, async move {
                                    let ws = shared.adopt_upgraded(stream).await;
                                    let _ = shared.serve_connection(ws).await;
                                }));
                            }
                            _ = &mut stop_rx => break,
                        }
                    }
                    if abort_tasks {
                        simkernel::count("fault.embedder_aborts_connection_tasks");
                        set.shutdown().await;
                        return;
                    }
                    while let Some(r) = set.join_next().await {
                        if let Err(e) = r && e.is_panic() {
                            sp.fetch_add(1, Ordering::SeqCst);
                        }
                    }
                })
            }
        };

        // ---- clients
        let mut tasks = Vec::new();
        for conn in 0..nconn as u64 {
            let plan = plans[conn as usize].clone();
            if mode == Mode::Adopted {
                // open strictly one after another so that the accept order is the index order
                let Ok(stream) = TcpStream::connect(addr).await else { continue };
                let cref = stream.conn();
                sh.conns.lock().unwrap().insert(conn, cref.clone());
                let ws = raw_client_no_handshake(stream).await;
                sleep_ms(1).await;
                tasks.push(tokio::spawn(client(case.clone(), sh.clone(), conn, ws, cref)));
                continue;
            }
            let (case2, sh2) = (case.clone(), sh.clone());
            tasks.push(tokio::spawn(async move {
                jitter().await;
                if plan.handshake != Handshake::Ok {
                    simkernel::count("fault.failed_handshake");
                    fail_handshake(addr, plan.handshake, conn).await;
                    return ClientOutcome { handshake_ok: false, inbox: Arc::new(Inbox::default()), gate_tag: None };
                }
                // register the connection before the handshake so that connect callbacks can act on it
                let n_before = net::connections().len();
                let ws = raw_connect_with_headers(addr, "/repe", &[("x-conn", &conn.to_string())]).await;
                let _ = n_before;
                match ws {
                    Ok(ws) => {
                        let cref = ws.get_ref().conn();
                        sh2.conns.lock().unwrap().insert(conn, cref.clone());
                        client(case2, sh2, conn, ws, cref).await
                    }
                    Err(_) => ClientOutcome { handshake_ok: false, inbox: Arc::new(Inbox::default()), gate_tag: None },
                }
            }));
        }
        // let the individual causes play out, then the run-level event ends the survivors
        sleep_ms(pick(&[20u64, 100, 400])).await;
        RUN_END.store(true, Ordering::SeqCst);
        let run_level_at = simkernel::now_ns();
        match mode {
            Mode::Embedder => {
                simkernel::count("fault.embedder_cancel");
                let _ = stop_tx.send(());
            }
            Mode::Drain => {
                simkernel::count("fault.graceful_drain");
                let _ = stop_tx.send(());
            }
            _ => {
                let _ = stop_tx.send(());
            }
        }
        let mut outcomes = Vec::new();
        for t in tasks {
            match t.await {
                Ok(o) => outcomes.push(Some(o)),
                Err(_) => outcomes.push(None),
            }
        }
        // every accepted connection's disconnect hooks must have run by now (bounded wait:
        // writer drain 5 s + drain deadline)
        let sh3 = sh.clone();
        let all_done = wait_until(30_000, || {
            let peers = sh3.log.peers();
            peers.iter().all(|p| sh3.log.of_peer(*p).iter().any(|e| e == "disconnect-Y"))
        })
        .await;
        let _ = tokio::time::timeout(Duration::from_secs(30), srv).await;

        // ---- oracle
        let peers = sh.log.peers();
        let ok_handshakes = if mode == Mode::Adopted { nconn } else { plans.iter().filter(|p| p.handshake == Handshake::Ok).count() };
        // a DuringConnect reset in mode Loop/Drain/Embedder may abort the client's own handshake
        // read, but the server side still accepted: count accepted connections from hook A
        case.check(peers.len() <= ok_handshakes, "hooks-for-failed-handshake", || {
            format!("{} connections ran connect hooks but only {ok_handshakes} handshakes were valid; log {:?}", peers.len(), sh.log.events.lock().unwrap())
        });
        if !case.check(all_done, "disconnect-hook-missing", || {
            let missing: Vec<(u64, Vec<String>)> = peers.iter().filter(|p| !sh.log.of_peer(**p).iter().any(|e| e == "disconnect-Y")).map(|p| (*p, sh.log.of_peer(*p))).collect();
            format!("30 s after the run-level event these peers still have no disconnect hooks: {missing:?}; plans {:?}", missing.iter().map(|(p, _)| sh.peer_conn.lock().unwrap().get(p).map(|c| format!("{:?}", plans[*c as usize]))).collect::<Vec<_>>())
        }) {
            sh.gate.open_all();
            return;
        }
        // after an embedder cancel (or a drain trigger + its deadline) every connection that
        // was still up ends promptly, stalled peer or not
        if matches!(mode, Mode::Embedder | Mode::Drain) {
            let allowance = 8_000_000_000u64 + if mode == Mode::Drain { drain_ms * 1_000_000 } else { 0 };
            for p in &peers {
                if let Some(t) = sh.log.time_of("disconnect-Y", *p)
                    && t > run_level_at + allowance
                {
                    let plan = sh.peer_conn.lock().unwrap().get(p).map(|c| format!("{:?}", plans[*c as usize]));
                    case.fail("disconnect-hook-late", format!("mode {mode:?}: peer {p} ({plan:?}) ran its disconnect hooks {} ms after the run-level event", (t - run_level_at) / 1_000_000));
                    break;
                }
            }
        }
        for p in &peers {
            let ev = sh.log.of_peer(*p);
            let count = |w: &str| ev.iter().filter(|e| *e == w).count();
            let pos = |w: &str| ev.iter().position(|e| e == w);
            let once = count("connect-A") == 1 && count("disconnect-X") == 1 && count("disconnect-Y") == 1 && count("connect-B") <= 1 && count("handshake-H") <= 1;
            let ordered = pos("connect-A") < pos("disconnect-X") && pos("disconnect-X") < pos("disconnect-Y") && pos("connect-B").is_none_or(|b| Some(b) < pos("disconnect-X")) && pos("handshake-H").is_none_or(|h| Some(h) < pos("disconnect-X") && pos("connect-B").is_some_and(|b| b < h));
            if !case.check(once && ordered, "hook-order", || format!("peer {p}: hooks fired as {ev:?}")) {
                sh.gate.open_all();
                return;
            }
            case.check(sh.reg.get(PeerId(*p)).is_none() && sh.reg.get_by(&format!("k{p}")).is_none() && sh.reg.get_by(&format!("s{p}")).is_none() && sh.reg.aliases_for(PeerId(*p)).is_empty() && sh.reg.key_for(PeerId(*p)).is_none(), "registry-residue", || format!("peer {p} (or one of its aliases) still registered after its disconnect hooks: aliases_for = {:?}", sh.reg.aliases_for(PeerId(*p))));
        }
        case.check(sh.reg.len() == 0 && sh.reg.get_by("shared").is_none(), "registry-residue", || format!("{} peers left in the registry; 'shared' resolves: {}", sh.reg.len(), sh.reg.get_by("shared").is_some()));
        if let Some(f) = sh.hook_faults.lock().unwrap().first() {
            case.fail("registry-presence", f.clone());
        }
        // wire order and cancellation, per client
        for (i, o) in outcomes.iter().enumerate() {
            let Some(o) = o else { continue };
            if !o.handshake_ok {
                continue;
            }
            let items = o.inbox.items.lock().unwrap().clone();
            let frames: Vec<&Frame> = items.iter().filter_map(|(_, r)| if let Rx::Frame(f) = r { Some(f) } else { None }).collect();
            if let Some(first_resp) = frames.iter().position(|f| f.notify == 0) {
                let hello_after = frames.iter().enumerate().any(|(k, f)| k > first_resp && f.notify != 0 && (f.query_str() == "/hello" || f.query_str() == "/hello2"));
                case.check(!hello_after, "connect-notify-after-response", || {
                    format!("connection {i}: a response preceded a notify queued by a connect callback: {:?}", frames.iter().map(|f| (f.notify, f.query_str())).collect::<Vec<_>>())
                });
                let hello_before = frames.iter().take(first_resp).filter(|f| f.notify != 0).count();
                if hello_before >= 2 {
                    case.probe("connect_notifies_preceded_first_response");
                }
            }
            if let Some(b) = o.inbox.bad() {
                case.fail("not-a-frame", format!("connection {i}: {b}"));
            }
        }
        // handlers still parked when their connection ended observe cancellation once released
        sleep_ms(5).await;
        sh.gate.open_all();
        sleep_ms(20).await;
        {
            let g = sh.gate.st.lock().unwrap();
            for (tag, seen) in &g.cancelled_seen {
                case.check(*seen, "cancellation-not-observed", || format!("handler {tag} was released after its connection ended and saw is_cancelled() == false"));
                if *seen {
                    case.probe("parked_handler_saw_cancellation");
                }
            }
        }
        let expected_panics = plans.iter().filter(|p| p.handshake == Handshake::Ok && matches!(p.cause, Cause::InlinePanic | Cause::ConnectPanic)).count();
        if expected_panics > 0 {
            case.probe("callback_or_handler_panicked");
        }
        let _ = served_panics;
        case.nontrivial();
        case.progress(peers.len() as u64, ok_handshakes as u64);
    });
}
