//! C09 / C10 (async half): the async pullers (`pull_*_async`) over the real `AsyncClient`
//! (producer on the real blocking `Server`, whose threads are simulated threads next to the
//! tokio runtime) and over the real `WebSocketClient` (producer on the real
//! `WebSocketServer`, `/_svs/next` off-reader). The blocking decoder of every async pull
//! runs on a simulated thread fed through tokio's bounded channel.

use crate::families::aio::{self, CancelAfter, sleep_ms};
use crate::families::client_blocking::draw_net;
use crate::families::svs::{Payload, Record, dest_state, draw_opts, draw_payload, fail_point, private_dir, router_for_stall, router_for_stall_p, start_server, unzstd};
use crate::framework::{Case, Family, bytes, pick, range};
use repe::value_stream::{AsyncSvsClient, Compression, StreamOpts};
use repe::websocket_server::WebSocketServer;
use repe::{AsyncClient, RepeError, WebSocketClient};
use serde_json::json;
use simkernel::fsprobe::{self, FsEvent, take_fs_events};
use simkernel::net;
use std::io::{self, Read};
use std::path::{Path, PathBuf};
use std::sync::Arc;
use std::time::Duration;
use tokio::time::timeout;

pub fn families() -> Vec<Family> {
    vec![
        Family::new(
            "c09_async_pull",
            "C09",
            "pull_to_vec_async / pull_value_async / pull_typed_slice_async / pull_complex_slice_async / pull_consume_async over AsyncClient (blocking Server producer) and WebSocketClient (WebSocketServer producer) reproduce the producer's value exactly",
            c09_async_pull,
        )
        .runs(10_000, 600_000)
        .steps(3_000_000)
        .tokio(),
        Family::new(
            "c09_ws_raw",
            "C09",
            "the raw SVS protocol (open / next / cancel) spoken by a raw WebSocket peer to the real WebSocketServer (next runs off-reader): chunks concatenate to the producer's bytes with exactly one final marker, pulling past the end or after a cancel is an error - including a cancel pipelined right behind a next that is still parked in a slow producer, on the same connection",
            c09_ws_raw,
        )
        .runs(8_000, 480_000)
        .steps(3_000_000)
        .tokio(),
        Family::new(
            "c10_async_file",
            "C10",
            "pull_to_file_async / _verified_async / _trailer_verified_async with producer failure, rejecting verifier, over-long trailer, rename failure, connection loss mid-transfer and the pull future abandoned at its k-th poll; destination sampled at every commit-path probe and every simulated millisecond",
            c10_async_file,
        )
        .runs(15_000, 900_000)
        .steps(3_000_000)
        .tokio(),
    ]
}

enum Transport {
    Tcp(AsyncClient, simkernel::thread::JoinHandle<()>),
    Ws(WebSocketClient, tokio::task::JoinHandle<()>),
}

async fn connect(payload: &Payload, opts: StreamOpts, ws: bool, stall_one_in: u32) -> Result<Transport, String> {
    let router = router_for_stall_p(payload, opts, stall_one_in);
    if ws {
        let listener = WebSocketServer::listen("127.0.0.1:0").await.map_err(|e| e.to_string())?;
        let addr = listener.local_addr().unwrap();
        let server = WebSocketServer::new(router);
        let h = tokio::spawn(async move {
            let _ = server.serve_listener(listener, "/repe").await;
        });
        let c = WebSocketClient::connect(&format!("ws://{addr}/repe")).await.map_err(|e| e.to_string())?;
        Ok(Transport::Ws(c, h))
    } else {
        let (addr, h) = start_server(router);
        let c = AsyncClient::connect(addr).await.map_err(|e| e.to_string())?;
        Ok(Transport::Tcp(c, h))
    }
}

async fn pull_check<C: AsyncSvsClient>(case: &Case, client: &C, payload: &Payload, api: u32, lossy: bool) {
    let logical = payload.logical();
    let fails = payload.fails();
    match (payload, api) {
        (Payload::Value(rec), 0 | 1) => {
            let r = repe::value_stream::pull_value_async::<Record, _>(client, "res").await;
            case.check(matches!(&r, Ok(v) if v == rec) || (lossy && r.is_err()), "pulled-value-differs", || format!("pull_value_async returned {:?}", r.as_ref().map(|v| v.name.clone()).map_err(|e| e.to_string())));
        }
        (Payload::Typed(v), 0 | 1) => {
            let r = repe::value_stream::pull_typed_slice_async::<f64, _>(client, "res").await;
            case.check(matches!(&r, Ok(g) if g.iter().map(|x| x.to_bits()).eq(v.iter().map(|x| x.to_bits()))) || (lossy && r.is_err()), "pulled-value-differs", || format!("pull_typed_slice_async returned {:?}", r.as_ref().map(|g| g.len()).map_err(|e| e.to_string())));
        }
        (Payload::Complex(v), 0 | 1) => {
            let r = repe::value_stream::pull_complex_slice_async::<f32, _>(client, "res").await;
            case.check(
                matches!(&r, Ok(g) if g.len() == v.len() && g.iter().zip(v.iter()).all(|(a, b)| a.re.to_bits() == b.re.to_bits() && a.im.to_bits() == b.im.to_bits())) || (lossy && r.is_err()),
                "pulled-value-differs",
                || format!("pull_complex_slice_async returned {:?}", r.as_ref().map(|g| g.len()).map_err(|e| e.to_string())),
            );
        }
        (_, 2) => {
            // a decoder that is sometimes slower than the pull loop, so the bounded channel
            // between them fills
            let nap_us = pick(&[0u64, 0, 200, 3_000, 30_000]);
            let nap_after = range(1, 4) as usize;
            // ... and once in a while it stops for seconds, once
            let long_stall: Option<(usize, u64)> = if simkernel::choose(8) == 0 { Some((range(1, 6) as usize, pick(&[3u64, 6]))) } else { None };
            let r = repe::value_stream::pull_consume_async(client, "res", move |mut rd: Box<dyn Read>| {
                let mut v = Vec::new();
                let mut buf = [0u8; 37];
                let mut reads = 0usize;
                loop {
                    let n = rd.read(&mut buf)?;
                    if n == 0 {
                        break;
                    }
                    v.extend_from_slice(&buf[..n]);
                    reads += 1;
                    if let Some((at, secs)) = long_stall
                        && reads == at
                    {
                        simkernel::count("probe.decoder_stalled_for_seconds");
                        simkernel::thread::sleep(Duration::from_secs(secs));
                    }
                    if nap_us > 0 && reads % nap_after == 0 {
                        simkernel::count("probe.slow_decoder_nap");
                        simkernel::thread::sleep(Duration::from_micros(nap_us));
                    }
                }
                Ok(v)
            })
            .await;
            if fails {
                case.check(r.is_err(), "truncated-stream-accepted", || format!("pull_consume_async returned Ok({} bytes) although the producer failed", r.as_ref().map(|v| v.len()).unwrap_or(0)));
            } else if lossy {
                case.check(!matches!(&r, Ok(v) if *v != logical), "truncated-stream-accepted", || format!("the connection was lost in mid-transfer and pull_consume_async returned Ok({} bytes) of {}", r.as_ref().map(|v| v.len()).unwrap_or(0), logical.len()));
            } else {
                case.check(matches!(&r, Ok(v) if *v == logical), "pulled-bytes-differ", || format!("pull_consume_async returned {:?}, want {} bytes", r.as_ref().map(|v| v.len()).map_err(|e| e.to_string()), logical.len()));
            }
        }
        _ => {
            let r = repe::value_stream::pull_to_vec_async(client, "res").await;
            if fails {
                case.check(r.is_err(), "truncated-stream-accepted", || format!("pull_to_vec_async returned Ok({} bytes) although the producer failed", r.as_ref().map(|v| v.len()).unwrap_or(0)));
            } else if lossy {
                case.check(!matches!(&r, Ok(v) if *v != logical), "truncated-stream-accepted", || format!("the connection was lost in mid-transfer and pull_to_vec_async returned Ok({} bytes) of {}", r.as_ref().map(|v| v.len()).unwrap_or(0), logical.len()));
            } else {
                case.check(matches!(&r, Ok(v) if *v == logical), "pulled-bytes-differ", || format!("pull_to_vec_async returned {:?}, want {} bytes", r.as_ref().map(|v| v.len()).map_err(|e| e.to_string()), logical.len()));
            }
        }
    }
}

fn c09_async_pull(case: &Case) {
    net::reset(draw_net());
    let chunk = pick(&[1usize, 3, 16, 64, 1000]);
    let opts = draw_opts(chunk);
    let payload = draw_payload(chunk, true);
    let api = simkernel::choose(3);
    let ws = simkernel::choose(2) == 0;
    // sometimes the connection is reset in mid-transfer: the pull may fail, but must never
    // return fewer bytes than the producer emitted as a success
    let conn_loss_us = if simkernel::choose(4) == 0 { Some(pick(&[20u64, 300, 2_000, 20_000, 200_000])) } else { None };
    case.sample(json!({"transport": if ws {"WebSocketClient<-WebSocketServer"} else {"AsyncClient<-Server"}, "producer": payload.kind(), "logical_len": payload.logical().len(),
        "chunk_bytes": chunk, "depth": opts.session_depth, "compression": format!("{:?}", opts.compression), "producer_fails": payload.fails(), "api": api, "connection_reset_after_us": conn_loss_us}));
    let case = case.clone();
    aio::run(&case.clone(), 3_600, async move {
        let t = connect(&payload, opts, ws, 6).await;
        let lossy = conn_loss_us.is_some();
        if let Some(us) = conn_loss_us {
            let conn = net::connections().last().cloned();
            tokio::spawn(async move {
                tokio::time::sleep(Duration::from_micros(us)).await;
                if let Some(c) = conn {
                    simkernel::count("fault.connection_lost_during_pull");
                    net::reset_conn(&c);
                }
            });
        }
        match t {
            Err(e) => case.harness_error(format!("setup failed: {e}")),
            Ok(Transport::Tcp(client, server)) => {
                pull_check(&case, &client, &payload, api, lossy).await;
                case.check(client.verif_pending_len() == 0, "pending-residue", || format!("{} pending after pull", client.verif_pending_len()));
                drop(client);
                net::shutdown_all();
                let _ = server;
            }
            Ok(Transport::Ws(client, server)) => {
                pull_check(&case, &client, &payload, api, lossy).await;
                case.check(client.verif_pending_len() == 0, "pending-residue", || format!("{} pending after pull", client.verif_pending_len()));
                drop(client);
                server.abort();
                let _ = server.await;
            }
        }
        if payload.logical().len() > chunk {
            case.probe("multi_chunk_stream");
        }
        case.nontrivial();
    });
}

// ---------------------------------------------------------------- raw protocol over WebSocket

fn c09_ws_raw(case: &Case) {
    use crate::codec::Frame;
    use crate::families::svs::{CancelReq, NextReq, OpenReq, OpenResp};
    use crate::families::ws_common::{Inbox, check_inbox_clean, raw_connect, send_frame, spawn_collector, wait_until};
    use futures_util::StreamExt;
    net::reset(draw_net());
    let chunk = pick(&[1usize, 2, 7, 16, 64, 1000]);
    let opts = draw_opts(chunk);
    let payload = draw_payload(chunk, true);
    let logical = payload.logical();
    // cancel after that many chunks; pipelined = sent right behind a `next` without waiting
    let cancel_after = if simkernel::choose(3) == 0 { Some(range(0, 3)) } else { None };
    let pipelined = simkernel::choose(2) == 0;
    let cancel_as_notify = simkernel::choose(3) == 0;
    case.sample(json!({"producer": payload.kind(), "logical_len": logical.len(), "chunk_bytes": chunk, "depth": opts.session_depth,
        "compression": format!("{:?}", opts.compression), "producer_fails": payload.fails(), "cancel_after_chunks": cancel_after, "cancel_pipelined_behind_next": pipelined, "cancel_as_notify": cancel_as_notify}));
    let zstd_on = opts.compression == Compression::Zstd;
    let case = case.clone();
    aio::run(&case.clone(), 3_600, async move {
        let listener = WebSocketServer::listen("127.0.0.1:0").await.unwrap();
        let addr = listener.local_addr().unwrap();
        let server = WebSocketServer::new(router_for_stall(&payload, opts, true));
        let srv = tokio::spawn(async move {
            let _ = server.serve_listener(listener, "/repe").await;
        });
        let Ok(ws) = raw_connect(addr, "/repe").await else {
            case.harness_error("handshake failed");
            return;
        };
        let (mut sink, stream) = ws.split();
        let inbox = Arc::new(Inbox::default());
        let collector = spawn_collector(stream, inbox.clone());
        let mut id = 0u64;
        macro_rules! call {
            ($path:expr, $body:expr) => {{
                id += 1;
                let want = id;
                let _ = send_frame(&mut sink, &Frame::new(want, $path, &$body).with_formats(1, 1)).await;
                let ib = inbox.clone();
                wait_until(600_000, || !ib.responses_for(want).is_empty() || ib.ended()).await;
                inbox.responses_for(want).into_iter().next()
            }};
        }
        let Some(open) = call!(b"/_svs/open", beve::to_vec(&OpenReq { resource: "res".into() }).unwrap()) else {
            case.fail("svs-open-failed", "no reply to open");
            return;
        };
        let info = match (open.ec, beve::from_slice::<OpenResp>(&open.body)) {
            (0, Ok(i)) => i,
            _ => {
                case.fail("svs-open-failed", format!("open returned ec {}", open.ec));
                return;
            }
        };
        let sid = info.stream_id;
        let next_body = beve::to_vec(&NextReq { stream_id: sid }).unwrap();
        let mut chunks: Vec<Vec<u8>> = Vec::new();
        let (mut lasts, mut errored, mut pulls, mut cancelled) = (0u32, false, 0u32, false);
        loop {
            if cancel_after == Some(pulls) {
                let cbody = beve::to_vec(&CancelReq { stream_id: sid, reason: "enough".into() }).unwrap();
                let mut overlapped: Option<u64> = None;
                if pipelined {
                    // a `next` goes first and may still be parked in the producer when the cancel lands
                    id += 1;
                    overlapped = Some(id);
                    let _ = send_frame(&mut sink, &Frame::new(id, b"/_svs/next", &next_body).with_formats(1, 1)).await;
                }
                if cancel_as_notify {
                    let _ = send_frame(&mut sink, &Frame::new(77_000, b"/_svs/cancel", &cbody).with_formats(1, 1).notify(1)).await;
                    // (nothing acknowledges a notify: give it time to be dispatched)
                    sleep_ms(50).await;
                } else {
                    let Some(r) = call!(b"/_svs/cancel", cbody) else {
                        case.fail("connection-lost", "no reply to cancel");
                        return;
                    };
                    case.check(r.ec == 0, "cancel-failed", || format!("cancel returned ec {}", r.ec));
                }
                if let Some(o) = overlapped {
                    let ib = inbox.clone();
                    if !wait_until(600_000, || !ib.responses_for(o).is_empty() || ib.ended()).await || inbox.responses_for(o).is_empty() {
                        case.fail("svs-next-failed", "the next that a cancel overlapped was never answered");
                        return;
                    }
                    case.probe("cancel_overlapped_a_next_on_the_same_connection");
                }
                cancelled = true;
                // whatever the overlapped next returned, the stream is released now
                for _ in 0..2 {
                    let Some(r) = call!(b"/_svs/next", next_body.clone()) else {
                        case.fail("connection-lost", "no reply to next after cancel");
                        return;
                    };
                    case.check(r.ec != 0, "next-after-cancel-ok", || format!("next after an applied cancel returned a chunk of {} bytes", r.body.len()));
                }
                break;
            }
            let Some(r) = call!(b"/_svs/next", next_body.clone()) else {
                case.fail("svs-next-failed", "connection lost during next");
                return;
            };
            pulls += 1;
            if r.ec != 0 {
                errored = true;
                break;
            }
            case.check(r.query.len() == 1 && r.query[0] <= 1, "last-flag-encoding", || format!("next response query {:?}", r.query));
            chunks.push(r.body.clone());
            if r.query.first().copied() == Some(1) {
                lasts += 1;
                break;
            }
            if pulls > 100_000 {
                case.fail("svs-endless", "more than 100000 chunks");
                return;
            }
        }
        let concat: Vec<u8> = chunks.concat();
        if !cancelled {
            if payload.fails() {
                case.check(errored && lasts == 0, "producer-failure-looks-clean", || format!("producer failed but the stream ended with last={lasts} errored={errored} after {} bytes", concat.len()));
                if !zstd_on {
                    case.check(logical.starts_with(&concat), "corrupt-prefix", || "chunks before the failure are not a prefix of the producer's bytes".into());
                }
            } else if case.check(!errored && lasts == 1, "missing-final-marker", || format!("stream ended with errored={errored} lasts={lasts}")) {
                let got = if zstd_on { unzstd(&concat) } else { Some(concat.clone()) };
                case.check(got.as_deref() == Some(&logical[..]), "stream-bytes-differ", || format!("pulled {} bytes in {} chunks, producer emitted {} logical bytes", concat.len(), chunks.len(), logical.len()));
                if logical.is_empty() && !zstd_on {
                    case.check(chunks.len() == 1 && chunks[0].is_empty(), "empty-payload-shape", || format!("empty payload produced {} chunks", chunks.len()));
                }
                if chunks.len() >= 2 {
                    case.probe("multi_chunk_stream");
                }
            }
            // pulling past the end (or after the failure) is an error
            if let Some(r) = call!(b"/_svs/next", next_body.clone()) {
                case.check(r.ec != 0, "next-past-end-ok", || format!("next past the end returned ec 0 with {} bytes", r.body.len()));
            }
        } else if !zstd_on && !payload.fails() {
            case.check(logical.starts_with(&concat), "corrupt-prefix", || "chunks before the cancel are not a prefix of the producer's bytes".into());
        }
        // the connection is still fine and a fresh stream starts from the beginning
        if let Some(o2) = call!(b"/_svs/open", beve::to_vec(&OpenReq { resource: "res".into() }).unwrap()) {
            if o2.ec == 0
                && let Ok(i2) = beve::from_slice::<OpenResp>(&o2.body)
            {
                case.check(i2.stream_id != sid, "stream-id-reused", || format!("a second stream got the id {sid} of the first"));
                let _ = call!(b"/_svs/cancel", beve::to_vec(&CancelReq { stream_id: i2.stream_id, reason: "done".into() }).unwrap());
            }
        } else {
            case.fail("connection-lost", format!("no reply to a second open (ended={})", inbox.ended()));
        }
        check_inbox_clean(&case, "WebSocketServer", &inbox);
        case.nontrivial();
        let _ = timeout(Duration::from_secs(2), futures_util::SinkExt::close(&mut sink)).await;
        let _ = timeout(Duration::from_secs(2), collector).await;
        srv.abort();
    });
}

// =========================================================================== C10

#[derive(Clone, Copy, Debug, PartialEq)]
enum FileApi {
    Plain,
    Verified,
    Trailer,
}

#[derive(Clone, Debug)]
struct Snapshot {
    at: &'static str,
    dest: Option<Vec<u8>>,
}

/// A digest sink that takes its time on every write.
struct SlowDigest {
    nap_us: u64,
}
impl io::Write for SlowDigest {
    fn write(&mut self, buf: &[u8]) -> io::Result<usize> {
        if self.nap_us > 0 {
            simkernel::count("probe.slow_digest_write");
            simkernel::thread::sleep(Duration::from_micros(self.nap_us));
        }
        Ok(buf.len())
    }
    fn flush(&mut self) -> io::Result<()> {
        Ok(())
    }
}

async fn file_pull<C: AsyncSvsClient>(client: &C, api: FileApi, dest: &Path, trailer: usize, reject: bool) -> Result<(), RepeError> {
    match api {
        FileApi::Plain => repe::value_stream::pull_to_file_async(client, "res", dest).await.map(|_| ()),
        FileApi::Verified => {
            // the digest may be slow (it runs on the decoder's thread): the queue between the
            // pull loop and the decoder then fills
            let nap_us = pick(&[0u64, 0, 2_000, 40_000]);
            repe::value_stream::pull_to_file_verified_async(client, "res", dest, SlowDigest { nap_us }, move |_digest: SlowDigest| {
                if reject {
                    simkernel::count("fault.verifier_rejects");
                    return Err(RepeError::Io(io::Error::other("digest mismatch")));
                }
                Ok(())
            })
            .await
        }
        FileApi::Trailer => {
            repe::value_stream::pull_to_file_trailer_verified_async(client, "res", dest, trailer, Vec::<u8>::new(), move |_digest: Vec<u8>, _t: &[u8]| {
                if reject {
                    simkernel::count("fault.verifier_rejects");
                    return Err(RepeError::Io(io::Error::other("digest mismatch")));
                }
                Ok(())
            })
            .await
        }
    }
}

fn c10_async_file(case: &Case) {
    net::reset(draw_net());
    let dir = private_dir();
    let dest = dir.join("out.bin");
    let temp = dir.join("out.bin.svspart");
    let chunk = pick(&[1usize, 4, 16, 64]);
    let api = pick(&[FileApi::Plain, FileApi::Plain, FileApi::Verified, FileApi::Trailer]);
    let ws = simkernel::choose(2) == 0;
    // 0,1 producer failure; 2 verifier rejects; 3 trailer too long; 4 rename fails;
    // 5,6 pull future abandoned at poll k; 7 connection lost mid-transfer; 8,9 fault-free
    let scen = simkernel::choose(10);
    let _ = take_fs_events();
    let preexisting: Option<Vec<u8>> = if simkernel::choose(2) == 0 { Some(b"PREVIOUS CONTENT".to_vec()) } else { None };
    if let Some(p) = &preexisting {
        std::fs::write(&dest, p).unwrap();
    }
    // a stale temp sibling, as an earlier killed pull would have left it
    let stale_temp = simkernel::choose(4) == 0;
    if stale_temp {
        std::fs::write(&temp, bytes(pick(&[1usize, 50, 400, 5_000]))).unwrap();
        simkernel::count("probe.stale_temp_sibling_present");
    }
    let allow_fail = scen <= 1;
    let mut payload = draw_payload(chunk, allow_fail);
    if !matches!(payload, Payload::Reader(..) | Payload::Writer(..)) {
        payload = Payload::Reader(bytes(range(0, 4 * chunk as u32 + 3) as usize), None);
    }
    if allow_fail && !payload.fails() {
        payload = match &payload {
            Payload::Reader(d, _) => Payload::Reader(d.clone(), Some(fail_point(d.len(), chunk))),
            Payload::Writer(d, _) => Payload::Writer(d.clone(), Some(fail_point(d.len(), chunk))),
            other => other.clone(),
        };
    }
    let opts = draw_opts(chunk);
    let logical = payload.logical();
    let producer_fails = payload.fails();
    let verifier_rejects = scen == 2 && api != FileApi::Plain;
    let trailer_too_long = scen == 3 && api == FileApi::Trailer;
    let rename_fails = scen == 4;
    let abandon = scen == 5 || scen == 6;
    let conn_lost = scen == 7;
    let trailer_len = pick(&[0usize, 1, 4, 9]);
    let eff_trailer = if api != FileApi::Trailer { 0 } else if trailer_too_long { logical.len() + 1 + trailer_len } else { trailer_len.min(logical.len()) };
    if rename_fails {
        let _ = std::fs::remove_file(&dest);
        std::fs::create_dir_all(dest.join("occupied")).unwrap();
    }
    let expected_file: Vec<u8> = logical[..logical.len() - eff_trailer.min(logical.len())].to_vec();
    let abandon_polls = range(1, 40);
    let lost_after_ms = pick(&[0u64, 1, 3, 10, 40]);
    case.sample(json!({"transport": if ws {"WebSocketClient<-WebSocketServer"} else {"AsyncClient<-Server"}, "api": format!("{api:?}"), "producer": payload.kind(), "logical_len": logical.len(),
        "chunk": chunk, "compression": format!("{:?}", opts.compression), "preexisting_dest": preexisting.is_some(), "producer_fails": producer_fails, "verifier_rejects": verifier_rejects,
        "trailer_len": eff_trailer, "rename_fails": rename_fails, "abandon_at_poll": if abandon { Some(abandon_polls) } else { None }, "connection_lost_after_ms": if conn_lost { Some(lost_after_ms) } else { None }}));
    // every commit-path probe snapshots the destination: what a kill right there would leave
    let snaps: Arc<std::sync::Mutex<Vec<Snapshot>>> = Default::default();
    {
        let (snaps, dest) = (snaps.clone(), dest.clone());
        fsprobe::set_observer(Some(Box::new(move |ev: &FsEvent| {
            snaps.lock().unwrap().push(Snapshot { at: ev.kind, dest: if dest.is_dir() { None } else { dest_state(&dest) } });
        })));
    }
    let case2 = case.clone();
    let (dest2, snaps2, old2, exp2) = (dest.clone(), snaps.clone(), preexisting.clone(), expected_file.clone());
    let outcome: Arc<std::sync::Mutex<Option<Option<Result<(), String>>>>> = Default::default();
    let outcome2 = outcome.clone();
    let temp_left: Arc<std::sync::Mutex<bool>> = Default::default();
    let temp_left2 = temp_left.clone();
    aio::run(&case.clone(), 3_600, async move {
        let case = case2;
        let t = match connect(&payload, opts, ws, 40).await {
            Ok(t) => t,
            Err(e) => {
                case.harness_error(format!("setup failed: {e}"));
                return;
            }
        };
        // a monitor samples the destination every simulated millisecond (kill at any time)
        let stop = Arc::new(std::sync::atomic::AtomicBool::new(false));
        let monitor = {
            let (stop, dest, snaps) = (stop.clone(), dest2.clone(), snaps2.clone());
            tokio::spawn(async move {
                while !stop.load(std::sync::atomic::Ordering::SeqCst) {
                    snaps.lock().unwrap().push(Snapshot { at: "tick", dest: if dest.is_dir() { None } else { dest_state(&dest) } });
                    sleep_ms(1).await;
                }
            })
        };
        if conn_lost {
            tokio::spawn(async move {
                sleep_ms(lost_after_ms).await;
                simkernel::count("fault.stream_cut");
                for c in net::connections() {
                    net::reset_conn(&c);
                }
            });
        }
        let res: Option<Result<(), RepeError>> = match &t {
            Transport::Tcp(c, _) => {
                let f = file_pull(c, api, &dest2, eff_trailer, verifier_rejects);
                if abandon { timeout(Duration::from_secs(30), CancelAfter::new(f, abandon_polls)).await.ok().flatten() } else { Some(f.await) }
            }
            Transport::Ws(c, _) => {
                let f = file_pull(c, api, &dest2, eff_trailer, verifier_rejects);
                if abandon { timeout(Duration::from_secs(30), CancelAfter::new(f, abandon_polls)).await.ok().flatten() } else { Some(f.await) }
            }
        };
        if res.is_none() {
            simkernel::count("fault.pull_abandoned");
        }
        // a pull that *returned* has nothing of its own still running: its temp file is
        // already gone (published or removed) at this very instant
        if res.is_some() && dest2.with_extension("bin.svspart").exists() {
            let created = simkernel::fsprobe::peek_fs_events().iter().any(|e| e.kind == "created");
            if created {
                *temp_left2.lock().unwrap() = true;
            }
        }
        // let an abandoned decoder thread notice and clean up (it may be in the middle of a
        // slow digest write: wait for the temp file to go, within reason)
        sleep_ms(20).await;
        if res.is_none() {
            for _ in 0..2_000 {
                if !dest2.with_extension("bin.svspart").exists() {
                    break;
                }
                sleep_ms(1).await;
            }
        }
        stop.store(true, std::sync::atomic::Ordering::SeqCst);
        let _ = monitor.await;
        *outcome2.lock().unwrap() = Some(res.map(|r| r.map_err(|e| e.to_string())));
        match t {
            Transport::Tcp(c, _h) => {
                drop(c);
                net::shutdown_all();
            }
            Transport::Ws(c, h) => {
                drop(c);
                h.abort();
                let _ = h.await;
            }
        }
        let _ = (&old2, &exp2);
    });
    fsprobe::set_observer(None);
    let events: Vec<FsEvent> = take_fs_events();
    let Some(outcome) = outcome.lock().unwrap().take() else {
        let _ = std::fs::remove_dir_all(&dir);
        return;
    };
    // ---- the oracle
    let old = preexisting.clone();
    let now_dest = if rename_fails { None } else { dest_state(&dest) };
    let complete = |d: &Option<Vec<u8>>| d.as_ref() == Some(&expected_file);
    // durability invariant at the moment of publication
    if let Some(br) = events.iter().find(|e| e.kind == "before_rename") {
        match events.iter().rev().find(|e| e.kind == "synced" && e.path == br.path && e.at_ns <= br.at_ns) {
            None => case.fail("published-without-sync", format!("rename of {:?} without a preceding sync_all", br.path.file_name())),
            Some(sy) => {
                case.check(sy.len == br.len, "published-unsynced-bytes", || format!("temp file was {:?} bytes at sync_all but {:?} at rename", sy.len, br.len));
            }
        }
    }
    // at every instant a kill would have left the old destination, or (only after the rename) the complete one
    if !rename_fails {
        let mut renamed = false;
        for s in snaps.lock().unwrap().iter() {
            if s.at == "after_rename" {
                renamed = true;
            }
            let ok = s.dest == old || (renamed && complete(&s.dest)) || (s.at == "tick" && complete(&s.dest) && events.iter().any(|e| e.kind == "before_rename"));
            if !case.check(ok, "partial-file-observable", || format!("at probe '{}' the destination held {:?} bytes (old {:?}, complete {})", s.at, s.dest.as_ref().map(|d| d.len()), old.as_ref().map(|d| d.len()), expected_file.len())) {
                break;
            }
        }
        if snaps.lock().unwrap().iter().any(|s| s.at == "synced") {
            case.probe("snapshot_between_sync_and_rename");
        }
    }
    case.check(!*temp_left.lock().unwrap(), "temp-file-left", || "the pull had returned but its .svspart sibling still existed at that instant (something of the pull was still running)".into());
    let must_fail = producer_fails || verifier_rejects || trailer_too_long || rename_fails;
    match outcome {
        None => {
            case.probe("pull_future_abandoned");
            let published = complete(&now_dest) && events.iter().any(|e| e.kind == "before_rename");
            case.check(now_dest == old || published, "partial-file-after-abandon", || format!("after the pull future was dropped the destination holds {:?} bytes (old {:?}, complete {})", now_dest.as_ref().map(|d| d.len()), old.as_ref().map(|d| d.len()), expected_file.len()));
            case.check(!temp.exists() || (stale_temp && !events.iter().any(|ev| ev.kind == "created")), "temp-file-left", || "an abandoned pull left the .svspart sibling behind".into());
        }
        Some(Ok(())) => {
            if !case.check(!must_fail, "published-despite-failure", || format!("pull returned Ok although the transfer could not complete (producer_fails={producer_fails} verifier_rejects={verifier_rejects} trailer_too_long={trailer_too_long} rename_fails={rename_fails})")) {
                let _ = std::fs::remove_dir_all(&dir);
                return;
            }
            case.check(complete(&now_dest), "published-wrong-content", || format!("pull returned Ok but the destination holds {:?} bytes, expected {}", now_dest.as_ref().map(|d| d.len()), expected_file.len()));
            case.check(!temp.exists(), "temp-file-left", || "pull returned Ok but the .svspart sibling still exists".into());
            case.probe("published");
        }
        Some(Err(e)) => {
            if !rename_fails {
                case.check(now_dest == old, "destination-touched-by-failed-pull", || format!("pull failed ({e}) but the destination changed: now {:?} bytes, was {:?}", now_dest.as_ref().map(|d| d.len()), old.as_ref().map(|d| d.len())));
            }
            // (a stale sibling of an earlier killed pull that this pull never got to re-create is not this pull's litter)
            case.check(!temp.exists() || (stale_temp && !events.iter().any(|ev| ev.kind == "created")), "temp-file-left", || format!("failed pull ({e}) left the .svspart sibling behind"));
            if !(must_fail || conn_lost) {
                case.fail("pull-failed-without-fault", format!("fault-free pull failed: {e}"));
            }
            case.probe("failed_cleanly");
        }
    }
    let _ = unzstd(&[]);
    let _: Option<PathBuf> = None;
    let _ = Compression::None;
    case.nontrivial();
    let _ = std::fs::remove_dir_all(&dir);
}
