//! C03 shared pieces: the router under test (every built-in handler kind), the request
//! grammar, the routing/dispatch reference model and the response oracle. Used by the
//! blocking-TCP, async-TCP and WebSocket families so all four dispatch paths see the same
//! requests and are held to the same model.

use crate::codec::Frame;
use crate::framework::{Case, pick, range};
use repe::constants::{BodyFormat, ErrorCode};
use repe::message::Message;
use repe::peer::CallContext;
use repe::registry::Registry;
use repe::server::{HandlerErased, Middleware, Next, Router};
use repe::{RepeError, RepeStruct};
use serde::{Deserialize, Serialize};
use serde_json::{Value, json};
use std::collections::BTreeMap;
use std::sync::{Arc, Mutex};

/// Invocation counters keyed by route (bumped inside the user closures only).
#[derive(Default)]
pub struct Counters {
    pub calls: Mutex<BTreeMap<String, u64>>,
    pub middleware: Mutex<u64>,
}
impl Counters {
    pub fn bump(&self, k: &str) {
        *self.calls.lock().unwrap().entry(k.to_string()).or_insert(0) += 1;
    }
    pub fn get(&self, k: &str) -> u64 {
        self.calls.lock().unwrap().get(k).copied().unwrap_or(0)
    }
}

#[derive(Default, Serialize, Deserialize, RepeStruct)]
#[repe(methods(
    hello(&self) -> String
))]
pub struct Demo {
    pub i: i32,
}
impl Demo {
    fn hello(&self) -> String {
        "Hello".into()
    }
}

struct OwnQuery(Arc<Counters>);
impl HandlerErased for OwnQuery {
    fn handle(&self, req: &Message) -> Result<Message, RepeError> {
        self.0.bump("/custom/own");
        Ok(Message::builder()
            .id(req.header.id)
            .query_str("/own-query")
            .body_bytes(b"own".to_vec())
            .body_format_code(BodyFormat::Utf8 as u16)
            .build())
    }
}
/// Echoes the body under a query of its own choosing (C05: a response that already carries
/// a query when the server frames it).
struct OwnQueryEcho;
impl HandlerErased for OwnQueryEcho {
    fn handle(&self, req: &Message) -> Result<Message, RepeError> {
        Ok(Message::builder()
            .id(req.header.id)
            .query_str("/the/handler/chose/this/query")
            .body_bytes(req.body.clone())
            .body_format_code(req.header.body_format)
            .build())
    }
}
/// PlainEcho declared as an off-reader handler (servers that run everything inline ignore that).
struct PlainEchoOff;
impl HandlerErased for PlainEchoOff {
    fn handle(&self, req: &Message) -> Result<Message, RepeError> {
        Ok(Message::builder().id(req.header.id).body_bytes(req.body.clone()).body_format_code(req.header.body_format).build())
    }
    fn execution(&self) -> repe::server::Execution {
        repe::server::Execution::OffReader
    }
}
/// Echoes like PlainEcho; if the transport attaches a peer to the call context, a background
/// thread pushes notifications to it for a while (servers without peers: nothing happens).
struct PushyEcho;
impl HandlerErased for PushyEcho {
    fn handle(&self, req: &Message) -> Result<Message, RepeError> {
        Ok(Message::builder().id(req.header.id).body_bytes(req.body.clone()).body_format_code(req.header.body_format).build())
    }
    fn handle_with_ctx(&self, req: &Message, ctx: &CallContext) -> Result<Message, RepeError> {
        if let Some(p) = ctx.peer() {
            let p = p.clone();
            simkernel::count("probe.peer_attached_to_a_tcp_call_context");
            simkernel::thread::spawn(move || {
                for _ in 0..40 {
                    let _ = p.send_notify("/tick", repe::peer::NotifyBody::Raw(crate::codec::pattern(0, 700), BodyFormat::RawBinary));
                    simkernel::thread::sleep(std::time::Duration::from_micros(300));
                }
            });
        }
        self.handle(req)
    }
}
struct PlainEcho(Arc<Counters>);
impl HandlerErased for PlainEcho {
    fn handle(&self, req: &Message) -> Result<Message, RepeError> {
        self.0.bump("/custom/plain");
        Ok(Message::builder()
            .id(req.header.id)
            .body_bytes(req.body.clone())
            .body_format_code(req.header.body_format)
            .build())
    }
}
struct FailingErased(Arc<Counters>);
impl HandlerErased for FailingErased {
    fn handle(&self, _req: &Message) -> Result<Message, RepeError> {
        self.0.bump("/custom/err");
        Err(RepeError::ServerError { code: ErrorCode::Timeout, message: "late".into() })
    }
}

struct CountingMw(Arc<Counters>);
impl Middleware for CountingMw {
    fn handle(&self, req: &Message, next: Next<'_>) -> Result<Message, RepeError> {
        *self.0.middleware.lock().unwrap() += 1;
        next.run(req)
    }
}

/// The router under test. `n_middleware` forwarding middlewares are registered *before or
/// after* the routes (`mw_first`), which must not matter.
pub fn build_router(c: &Arc<Counters>, n_middleware: u32, mw_first: bool) -> Router {
    let mut r = Router::new();
    if mw_first {
        for _ in 0..n_middleware {
            r = r.with_middleware(CountingMw(c.clone()));
        }
    }
    let k = c.clone();
    r = r.with_json("/json/echo", move |v| {
        k.bump("/json/echo");
        Ok(json!({"echo": v}))
    });
    let k = c.clone();
    r = r.with_json("/json/fail", move |_v| {
        k.bump("/json/fail");
        Err((ErrorCode::ApplicationErrorBase, "boom".to_string()))
    });
    let k = c.clone();
    r = r.with_typed::<(i64, i64), i64, _>("/typed/add", move |(a, b): (i64, i64)| {
        k.bump("/typed/add");
        Ok(a.wrapping_add(b))
    });
    let k = c.clone();
    r = r.with_json_ctx("/ctx/json", move |ctx: &CallContext, v| {
        k.bump("/ctx/json");
        Ok(json!({"m": ctx.method(), "v": v}))
    });
    let k = c.clone();
    r = r.with_typed_ctx::<i64, i64, _>("/ctx/typed", move |_ctx: &CallContext, x: i64| {
        k.bump("/ctx/typed");
        Ok(x.wrapping_mul(2))
    });
    let k = c.clone();
    r = r.with_typed_slice::<f64, f64, _>("/slice/sum", move |v: Vec<f64>| {
        k.bump("/slice/sum");
        Ok(vec![v.iter().sum::<f64>(), v.len() as f64])
    });
    let k = c.clone();
    r = r.with_typed_slice_ref::<f64, f64, _>("/sliceref/sum", move |v: &[f64]| {
        k.bump("/sliceref/sum");
        Ok(vec![v.iter().sum::<f64>(), v.len() as f64])
    });
    let k = c.clone();
    r = r.with_json_blocking("/bjson/echo", move |v| {
        k.bump("/bjson/echo");
        Ok(json!({"echo": v}))
    });
    let k = c.clone();
    r = r.with_typed_blocking::<(i64, i64), i64, _>("/btyped/add", move |(a, b): (i64, i64)| {
        k.bump("/btyped/add");
        Ok(a.wrapping_add(b))
    });
    let k = c.clone();
    r = r.with_json_ctx_blocking("/bctx/json", move |ctx: &CallContext, v| {
        k.bump("/bctx/json");
        Ok(json!({"m": ctx.method(), "v": v}))
    });
    let k = c.clone();
    r = r.with_typed_ctx_blocking::<i64, i64, _>("/bctx/typed", move |_ctx: &CallContext, x: i64| {
        k.bump("/bctx/typed");
        Ok(x.wrapping_mul(2))
    });
    r = r.with_erased_handler("/custom/own", Arc::new(OwnQuery(c.clone())));
    r = r.with_erased_handler("/custom/plain", Arc::new(PlainEcho(c.clone())));
    r = r.with_erased_handler("/custom/ownecho", Arc::new(OwnQueryEcho));
    r = r.with_erased_handler("/custom/plainoff", Arc::new(PlainEchoOff));
    r = r.with_erased_handler("/custom/pushy", Arc::new(PushyEcho));
    r = r.with_erased_handler("/custom/err", Arc::new(FailingErased(c.clone())));
    let reg = Arc::new(Registry::new());
    reg.register_value("/counter", json!(7)).unwrap();
    reg.register_value("/cfg", json!({"name": "n", "list": [1, 2, 3]})).unwrap();
    let k = c.clone();
    reg.register_function("/fn", move |p: Option<Value>| {
        k.bump("/reg/fn");
        Ok(json!({"got": p}))
    })
    .unwrap();
    r = r.with_registry("/reg", reg);
    let (r2, _shared) = r.with_struct("/st", Demo { i: 5 });
    r = r2;
    if !mw_first {
        for _ in 0..n_middleware {
            r = r.with_middleware(CountingMw(c.clone()));
        }
    }
    r
}

#[derive(Clone, Debug)]
pub struct Req {
    pub id: u64,
    pub version: u8,
    pub notify: bool,
    pub qfmt: u16,
    pub query: Vec<u8>,
    pub bfmt: u16,
    pub body: Vec<u8>,
    pub what: String,
}

impl Req {
    pub fn frame(&self) -> Frame {
        let mut f = Frame::new(self.id, &self.query, &self.body);
        f.version = self.version;
        f.notify = self.notify as u8;
        f.query_format = self.qfmt;
        f.body_format = self.bfmt;
        f
    }
}

/// What the model predicts for one request.
#[derive(Clone, Debug, PartialEq)]
pub struct Expect {
    /// None: no response (notify)
    pub ec: Option<u32>,
    /// expected response query bytes
    pub query: Vec<u8>,
    /// Some(bytes) when the model knows the body exactly
    pub body: Option<Vec<u8>>,
    /// route whose user closure must have run exactly once for this request
    pub closure: Option<String>,
}

const JSONISH: [&str; 10] = [
    "/json/echo", "/json/fail", "/typed/add", "/ctx/json", "/ctx/typed", "/bjson/echo", "/btyped/add", "/bctx/json", "/bctx/typed", "/custom/plain",
];

pub fn gen_requests(n: usize) -> Vec<Req> {
    let mut out = Vec::new();
    for i in 0..n {
        let id = 1000 + i as u64;
        let route = pick(&[
            "/json/echo", "/json/echo", "/json/fail", "/typed/add", "/ctx/json", "/ctx/typed", "/slice/sum", "/sliceref/sum", "/bjson/echo",
            "/btyped/add", "/bctx/json", "/bctx/typed", "/custom/own", "/custom/plain", "/custom/err", "/reg/counter", "/reg/cfg/list/1", "/reg/fn",
            "/reg/missing", "/st/hello", "/st/i", "/nope", "/json", "/reg", "/regx",
        ]);
        let mut version = 1u8;
        let mut qfmt = 1u16;
        let mut query = route.as_bytes().to_vec();
        let notify = simkernel::choose(6) == 0;
        match simkernel::choose(14) {
            0 => version = pick(&[0u8, 2, 255]),
            1 => qfmt = pick(&[0u16, 2, 7, 0xffff]),
            2 => query = vec![0x2f, 0xff, 0xfe, 0x80],
            _ => {}
        }
        // body by what the route expects, sometimes wrong on purpose
        let (mut bfmt, mut body): (u16, Vec<u8>) = match route {
            "/typed/add" | "/btyped/add" => (2, serde_json::to_vec(&json!([i as i64, 5])).unwrap()),
            "/ctx/typed" | "/bctx/typed" => (2, serde_json::to_vec(&json!(i as i64)).unwrap()),
            "/slice/sum" | "/sliceref/sum" => (1, beve::to_vec_typed_slice(&[1.5f64, i as f64, -2.0])),
            "/reg/counter" | "/reg/cfg/list/1" | "/reg/missing" | "/st/hello" | "/st/i" | "/reg" => (0, Vec::new()),
            _ => (2, serde_json::to_vec(&json!({"n": i, "s": "x"})).unwrap()),
        };
        match simkernel::choose(12) {
            0 => bfmt = pick(&[0u16, 9, 0xfffe]),          // unacceptable / unknown format
            1 => body = b"{not json".to_vec(),              // malformed
            5 if bfmt == 2 => {
                // well-formed JSON text around bytes that are not UTF-8 (sometimes framed as UTF-8)
                body = b"{\"s\":\"\xff\xfe\"}".to_vec();
                if simkernel::choose(2) == 0 {
                    bfmt = 3;
                }
            }
            2 => body = Vec::new(),                         // empty
            3 if bfmt == 2 && matches!(route, "/json/echo" | "/bjson/echo" | "/ctx/json" | "/bctx/json" | "/json/fail" | "/reg/fn") => {
                bfmt = 1;
                body = beve::to_vec(&serde_json::from_slice::<Value>(&body).unwrap_or(Value::Null)).unwrap_or_default();
            }
            4 if bfmt == 2 => bfmt = 3, // UTF-8 framed JSON
            _ => {}
        }
        out.push(Req { id, version, notify, qfmt, query, bfmt, body, what: route.to_string() });
    }
    out
}

fn json_parse(bfmt: u16, body: &[u8]) -> Result<Result<Value, u32>, ()> {
    // Ok(Ok(v)) decoded; Ok(Err(code)) rejected with code
    match bfmt {
        2 | 3 => Ok(serde_json::from_slice::<Value>(body).map_err(|_| ErrorCode::ParseError as u32)),
        1 => Ok(beve::from_slice::<Value>(body).map_err(|_| ErrorCode::ParseError as u32)),
        _ => Ok(Err(ErrorCode::InvalidBody as u32)),
    }
}

/// The routing + dispatch reference model.
pub fn model(r: &Req) -> Expect {
    let none = |closure: Option<String>| Expect { ec: None, query: Vec::new(), body: None, closure };
    let reject = |ec: ErrorCode| -> Expect {
        if r.notify { Expect { ec: None, query: Vec::new(), body: None, closure: None } } else { Expect { ec: Some(ec as u32), query: r.query.clone(), body: None, closure: None } }
    };
    if r.version != 1 {
        return reject(ErrorCode::VersionMismatch);
    }
    if r.qfmt != 1 {
        return reject(ErrorCode::InvalidQuery);
    }
    let Ok(path) = std::str::from_utf8(&r.query) else { return reject(ErrorCode::InvalidQuery) };
    let respond = |ec: u32, body: Option<Vec<u8>>, closure: Option<String>, query: Vec<u8>| -> Expect {
        if r.notify { none(closure) } else { Expect { ec: Some(ec), query, body, closure } }
    };
    let q = r.query.clone();
    let jsonish = |closure_path: &str, f: &dyn Fn(Value) -> Result<Vec<u8>, (u32, Vec<u8>)>| -> Expect {
        match json_parse(r.bfmt, &r.body).unwrap() {
            Err(code) => respond(code, None, None, q.clone()),
            Ok(v) => match f(v) {
                Ok(body) => respond(0, Some(body), Some(closure_path.to_string()), q.clone()),
                Err((code, body)) => respond(code, Some(body), Some(closure_path.to_string()), q.clone()),
            },
        }
    };
    let typed = |closure_path: &str, f: &dyn Fn(&Value) -> Option<Value>| -> Expect {
        match json_parse(r.bfmt, &r.body).unwrap() {
            Err(code) => respond(code, None, None, q.clone()),
            Ok(v) => match f(&v) {
                // the value parsed as JSON but not as the handler's input type
                None => respond(ErrorCode::ParseError as u32, None, None, q.clone()),
                Some(out) => respond(0, Some(serde_json::to_vec(&out).unwrap()), Some(closure_path.to_string()), q.clone()),
            },
        }
    };
    match path {
        "/json/echo" | "/bjson/echo" => jsonish(path, &|v| Ok(serde_json::to_vec(&json!({"echo": v})).unwrap())),
        "/json/fail" => jsonish(path, &|_| Err((4096, b"boom".to_vec()))),
        "/ctx/json" | "/bctx/json" => jsonish(path, &|v| Ok(serde_json::to_vec(&json!({"m": path, "v": v})).unwrap())),
        "/typed/add" | "/btyped/add" => typed(path, &|v| {
            let a = v.as_array()?;
            if a.len() != 2 {
                return None;
            }
            Some(json!(a[0].as_i64()?.wrapping_add(a[1].as_i64()?)))
        }),
        "/ctx/typed" | "/bctx/typed" => typed(path, &|v| Some(json!(v.as_i64()?.wrapping_mul(2)))),
        "/slice/sum" | "/sliceref/sum" => {
            if r.bfmt != 1 {
                return respond(ErrorCode::InvalidBody as u32, None, None, q);
            }
            match beve::read_typed_slice::<f64>(&r.body) {
                Ok(v) => {
                    let out = vec![v.iter().sum::<f64>(), v.len() as f64];
                    respond(0, Some(beve::to_vec_typed_slice(&out)), Some(path.to_string()), q)
                }
                Err(_) => respond(ErrorCode::ParseError as u32, None, None, q),
            }
        }
        "/custom/own" => respond(0, Some(b"own".to_vec()), Some(path.to_string()), b"/own-query".to_vec()),
        "/custom/plain" => respond(0, Some(r.body.clone()), Some(path.to_string()), q),
        "/custom/err" => respond(ErrorCode::Timeout as u32, None, Some(path.to_string()), q),
        p if p == "/reg" || p.starts_with("/reg/") => {
            // registry mount: model only what C03 states (a response with the right id/query,
            // error class for unknown paths); the tree semantics are C14's
            let rest = &p[4..];
            let body_val: Result<Option<Value>, u32> = if r.body.is_empty() {
                Ok(None)
            } else {
                match r.bfmt {
                    2 => serde_json::from_slice(&r.body).map(Some).map_err(|_| ErrorCode::InvalidBody as u32),
                    1 => beve::from_slice(&r.body).map(Some).map_err(|_| ErrorCode::InvalidBody as u32),
                    3 => std::str::from_utf8(&r.body).map(|s| Some(Value::String(s.into()))).map_err(|_| ErrorCode::InvalidBody as u32),
                    0 => Ok(Some(Value::Array(r.body.iter().map(|b| json!(*b)).collect()))),
                    _ => Err(ErrorCode::InvalidBody as u32),
                }
            };
            match body_val {
                Err(code) => respond(code, None, None, q),
                Ok(None) => match rest {
                    "" => respond(0, None, None, q),
                    "/counter" => respond(0, Some(b"7".to_vec()), None, q),
                    "/cfg/list/1" => respond(0, Some(b"2".to_vec()), None, q),
                    "/fn" => respond(0, None, None, q),
                    _ => respond(ErrorCode::MethodNotFound as u32, None, None, q),
                },
                Ok(Some(_)) => match rest {
                    "/fn" => respond(0, None, Some("/reg/fn".to_string()), q),
                    "/missing" | "/counter" => respond(0, None, None, q), // write creates/overwrites under the root object
                    "" => {
                        // root write: object body merges, anything else is InvalidBody
                        Expect { ec: if r.notify { None } else { Some(u32::MAX) }, query: q, body: None, closure: None }
                    }
                    _ => Expect { ec: if r.notify { None } else { Some(u32::MAX) }, query: q, body: None, closure: None },
                },
            }
        }
        p if p == "/st" || p.starts_with("/st/") => {
            // struct mount: opaque to the model except that a response must come back
            Expect { ec: if r.notify { None } else { Some(u32::MAX) }, query: q, body: None, closure: None }
        }
        _ => reject(ErrorCode::MethodNotFound),
    }
}

/// A registry write through the mount changes later reads; keep the generated sequences
/// free of writes to the two paths whose reads the model pins.
pub fn sanitize(reqs: &mut [Req]) {
    for r in reqs.iter_mut() {
        if (r.what == "/reg" || r.what == "/regx" || (r.what.starts_with("/reg/") && r.what != "/reg/fn")) && r.version == 1 && r.qfmt == 1 {
            r.body.clear();
        }
    }
}

/// Compare the responses a dispatch path produced with the model.
/// `inline_order`: responses must come back in request arrival order.
pub fn check_responses(case: &Case, who: &str, reqs: &[Req], responses: &[Frame], counters: &Counters, n_middleware: u32, inline_order: bool) -> bool {
    let expects: Vec<Expect> = reqs.iter().map(model).collect();
    let want_ids: Vec<u64> = reqs.iter().zip(expects.iter()).filter(|(_, e)| e.ec.is_some()).map(|(r, _)| r.id).collect();
    let got_ids: Vec<u64> = responses.iter().map(|f| f.id).collect();
    if inline_order {
        if !case.check(got_ids == want_ids, "response-sequence", || {
            format!("{who}: response ids {got_ids:?}, expected (arrival order of non-notify requests) {want_ids:?}; requests {:?}", reqs.iter().map(|r| (r.id, &r.what, r.notify)).collect::<Vec<_>>())
        }) {
            return false;
        }
    } else {
        let mut a = got_ids.clone();
        let mut b = want_ids.clone();
        a.sort();
        b.sort();
        if !case.check(a == b, "response-multiset", || format!("{who}: response ids {got_ids:?}, expected exactly one per non-notify request {want_ids:?}")) {
            return false;
        }
    }
    for (r, e) in reqs.iter().zip(expects.iter()) {
        let Some(ec) = e.ec else { continue };
        let Some(f) = responses.iter().find(|f| f.id == r.id) else { continue };
        if ec != u32::MAX
            && !case.check(f.ec == ec, "wrong-error-code", || {
                format!("{who}: request {} ({} v{} qfmt {} bfmt {} body {:?}) answered ec {} body {:?}, model ec {ec}", r.id, r.what, r.version, r.qfmt, r.bfmt, String::from_utf8_lossy(&r.body), f.ec, String::from_utf8_lossy(&f.body))
            })
        {
            return false;
        }
        if !case.check(f.query == e.query, "query-not-echoed", || {
            format!("{who}: request {} ({}) response query {:?}, expected {:?}", r.id, r.what, String::from_utf8_lossy(&f.query), String::from_utf8_lossy(&e.query))
        }) {
            return false;
        }
        if let Some(b) = &e.body
            && !case.check(&f.body == b, "wrong-body", || {
                format!("{who}: request {} ({}) response body {:?}, expected {:?}", r.id, r.what, String::from_utf8_lossy(&f.body), String::from_utf8_lossy(b))
            })
        {
            return false;
        }
        if !case.check(f.notify == 0 && f.version == 1, "response-flags", || format!("{who}: response to {} has notify={} version={}", r.id, f.notify, f.version)) {
            return false;
        }
    }
    // user closures ran exactly once per dispatched request (notifies included), never for rejected
    let mut want: BTreeMap<String, u64> = BTreeMap::new();
    for e in &expects {
        if let Some(c) = &e.closure {
            *want.entry(c.clone()).or_insert(0) += 1;
        }
    }
    let got = counters.calls.lock().unwrap().clone();
    for k in want.keys().chain(got.keys()) {
        let (w, g) = (want.get(k).copied().unwrap_or(0), got.get(k).copied().unwrap_or(0));
        if !case.check(w == g, "handler-invocations", || format!("{who}: handler {k} ran {g} times, model says {w}; requests {:?}", reqs.iter().map(|r| (r.id, &r.what, r.notify, r.version, r.qfmt, r.bfmt)).collect::<Vec<_>>())) {
            return false;
        }
    }
    // middleware runs once per layer for every request that reached a route
    let routed = reqs.iter().filter(|r| r.version == 1 && r.qfmt == 1 && std::str::from_utf8(&r.query).is_ok_and(|p| routed_path(p))).count() as u64;
    let mw = *counters.middleware.lock().unwrap();
    case.check(mw == routed * n_middleware as u64, "middleware-invocations", || format!("{who}: {n_middleware} middleware layers ran {mw} times for {routed} routed requests"))
}

pub fn routed_path(p: &str) -> bool {
    matches!(
        p,
        "/json/echo" | "/json/fail" | "/typed/add" | "/ctx/json" | "/ctx/typed" | "/slice/sum" | "/sliceref/sum" | "/bjson/echo" | "/btyped/add" | "/bctx/json"
            | "/bctx/typed" | "/custom/own" | "/custom/plain" | "/custom/err"
    ) || p == "/reg"
        || p.starts_with("/reg/")
        || p == "/st"
        || p.starts_with("/st/")
}

pub fn draw_len() -> usize {
    let _ = JSONISH;
    match simkernel::choose(8) {
        0 => 1,
        1 => range(33, 64) as usize,
        _ => range(2, 16) as usize,
    }
}
