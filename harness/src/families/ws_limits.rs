//! C17: no outbound WebSocket message exceeds the assumed peer frame limit, on each of the
//! seven outbound paths, at sizes limit-2..limit+2 and random sizes.

use crate::codec::{Frame, is_pattern, pattern};
use crate::families::aio::{self, sleep_ms};
use crate::families::ws_common::{Inbox, check_inbox_clean, raw_connect, send_frame, spawn_collector, unlimited_config, wait_until};
use crate::framework::{Case, Family, coin, pick, range};
use futures_util::{SinkExt, StreamExt};
use repe::constants::{BodyFormat, ErrorCode};
use repe::server::{Execution, HandlerErased, Router};
use repe::websocket_server::{ConnectionError, WebSocketServer, proxy_connection_with_limits};
use repe::{AsyncClient, AsyncServer, Message, NotifyBody, PeerRegistry, RepeError, WebSocketClient, WebSocketLimits};
use serde_json::{Value, json};
use simkernel::net;
use simkernel::tokio_net::TcpListener;
use std::sync::Arc;
use std::sync::atomic::{AtomicU64, Ordering};
use std::time::Duration;
use tokio_tungstenite::tungstenite::Message as WsMessage;

pub fn families() -> Vec<Family> {
    vec![
        Family::new(
            "c17_ws_server_paths",
            "C17",
            "WebSocketServer outbound guard: inline response, off-reader response, handler-pushed notify, registry broadcast at sizes limit-2..limit+2 and random; raw peer with unlimited inbound observes the wire",
            c17_ws_server_paths,
        )
        .runs(20_000, 1_200_000)
        .tokio(),
        Family::new(
            "c17_ws_server_burst",
            "C17",
            "WebSocketServer outbound guard under queueing: one handler invocation pushes several notifies (direct or broadcast) of sizes around the limit back to back while sized responses are pipelined, so oversized messages sit behind others in the outbound queue",
            c17_ws_server_burst,
        )
        .runs(40_000, 2_400_000)
        .steps(2_000_000)
        .tokio(),
        Family::new(
            "c17_ws_proxy",
            "C17",
            "proxy_connection_with_limits over a real AsyncClient<->AsyncServer hop: forwarded responses at sizes around the limit",
            c17_ws_proxy,
        )
        .runs(6_000, 360_000)
        .tokio(),
        Family::new(
            "c17_ws_client",
            "C17",
            "WebSocketClient outbound guard: requests and notifies at sizes around the limit against a recording raw server",
            c17_ws_client,
        )
        .runs(35_000, 2_100_000)
        .tokio(),
    ]
}

/// Response body = pattern(id) of the requested length, raw binary; the server stamps the
/// request query in, so the frame is 48 + query + n bytes.
struct Sized {
    off_reader: bool,
}
impl HandlerErased for Sized {
    fn handle(&self, req: &Message) -> Result<Message, RepeError> {
        let v: Value = serde_json::from_slice(&req.body).unwrap_or(Value::Null);
        let n = v["n"].as_u64().unwrap_or(0) as usize;
        Ok(Message::builder().id(req.header.id).body_bytes(pattern(req.header.id, n)).body_format(BodyFormat::RawBinary).build())
    }
    fn execution(&self) -> Execution {
        if self.off_reader { Execution::OffReader } else { Execution::Inline }
    }
}

/// C17 moves messages of up to a few MiB: keep the pipe wide enough that simulated time
/// (not the property) is not what bounds a run. Chunking and delay still vary.
fn roomy_net() -> simkernel::net::NetConfig {
    simkernel::net::NetConfig {
        capacity: pick(&[8192usize, 65_536, 1 << 20]),
        lat_min: pick(&[0u64, 10_000]),
        lat_max: pick(&[10_000u64, 100_000]),
        max_segment: pick(&[0usize, 0, 1000]),
    }
}

pub fn draw_limit() -> Option<usize> {
    match simkernel::choose(10) {
        0 => None,
        1..=6 => Some(pick(&[1024usize, 1500, 2048, 4096, 8192, 65_536])),
        7 | 8 => Some(range(1024, 70_000) as usize),
        _ => Some(pick(&[256 * 1024usize, 256 * 1024, 1 << 20])),
    }
}

/// A frame size near (or unrelated to) the limit.
pub fn draw_size(limit: Option<usize>, floor: usize) -> usize {
    let l = limit.unwrap_or(pick(&[2048usize, 70_000]));
    let s = match simkernel::choose(8) {
        0 => l - 2,
        1 => l - 1,
        2 => l,
        3 => l + 1,
        4 => l + 2,
        5 => floor + simkernel::choose(200) as usize,
        6 => l / 2,
        _ => l + 1 + simkernel::choose(l as u32) as usize,
    };
    s.max(floor)
}

#[derive(Clone, Copy, Debug, PartialEq, Eq)]
enum Path {
    Inline,
    OffReader,
    PushedNotify,
    Broadcast,
}

fn c17_ws_server_paths(case: &Case) {
    net::reset(roomy_net());
    let limit = draw_limit();
    // a route whose path alone is a sizeable share of the limit (the reply echoes it)
    let long_q: Option<String> = match limit {
        Some(l) if l <= 70_000 && simkernel::choose(3) == 0 => Some(format!("/L{}", "q".repeat(l - pick(&[60usize, 130, 171, 172, 173, 300, 1000]).min(l - 2) - 2))),
        _ => None,
    };
    let n_ops = range(1, 6) as usize;
    let ops: Vec<(Path, usize)> = (0..n_ops)
        .map(|_| {
            let p = if long_q.is_some() { pick(&[Path::Inline, Path::Inline, Path::OffReader, Path::PushedNotify, Path::Broadcast]) } else { pick(&[Path::Inline, Path::OffReader, Path::PushedNotify, Path::Broadcast]) };
            let qlen = match p {
                Path::Inline => long_q.as_ref().map(|q| q.len()).unwrap_or("/sized".len()),
                Path::OffReader => "/sized_off".len(),
                _ => "/pushed".len(),
            };
            (p, draw_size(limit, 48 + qlen))
        })
        .collect();
    case.sample(json!({"assumed_peer_frame_limit": limit, "ops": ops.iter().map(|(p, s)| format!("{p:?}:{s}")).collect::<Vec<_>>()}));
    let case = case.clone();
    aio::run(&case.clone(), 3_600, async move {
        let reg = PeerRegistry::new();
        let reg2 = reg.clone();
        let router = Router::new()
            .with_erased_handler("/sized", Arc::new(Sized { off_reader: false }))
            .with_erased_handler(long_q.as_deref().unwrap_or("/unused-long"), Arc::new(Sized { off_reader: false }))
            .with_erased_handler("/sized_off", Arc::new(Sized { off_reader: true }))
            .with_json("/echo", |v: Value| Ok(json!({"echo": v})))
            .with_json_ctx("/push", move |ctx, v: Value| {
                let n = v["n"].as_u64().unwrap_or(0) as usize;
                let tag = v["tag"].as_u64().unwrap_or(0);
                let body = pattern(tag, n);
                let r = if v["broadcast"].as_bool().unwrap_or(false) {
                    reg2.broadcast_notify_raw("/pushed", BodyFormat::RawBinary, &body).values().all(|r| r.is_ok())
                } else {
                    ctx.peer().map(|p| p.send_notify("/pushed", NotifyBody::Raw(body, BodyFormat::RawBinary)).is_ok()).unwrap_or(false)
                };
                Ok(json!({"queued": r}))
            });
        let too_large = Arc::new(std::sync::Mutex::new(Vec::<(String, usize, usize)>::new()));
        let tl = too_large.clone();
        let limits = WebSocketLimits::default().with_assumed_peer_frame_limit(limit);
        let listener = WebSocketServer::listen("127.0.0.1:0").await.unwrap();
        let addr = listener.local_addr().unwrap();
        let on_err = move |e: &ConnectionError| {
            if let ConnectionError::OutboundTooLarge { method, size, limit } = e {
                tl.lock().unwrap().push((method.clone(), *size, *limit));
            }
        };
        // the limits may be configured at any point of the builder chain
        let server = match simkernel::choose(3) {
            0 => WebSocketServer::new(router).with_limits(limits).with_peer_registry(reg.clone()).on_error(on_err),
            1 => WebSocketServer::new(router).with_peer_registry(reg.clone()).with_outbound_capacity(64).with_limits(limits).on_error(on_err),
            _ => WebSocketServer::new(router).on_error(on_err).with_offreader_limit(4).with_peer_registry(reg.clone()).with_limits(limits),
        };
        let srv = tokio::spawn(async move {
            let _ = server.serve_listener(listener, "/repe").await;
        });
        let Ok(ws) = raw_connect(addr, "/repe").await else {
            case.harness_error("handshake failed");
            return;
        };
        let (mut sink, stream) = ws.split();
        let inbox = Arc::new(Inbox::default());
        let collector = spawn_collector(stream, inbox.clone());
        let mut id = 0u64;
        let mut expect_dropped = 0usize;
        for (k, (path, size)) in ops.iter().enumerate() {
            id += 1;
            let over = limit.is_some_and(|l| *size > l);
            match path {
                Path::Inline | Path::OffReader => {
                    let lq = long_q.clone().unwrap_or_default();
                    let q: &[u8] = if *path == Path::Inline { if long_q.is_some() { lq.as_bytes() } else { b"/sized" } } else { b"/sized_off" };
                    if long_q.is_some() && *path == Path::Inline {
                        case.probe("long_query_near_limit");
                    }
                    let n = size - 48 - q.len();
                    let body = serde_json::to_vec(&json!({"n": n})).unwrap();
                    let _ = send_frame(&mut sink, &Frame::new(id, q, &body).with_formats(1, 2)).await;
                    let want = id;
                    if !wait_until(60_000, || !inbox.responses_for(want).is_empty() || inbox.ended()).await {
                        case.fail("no-response", format!("op {k} ({path:?}, frame {size} B, limit {limit:?}): no response"));
                        break;
                    }
                    let rs = inbox.responses_for(id);
                    if rs.len() != 1 {
                        case.fail("connection-lost", format!("op {k} ({path:?}, frame {size} B, limit {limit:?}): {} responses, connection ended={}", rs.len(), inbox.ended()));
                        break;
                    }
                    let r = &rs[0];
                    if over {
                        case.probe("oversized_response_replaced");
                        case.check(r.ec == ErrorCode::InternalError as u32, "oversized-response-not-replaced", || {
                            format!("{path:?} response of {size} B over limit {limit:?} arrived as ec={} with {} body bytes", r.ec, r.body.len())
                        });
                    } else {
                        case.check(r.ec == 0 && r.query == q && r.body.len() == n && is_pattern(id, &r.body), "response-altered", || {
                            format!("{path:?} response of {size} B within limit {limit:?} arrived as ec={} q={:?} body {} B", r.ec, r.query_str(), r.body.len())
                        });
                        if limit.is_some_and(|l| *size + 2 >= l) {
                            case.probe("response_at_the_boundary_delivered");
                        }
                    }
                }
                Path::PushedNotify | Path::Broadcast => {
                    let n = size - 48 - "/pushed".len();
                    let tag = 1000 + id;
                    let body = serde_json::to_vec(&json!({"n": n, "tag": tag, "broadcast": *path == Path::Broadcast})).unwrap();
                    let _ = send_frame(&mut sink, &Frame::new(id, b"/push", &body).with_formats(1, 2)).await;
                    let want = id;
                    if !wait_until(60_000, || !inbox.responses_for(want).is_empty() || inbox.ended()).await {
                        case.fail("no-response", format!("op {k} ({path:?}, notify frame {size} B, limit {limit:?}): no response to /push"));
                        break;
                    }
                    if !over {
                        let ib = inbox.clone();
                        wait_until(60_000, || ib.frames().iter().any(|f| f.notify != 0 && f.query == b"/pushed" && f.body.len() == n && is_pattern(tag, &f.body))).await;
                    }
                    sleep_ms(5).await;
                    let got: Vec<Frame> = inbox.frames().into_iter().filter(|f| f.notify != 0 && f.query == b"/pushed" && is_pattern(tag, &f.body) && f.body.len() == n).collect();
                    if over {
                        expect_dropped += 1;
                        case.probe("oversized_notify_dropped");
                        case.check(got.is_empty(), "oversized-notify-sent", || format!("{path:?} notify of {size} B over limit {limit:?} reached the wire"));
                    } else {
                        case.check(got.len() == 1, "notify-altered", || format!("{path:?} notify of {size} B within limit {limit:?}: {} matching messages arrived", got.len()));
                    }
                }
            }
        }
        // requests the reader refuses itself, with a query so long that the refusal (which echoes
        // it) is about as large as the limit: unknown method, or a query that is not even UTF-8
        if let Some(l) = limit
            && l <= 70_000
            && !case.failed()
            && simkernel::choose(3) == 0
        {
            for non_utf8 in [false, true] {
                id += 1;
                let qlen = pick(&[l / 2 - 40, l - 200, l - 60, l - 48, l + 10]).max(8);
                let q: Vec<u8> = if non_utf8 { std::iter::once(b'/').chain(std::iter::repeat_n(0xffu8, qlen - 1)).collect() } else { std::iter::once(b'/').chain(std::iter::repeat_n(b'u', qlen - 1)).collect() };
                let _ = send_frame(&mut sink, &Frame::new(id, &q, b"1").with_formats(1, 2)).await;
                let want = id;
                let ib = inbox.clone();
                wait_until(60_000, || !ib.responses_for(want).is_empty() || ib.ended()).await;
                let rs = inbox.responses_for(id);
                case.probe("refusal_about_as_large_as_the_limit");
                if !case.check(rs.len() == 1 && rs[0].ec != 0, "no-response", || format!("a request with a {qlen}-byte {} query (limit {l}) was refused but {} responses with its id arrived (ended={})", if non_utf8 { "non-UTF-8" } else { "unknown" }, rs.len(), inbox.ended())) {
                    break;
                }
            }
        }
        // the wire invariant itself, and the connection is still usable
        if let Some(l) = limit {
            let m = inbox.max_binary.load(Ordering::SeqCst);
            case.check(m <= l, "message-over-limit", || format!("a binary message of {m} bytes was sent, assumed peer frame limit {l}"));
        }
        id += 1;
        let _ = send_frame(&mut sink, &Frame::new(id, b"/echo", b"{\"fin\":1}").with_formats(1, 2)).await;
        let want = id;
        if !case.failed() && !wait_until(60_000, || !inbox.responses_for(want).is_empty()).await {
            case.fail("connection-lost", format!("follow-up call got no reply (connection ended={})", inbox.ended()));
        }
        let reported: Vec<(String, usize, usize)> = too_large.lock().unwrap().clone();
        case.check(reported.iter().filter(|e| e.0 == "/pushed").count() == expect_dropped, "drop-not-reported", || {
            format!("{expect_dropped} oversized notifies dropped but on_error saw {reported:?}")
        });
        check_inbox_clean(&case, "WebSocketServer", &inbox);
        case.nontrivial();
        let _ = tokio::time::timeout(Duration::from_secs(2), sink.close()).await;
        let _ = tokio::time::timeout(Duration::from_secs(2), collector).await;
        srv.abort();
        let _ = srv.await;
    });
}

/// Several outbound messages are queued before the writer gets to run: the guard must hold
/// for every one of them, not only for the message that woke the writer.
/// Largest payload among the (unmasked) WebSocket frames a server wrote, from the raw bytes of
/// its side of the TCP connection (HTTP upgrade response first).
fn largest_ws_payload_from_server(bytes: &[u8]) -> usize {
    let Some(start) = bytes.windows(4).position(|w| w == b"\r\n\r\n").map(|p| p + 4) else { return 0 };
    let mut at = start;
    let mut max = 0usize;
    while at + 2 <= bytes.len() {
        let len7 = (bytes[at + 1] & 0x7f) as usize;
        let masked = bytes[at + 1] & 0x80 != 0;
        let (hdr, len) = match len7 {
            126 if at + 4 <= bytes.len() => (4, u16::from_be_bytes([bytes[at + 2], bytes[at + 3]]) as usize),
            127 if at + 10 <= bytes.len() => (10, u64::from_be_bytes(bytes[at + 2..at + 10].try_into().unwrap()) as usize),
            126 | 127 => break,
            n => (2, n),
        };
        let hdr = hdr + if masked { 4 } else { 0 };
        max = max.max(len);
        at += hdr + len;
    }
    max
}

fn c17_ws_server_burst(case: &Case) {
    net::reset(roomy_net());
    let limit = draw_limit().map(|l| l.min(70_000));
    let n_ops = range(1, 5) as usize;
    // op = Some(sizes) for a push burst (with broadcast flag), None + size for a sized response
    #[derive(Clone, Debug)]
    enum Op {
        Burst { sizes: Vec<usize>, broadcast: bool },
        Resp { size: usize, off: bool },
    }
    let ops: Vec<Op> = (0..n_ops)
        .map(|_| {
            if simkernel::choose(3) != 0 {
                let k = range(2, 6) as usize;
                // (at least 8 body bytes: an empty body would match every tag's pattern)
                Op::Burst { sizes: (0..k).map(|_| draw_size(limit, 48 + "/pushed".len() + 8)).collect(), broadcast: simkernel::choose(2) == 0 }
            } else {
                let off = simkernel::choose(2) == 0;
                Op::Resp { size: draw_size(limit, 48 + if off { "/sized_off".len() } else { "/sized".len() }), off }
            }
        })
        .collect();
    let out_cap = pick(&[16usize, 64, 256]);
    case.sample(json!({"assumed_peer_frame_limit": limit, "outbound_capacity": out_cap, "ops": ops.iter().map(|o| format!("{o:?}")).collect::<Vec<_>>()}));
    let case = case.clone();
    aio::run(&case.clone(), 3_600, async move {
        let reg = PeerRegistry::new();
        let reg2 = reg.clone();
        let full = Arc::new(AtomicU64::new(0));
        let full2 = full.clone();
        // the handler can end the server itself, right after it has queued its notifies
        let token = repe::websocket_server::ShutdownToken::new();
        let stop2 = token.clone();
        let router = Router::new()
            .with_erased_handler("/sized", Arc::new(Sized { off_reader: false }))
            .with_erased_handler("/sized_off", Arc::new(Sized { off_reader: true }))
            .with_json("/echo", |v: Value| Ok(json!({"echo": v})))
            .with_json_ctx("/pushmany", move |ctx, v: Value| {
                let base = v["tag"].as_u64().unwrap_or(0);
                let bc = v["broadcast"].as_bool().unwrap_or(false);
                let mut queued = Vec::new();
                for (k, n) in v["lens"].as_array().cloned().unwrap_or_default().iter().enumerate() {
                    let n = n.as_u64().unwrap_or(0) as usize;
                    let body = pattern(base + k as u64, n);
                    let ok = if bc {
                        reg2.broadcast_notify_raw("/pushed", BodyFormat::RawBinary, &body).values().all(|r| r.is_ok())
                    } else {
                        ctx.peer().map(|p| p.send_notify("/pushed", NotifyBody::Raw(body, BodyFormat::RawBinary)).is_ok()).unwrap_or(false)
                    };
                    if !ok {
                        full2.fetch_add(1, Ordering::SeqCst);
                    }
                    queued.push(ok);
                }
                if v["then_stop"].as_bool().unwrap_or(false) {
                    // the embedder cancels every connection, this one included, while the
                    // messages just queued are still waiting for the writer
                    stop2.cancel();
                }
                Ok(json!({"queued": queued}))
            });
        let too_large = Arc::new(std::sync::Mutex::new(Vec::<(String, usize, usize)>::new()));
        let tl = too_large.clone();
        let limits = WebSocketLimits::default().with_assumed_peer_frame_limit(limit);
        let listener = WebSocketServer::listen("127.0.0.1:0").await.unwrap();
        let addr = listener.local_addr().unwrap();
        let server = WebSocketServer::new(router).with_limits(limits).with_outbound_capacity(out_cap).with_offreader_limit(0).with_peer_registry(reg.clone()).on_error(move |e: &ConnectionError| {
            if let ConnectionError::OutboundTooLarge { method, size, limit } = e {
                tl.lock().unwrap().push((method.clone(), *size, *limit));
            }
        });
        let srv = tokio::spawn(async move {
            // co-hosting style: the harness accepts, the library serves each connection under the
            // embedder's ShutdownToken
            let shared = server.into_shared();
            let mut set = tokio::task::JoinSet::new();
            loop {
                let Ok((stream, _)) = listener.accept().await else { break };
                let (shared, token) = (shared.clone(), token.clone());
                set.spawn(async move {
                    if let Ok(ws) = WebSocketServer::accept_with_limits(stream, "/repe", shared.limits()).await {
                        let _ = shared.serve_connection_with_cancel(ws, &token).await;
                    }
                });
            }
        });
        let Ok(ws) = raw_connect(addr, "/repe").await else {
            case.harness_error("handshake failed");
            return;
        };
        let main_conn = ws.get_ref().conn();
        let (mut sink, stream) = ws.split();
        let inbox = Arc::new(Inbox::default());
        let collector = spawn_collector(stream, inbox.clone());
        // a passive second peer: it never sends anything, so nothing but the broadcasts
        // themselves can flush what is queued for it
        let passive = if ops.iter().any(|o| matches!(o, Op::Burst { broadcast: true, .. })) && simkernel::choose(2) == 0 {
            match raw_connect(addr, "/repe").await {
                Ok(ws2) => {
                    let (sink2, stream2) = ws2.split();
                    let inbox2 = Arc::new(Inbox::default());
                    let c2 = spawn_collector(stream2, inbox2.clone());
                    sleep_ms(5).await;
                    Some((sink2, inbox2, c2))
                }
                Err(_) => None,
            }
        } else {
            None
        };
        // everything pipelined: nothing waits for anything until the barrier
        let mut id = 0u64;
        for op in &ops {
            id += 1;
            let f = match op {
                Op::Burst { sizes, broadcast } => {
                    let lens: Vec<usize> = sizes.iter().map(|s| s - 48 - "/pushed".len()).collect();
                    Frame::new(id, b"/pushmany", &serde_json::to_vec(&json!({"tag": id * 100, "lens": lens, "broadcast": broadcast})).unwrap())
                }
                Op::Resp { size, off } => {
                    let q: &[u8] = if *off { b"/sized_off" } else { b"/sized" };
                    Frame::new(id, q, &serde_json::to_vec(&json!({"n": size - 48 - q.len()})).unwrap())
                }
            }
            .with_formats(1, 2);
            let _ = send_frame(&mut sink, &f).await;
        }
        let n_req = id;
        let ib = inbox.clone();
        if !wait_until(120_000, || (1..=n_req).all(|i| !ib.responses_for(i).is_empty()) || ib.ended()).await || inbox.ended() {
            case.fail("connection-lost", format!("not every pipelined request was answered (connection ended={})", inbox.ended()));
            srv.abort();
            return;
        }
        // barrier: everything queued before it has been framed (or dropped) by the writer
        id += 1;
        let _ = send_frame(&mut sink, &Frame::new(id, b"/echo", b"{\"fin\":1}").with_formats(1, 2)).await;
        let want = id;
        if !wait_until(120_000, || !inbox.responses_for(want).is_empty() || inbox.ended()).await {
            case.fail("connection-lost", format!("follow-up call got no reply (connection ended={})", inbox.ended()));
        }
        sleep_ms(5).await;
        if let Some(l) = limit {
            let m = inbox.max_binary.load(Ordering::SeqCst);
            case.check(m <= l, "message-over-limit", || format!("a binary message of {m} bytes was sent, assumed peer frame limit {l}"));
        }
        let frames = inbox.frames();
        let mut expect_dropped = 0usize;
        let queue_was_full = full.load(Ordering::SeqCst) > 0;
        for (k, op) in ops.iter().enumerate() {
            let rid = k as u64 + 1;
            match op {
                Op::Burst { sizes, .. } => {
                    let resp = inbox.responses_for(rid);
                    let queued: Vec<bool> = resp.first().and_then(|r| serde_json::from_slice::<Value>(&r.body).ok()).and_then(|v| v["queued"].as_array().cloned()).unwrap_or_default().iter().map(|b| b.as_bool().unwrap_or(false)).collect();
                    for (j, size) in sizes.iter().enumerate() {
                        let tag = rid * 100 + j as u64;
                        let n = size - 48 - "/pushed".len();
                        let accepted = queued.get(j).copied().unwrap_or(false);
                        let got = frames.iter().filter(|f| f.notify != 0 && f.query == b"/pushed" && f.body.len() == n && is_pattern(tag, &f.body)).count();
                        let over = limit.is_some_and(|l| *size > l);
                        if !accepted {
                            // the bounded outbound queue was full: the sink refused it, legitimately
                            continue;
                        }
                        if over {
                            expect_dropped += 1;
                            case.probe("oversized_notify_dropped");
                            case.check(got == 0, "oversized-notify-sent", || format!("burst {k} message {j}: notify of {size} B over limit {limit:?} reached the wire"));
                        } else {
                            case.check(got == 1, "notify-altered", || format!("burst {k} message {j}: notify of {size} B within limit {limit:?} was accepted by the sink but {got} matching messages arrived"));
                        }
                    }
                }
                Op::Resp { size, off } => {
                    let rs = inbox.responses_for(rid);
                    let q: &[u8] = if *off { b"/sized_off" } else { b"/sized" };
                    let n = size - 48 - q.len();
                    if rs.len() != 1 {
                        case.fail("response-count", format!("pipelined request {rid} got {} responses", rs.len()));
                        continue;
                    }
                    if limit.is_some_and(|l| *size > l) {
                        case.probe("oversized_response_replaced");
                        case.check(rs[0].ec == ErrorCode::InternalError as u32, "oversized-response-not-replaced", || format!("queued response of {size} B over limit {limit:?} arrived as ec={} with {} body bytes", rs[0].ec, rs[0].body.len()));
                    } else {
                        case.check(rs[0].ec == 0 && rs[0].body.len() == n && is_pattern(rid, &rs[0].body), "response-altered", || format!("queued response of {size} B within limit {limit:?} arrived as ec={} body {} B", rs[0].ec, rs[0].body.len()));
                    }
                }
            }
        }
        let reported = too_large.lock().unwrap().iter().filter(|e| e.0 == "/pushed").count();
        let peers = if passive.is_some() { 2 } else { 1 };
        if passive.is_none() {
            case.check(reported == expect_dropped, "drop-not-reported", || format!("{expect_dropped} oversized notifies dropped but on_error saw {reported} OutboundTooLarge reports for /pushed"));
        } else {
            // (with two peers the per-peer outcome of a broadcast is not visible to the handler:
            // only the lower bound is checked)
            let _ = peers;
            case.check(reported >= expect_dropped, "drop-not-reported", || format!("{expect_dropped} oversized notifies dropped on the active peer but on_error saw only {reported} OutboundTooLarge reports for /pushed"));
        }
        // the passive peer got every broadcast that fits, without any other traffic to it
        if let Some((mut sink2, inbox2, c2)) = passive {
            sleep_ms(2_000).await;
            let frames2 = inbox2.frames();
            for (k, op) in ops.iter().enumerate() {
                let Op::Burst { sizes, broadcast: true } = op else { continue };
                let rid = k as u64 + 1;
                for (j, size) in sizes.iter().enumerate() {
                    let tag = rid * 100 + j as u64;
                    let n = size - 48 - "/pushed".len();
                    let got = frames2.iter().filter(|f| f.notify != 0 && f.query == b"/pushed" && f.body.len() == n && is_pattern(tag, &f.body)).count();
                    if limit.is_some_and(|l| *size > l) {
                        case.check(got == 0, "oversized-notify-sent", || format!("passive peer: broadcast {k} message {j} of {size} B over limit {limit:?} reached the wire"));
                    } else if !queue_was_full {
                        case.check(got == 1, "notify-not-delivered", || format!("passive peer: broadcast {k} message {j} of {size} B within limit {limit:?} was queued but {got} copies arrived within 2 s (no other traffic on that connection)"));
                    }
                }
            }
            case.probe("passive_peer_received_broadcasts");
            if let Some(l) = limit {
                let m = inbox2.max_binary.load(Ordering::SeqCst);
                case.check(m <= l, "message-over-limit", || format!("passive peer: a binary message of {m} bytes was sent, assumed peer frame limit {l}"));
            }
            let _ = tokio::time::timeout(Duration::from_secs(2), sink2.close()).await;
            let _ = tokio::time::timeout(Duration::from_secs(2), c2).await;
        }
        if queue_was_full {
            case.probe("outbound_queue_full_during_burst");
        }
        if ops.iter().any(|o| matches!(o, Op::Burst { .. })) {
            case.probe("burst_queued_behind_other_messages");
        }
        // last: messages around the limit are still queued when the server is shut down (the
        // handler that queued them fires the shutdown itself): what the writer still sends while
        // it drains is held to the limit like everything else
        if let Some(l) = limit
            && !case.failed()
            && simkernel::choose(2) == 0
        {
            let lens: Vec<usize> = [l + 1, l - 10, l + 300, l].iter().map(|s| s.saturating_sub(48 + "/pushed".len())).collect();
            // ... and the handler that queued them cancels the embedder's ShutdownToken before it
            // returns: the connection is torn down while the writer still has them to get rid of
            let last = Frame::new(9_000, b"/pushmany", &serde_json::to_vec(&json!({"tag": 900_000, "lens": lens, "broadcast": false, "then_stop": true})).unwrap()).with_formats(1, 2);
            let _ = send_frame(&mut sink, &last).await;
            let ib = inbox.clone();
            if wait_until(5_000, || ib.ended()).await {
                case.probe("connection_ended_with_messages_queued");
            }
            case.probe("shutdown_with_oversized_messages_queued");
            // (a WebSocket endpoint that has sent Close discards data frames that still arrive, so
            // the peer's message stream cannot show them: the bytes on the TCP connection can)
            sleep_ms(20).await;
            let m = largest_ws_payload_from_server(&net::tap_of(&main_conn, simkernel::net::Side::B));
            case.check(m <= l, "message-over-limit", || format!("while draining at shutdown the server put a WebSocket frame with a {m}-byte payload on the wire, assumed peer frame limit {l}"));
        }
        check_inbox_clean(&case, "WebSocketServer", &inbox);
        case.nontrivial();
        let _ = tokio::time::timeout(Duration::from_secs(2), sink.close()).await;
        let _ = tokio::time::timeout(Duration::from_secs(2), collector).await;
        srv.abort();
        let _ = srv.await;
    });
}

fn c17_ws_proxy(case: &Case) {
    net::reset(roomy_net());
    let limit = draw_limit();
    let n_ops = range(1, 5) as usize;
    let sizes: Vec<usize> = (0..n_ops).map(|_| draw_size(limit, 48 + "/sized".len())).collect();
    // what the upstream answers with: 0 a sized OK response, 1 a handler error whose message
    // makes the reply that size, 2 method-not-found for a path that makes the reply about that size
    let kinds: Vec<u8> = (0..n_ops).map(|_| pick(&[0u8, 0, 1, 2])).collect();
    case.sample(json!({"assumed_peer_frame_limit": limit, "forwarded_response_sizes": sizes, "reply_kinds": kinds}));
    let case = case.clone();
    aio::run(&case.clone(), 3_600, async move {
        // upstream: real AsyncServer
        let router = Router::new()
            .with_erased_handler("/sized", Arc::new(Sized { off_reader: false }))
            .with_json("/fails", |v: Value| Err((ErrorCode::ApplicationErrorBase, "e".repeat(v["n"].as_u64().unwrap_or(0) as usize))))
            .with_json("/echo", |v: Value| Ok(json!({"echo": v})));
        let up_listener = AsyncServer::listen("127.0.0.1:0").await.unwrap();
        let up_addr = up_listener.local_addr().unwrap();
        let upstream = tokio::spawn(async move {
            let _ = AsyncServer::new(router).serve(up_listener).await;
        });
        // the proxy: accepts one WebSocket connection and forwards over a real AsyncClient
        let listener = TcpListener::bind("127.0.0.1:0").await.unwrap();
        let addr = listener.local_addr().unwrap();
        let limits = WebSocketLimits::default().with_assumed_peer_frame_limit(limit);
        let proxy = tokio::spawn(async move {
            let Ok((stream, _)) = listener.accept().await else { return };
            let Ok(ws) = WebSocketServer::accept_with_limits(stream, "/repe", limits).await else { return };
            let Ok(client) = AsyncClient::connect(up_addr).await else { return };
            let _ = proxy_connection_with_limits(ws, client, limits).await;
        });
        let Ok(ws) = raw_connect(addr, "/repe").await else {
            case.harness_error("handshake failed");
            return;
        };
        let (mut sink, stream) = ws.split();
        let inbox = Arc::new(Inbox::default());
        let collector = spawn_collector(stream, inbox.clone());
        let mut id = 0u64;
        for (k, size) in sizes.iter().enumerate() {
            id += 1;
            if kinds[k] != 0 {
                // an upstream *error* reply of about that size
                let (q, body): (Vec<u8>, Vec<u8>) = if kinds[k] == 1 {
                    (b"/fails".to_vec(), serde_json::to_vec(&json!({"n": size.saturating_sub(48 + "/fails".len())})).unwrap())
                } else {
                    (format!("/nope/{}", "p".repeat(size.saturating_sub(48 + 24) / 2)).into_bytes(), b"null".to_vec())
                };
                let _ = send_frame(&mut sink, &Frame::new(id, &q, &body).with_formats(1, 2)).await;
                let want = id;
                if !wait_until(60_000, || !inbox.responses_for(want).is_empty() || inbox.ended()).await || inbox.responses_for(id).len() != 1 {
                    case.fail("connection-lost", format!("op {k} (forwarded error reply of about {size} B, limit {limit:?}): {} responses, ended={}", inbox.responses_for(id).len(), inbox.ended()));
                    break;
                }
                let r = &inbox.responses_for(id)[0];
                let got = 48 + r.query.len() + r.body.len();
                case.check(r.ec != 0, "response-altered", || format!("an upstream error reply arrived as ec=0 ({got} B)"));
                if let Some(l) = limit {
                    case.check(got <= l, "message-over-limit", || format!("the proxy forwarded an error reply of {got} B (ec={}), assumed peer frame limit {l}", r.ec));
                }
                if kinds[k] == 1 {
                    if limit.is_some_and(|l| *size > l) {
                        case.probe("oversized_error_reply_replaced");
                        case.check(r.ec == ErrorCode::InternalError as u32, "oversized-response-not-replaced", || format!("forwarded error reply of {size} B over limit {limit:?} arrived as ec={} with {} body bytes", r.ec, r.body.len()));
                    } else {
                        case.check(r.ec == ErrorCode::ApplicationErrorBase as u32 && r.body.len() == size - 48 - "/fails".len() && r.body.iter().all(|b| *b == b'e'), "response-altered", || {
                            format!("forwarded error reply of {size} B within limit {limit:?} arrived as ec={} body {} B", r.ec, r.body.len())
                        });
                    }
                }
                continue;
            }
            let n = size - 48 - "/sized".len();
            let body = serde_json::to_vec(&json!({"n": n})).unwrap();
            let _ = send_frame(&mut sink, &Frame::new(id, b"/sized", &body).with_formats(1, 2)).await;
            let want = id;
            if !wait_until(60_000, || !inbox.responses_for(want).is_empty() || inbox.ended()).await || inbox.responses_for(id).len() != 1 {
                case.fail("connection-lost", format!("op {k} (forwarded response {size} B, limit {limit:?}): {} responses, ended={}", inbox.responses_for(id).len(), inbox.ended()));
                break;
            }
            let r = &inbox.responses_for(id)[0];
            if limit.is_some_and(|l| *size > l) {
                case.probe("oversized_response_replaced");
                case.check(r.ec == ErrorCode::InternalError as u32, "oversized-response-not-replaced", || format!("forwarded response of {size} B over limit {limit:?} arrived as ec={} with {} body bytes", r.ec, r.body.len()));
            } else {
                case.check(r.ec == 0 && r.query == b"/sized" && r.body.len() == n && is_pattern(id, &r.body), "response-altered", || format!("forwarded response of {size} B within limit {limit:?} arrived as ec={} body {} B", r.ec, r.body.len()));
            }
        }
        if let Some(l) = limit {
            let m = inbox.max_binary.load(Ordering::SeqCst);
            case.check(m <= l, "message-over-limit", || format!("the proxy sent a binary message of {m} bytes, assumed peer frame limit {l}"));
        }
        id += 1;
        let _ = send_frame(&mut sink, &Frame::new(id, b"/echo", b"{\"fin\":1}").with_formats(1, 2)).await;
        let want = id;
        if !case.failed() && !wait_until(60_000, || !inbox.responses_for(want).is_empty()).await {
            case.fail("connection-lost", format!("follow-up call through the proxy got no reply (ended={})", inbox.ended()));
        }
        check_inbox_clean(&case, "proxy", &inbox);
        case.nontrivial();
        let _ = tokio::time::timeout(Duration::from_secs(2), sink.close()).await;
        let _ = tokio::time::timeout(Duration::from_secs(2), collector).await;
        let _ = tokio::time::timeout(Duration::from_secs(2), proxy).await;
        upstream.abort();
        let _ = upstream.await;
    });
}

fn c17_ws_client(case: &Case) {
    net::reset(roomy_net());
    let limit = draw_limit();
    let n_ops = range(1, 6) as usize;
    let ops: Vec<(bool, usize)> = (0..n_ops).map(|_| (simkernel::choose(3) == 0, draw_size(limit, 48 + "/c/00".len()))).collect();
    case.sample(json!({"assumed_peer_frame_limit": limit, "ops": ops.iter().map(|(n, s)| format!("{}:{s}", if *n {"notify"} else {"call"})).collect::<Vec<_>>()}));
    let case = case.clone();
    aio::run(&case.clone(), 3_600, async move {
        // recording raw server: echoes requests (empty body), remembers every binary message
        let listener = TcpListener::bind("127.0.0.1:0").await.unwrap();
        let addr = listener.local_addr().unwrap();
        let seen: Arc<std::sync::Mutex<Vec<Frame>>> = Default::default();
        let max_seen = Arc::new(AtomicU64::new(0));
        let (seen2, max2) = (seen.clone(), max_seen.clone());
        let server = tokio::spawn(async move {
            let Ok((stream, _)) = listener.accept().await else { return };
            let Ok(ws) = tokio_tungstenite::accept_async_with_config(stream, Some(unlimited_config())).await else { return };
            let (mut sink, mut stream) = ws.split();
            while let Some(Ok(m)) = stream.next().await {
                if let WsMessage::Binary(b) = m {
                    max2.fetch_max(b.len() as u64, Ordering::SeqCst);
                    if b.len() >= 48 {
                        let mut f = Frame::parse_header(&b);
                        if f.header_consistent() && f.length as usize == b.len() {
                            let q = f.query_length as usize;
                            f.query = b[48..48 + q].to_vec();
                            f.body = b[48 + q..].to_vec();
                            let reply = Frame::new(f.id, &f.query, b"");
                            let notify = f.notify != 0;
                            seen2.lock().unwrap().push(f);
                            if !notify && sink.send(WsMessage::Binary(reply.encode())).await.is_err() {
                                return;
                            }
                        }
                    }
                }
            }
        });
        // the client's *inbound* limits are their own knob (replies here are ~55 bytes)
        let limits = match simkernel::choose(4) {
            0 => WebSocketLimits::default(),
            1 => WebSocketLimits::default().with_max_incoming_frame_size(None).with_max_incoming_message_size(None),
            2 => WebSocketLimits::default().with_max_incoming_frame_size(Some(1024)).with_max_incoming_message_size(Some(1024)),
            _ => WebSocketLimits::default().with_max_incoming_frame_size(Some(4096)),
        }
        .with_assumed_peer_frame_limit(limit);
        case.cover("client_inbound_limits", format!("{:?}/{:?}", limits.max_incoming_frame_size, limits.max_incoming_message_size));
        let client = match WebSocketClient::connect_with_limits(&format!("ws://{addr}/repe"), limits).await {
            Ok(c) => c,
            Err(e) => {
                case.harness_error(format!("client connect failed: {e}"));
                return;
            }
        };
        for (k, (notify, size)) in ops.iter().enumerate() {
            let path = format!("/c/{k:02}");
            let n = size - 48 - path.len();
            let body = pattern(k as u64 + 1, n);
            let over = limit.is_some_and(|l| *size > l);
            let r = if *notify {
                client.notify_with_formats(&path, 1, Some(&body), 0).await
            } else {
                client.call_with_formats_and_timeout(&path, 1, Some(&body), 0, Duration::from_secs(120)).await.map(|_| ())
            };
            if !over {
                let (seen3, p3) = (seen.clone(), path.clone());
                wait_until(60_000, || seen3.lock().unwrap().iter().any(|f| f.query == p3.as_bytes())).await;
            }
            sleep_ms(3).await;
            let on_wire = seen.lock().unwrap().iter().filter(|f| f.query == path.as_bytes()).cloned().collect::<Vec<_>>();
            if over {
                case.probe("oversized_client_message_refused");
                case.check(matches!(r, Err(RepeError::MessageTooLarge { .. })), "oversized-send-not-refused", || format!("{} of {size} B over limit {limit:?} returned {r:?}", if *notify { "notify" } else { "call" }));
                case.check(on_wire.is_empty(), "oversized-message-sent", || format!("{} of {size} B over limit {limit:?} reached the wire", if *notify { "notify" } else { "call" }));
            } else {
                case.check(r.is_ok(), "send-within-limit-failed", || format!("{} of {size} B within limit {limit:?} failed: {r:?}", if *notify { "notify" } else { "call" }));
                case.check(on_wire.len() == 1 && on_wire[0].body == body && (on_wire[0].notify != 0) == *notify, "message-altered", || {
                    format!("{} of {size} B within limit {limit:?}: {} matching messages on the wire", if *notify { "notify" } else { "call" }, on_wire.len())
                });
            }
        }
        if let Some(l) = limit {
            let m = max_seen.load(Ordering::SeqCst) as usize;
            case.check(m <= l, "message-over-limit", || format!("the client sent a binary message of {m} bytes, assumed peer frame limit {l}"));
        }
        let fin = client.call_with_formats_and_timeout("/c/fin", 1, Some(b"x"), 0, Duration::from_secs(5)).await;
        case.check(fin.is_ok(), "connection-lost", || format!("follow-up call failed: {fin:?}"));
        case.check(client.verif_pending_len() == 0, "pending-residue", || format!("{} pending entries left after refused / completed sends", client.verif_pending_len()));
        case.nontrivial();
        drop(client);
        let _ = tokio::time::timeout(Duration::from_secs(2), server).await;
    });
}
