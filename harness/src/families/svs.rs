//! C09 / C10 (blocking half): real SVS producers on the real `Server`, real pullers on the
//! real `Client`, simulated threads/channels/sockets, real files in a private directory
//! with commit-path probes. Process kill = the puller thread frozen at a scheduling point.

use crate::codec::{Frame, read_frame, write_all_retry};
use crate::families::client_blocking::draw_net;
use crate::framework::{Case, Family, bytes, coin, pick, range};
use repe::constants::BodyFormat;
use repe::server::Router;
use repe::value_stream::{Compression, RouterValueStreamExt, StreamOpts};
use repe::{Client, Complex, Server};
use serde::{Deserialize, Serialize};
use serde_json::json;
use simkernel::fsprobe::{FsEvent, take_fs_events};
use simkernel::net::{self, TcpListener, TcpStream};
use simkernel::sync::Arc;
use simkernel::thread;
use simkernel::time::Duration;
use std::io::{self, ErrorKind, Read, Write};
use std::path::{Path, PathBuf};

pub fn families() -> Vec<Family> {
    vec![
        Family::new(
            "c09_raw",
            "C09",
            "raw /_svs/open,next,cancel exchanges against every producer kind on the real Server: chunk concatenation, single final marker, errors past the end / after cancel / on producer failure",
            c09_raw,
        )
        .runs(10_000, 600_000)
        .steps(800_000),
        Family::new(
            "c09_pull",
            "C09",
            "pull_to_vec / pull_value / pull_typed_slice / pull_complex_slice / pull_consume over the real Client reproduce the producer's value exactly",
            c09_pull,
        )
        .runs(10_000, 600_000)
        .steps(800_000),
        Family::new(
            "c10_file",
            "C10",
            "pull_to_file / _beve_file / _beve_zst_file / _trailer_verified with producer failure, scripted truncation/cut, rejecting verifier, rename failure and a kill at every scheduling point of the puller",
            c10_file,
        )
        .runs(6_000, 360_000)
        .steps(800_000),
    ]
}

// ------------------------------------------------------------------ producers

#[derive(Clone, Debug, Serialize, Deserialize, PartialEq)]
pub struct Record {
    pub name: String,
    pub values: Vec<u32>,
    pub blob: Vec<u8>,
}

#[derive(Clone, Debug)]
pub enum Payload {
    Value(Record),
    Typed(Vec<f64>),
    Complex(Vec<Complex<f32>>),
    /// opaque bytes through a Read producer (with optional failure after `fail_at` bytes)
    Reader(Vec<u8>, Option<usize>),
    /// opaque bytes through a Write-closure producer
    Writer(Vec<u8>, Option<usize>),
}

impl Payload {
    /// the producer's logical byte stream (before compression)
    pub fn logical(&self) -> Vec<u8> {
        match self {
            Payload::Value(r) => beve::to_vec(r).unwrap(),
            Payload::Typed(v) => beve::to_vec_typed_slice(v),
            Payload::Complex(v) => beve::to_vec_complex_slice(v),
            Payload::Reader(b, _) | Payload::Writer(b, _) => b.clone(),
        }
    }
    pub fn fails(&self) -> bool {
        matches!(self, Payload::Reader(_, Some(_)) | Payload::Writer(_, Some(_)))
    }
    pub fn kind(&self) -> &'static str {
        match self {
            Payload::Value(_) => "value",
            Payload::Typed(_) => "typed",
            Payload::Complex(_) => "complex",
            Payload::Reader(..) => "reader",
            Payload::Writer(..) => "writer",
        }
    }
}

struct SlowReader {
    data: Vec<u8>,
    pos: usize,
    fail_at: Option<usize>,
    step: usize,
    sleep_us: u64,
    /// the failure is a panic inside the producer instead of an `Err`
    panics: bool,
    /// stop for that many seconds once `pos` has reached the offset
    stall: Option<(usize, u64)>,
}
impl Read for SlowReader {
    fn read(&mut self, buf: &mut [u8]) -> io::Result<usize> {
        if self.sleep_us > 0 {
            thread::sleep(Duration::from_micros(self.sleep_us));
        }
        if let Some((at, secs)) = self.stall
            && self.pos >= at
        {
            self.stall = None;
            simkernel::count("probe.producer_stalled_for_seconds");
            thread::sleep(Duration::from_secs(secs));
        }
        if let Some(f) = self.fail_at
            && self.pos >= f
        {
            simkernel::count("fault.producer_failure");
            if self.panics {
                simkernel::count("fault.producer_panic");
                std::panic::panic_any(simkernel::ExpectedPanic("producer source panics on purpose"));
            }
            return Err(io::Error::other("producer source failed"));
        }
        let end = self.fail_at.unwrap_or(self.data.len()).min(self.data.len());
        let n = buf.len().min(end - self.pos).min(self.step);
        buf[..n].copy_from_slice(&self.data[self.pos..self.pos + n]);
        self.pos += n;
        Ok(n)
    }
}

pub fn draw_opts(chunk_hint: usize) -> StreamOpts {
    StreamOpts {
        chunk_bytes: chunk_hint,
        compression: if simkernel::choose(3) == 0 { Compression::Zstd } else { Compression::None },
        zstd_level: 1,
        session_depth: simkernel::choose(9) as usize,
    }
}

/// Register the producer for `payload` (resource name "res") on a fresh router.
pub fn router_for(payload: &Payload, opts: StreamOpts) -> Router {
    router_for_stall(payload, opts, false)
}

/// `may_stall`: a reader / writer producer sometimes stops for 3 to 12 simulated seconds,
/// once, somewhere in mid-stream (longer than any keep-alive or retry period one might put
/// on a `next`).
pub fn router_for_stall(payload: &Payload, opts: StreamOpts, may_stall: bool) -> Router {
    router_for_stall_p(payload, opts, if may_stall { 6 } else { 0 })
}

/// `one_in`: 0 = never stall; otherwise one run in `one_in` stalls once for 3, 5, 8 or 12 s.
pub fn router_for_stall_p(payload: &Payload, opts: StreamOpts, one_in: u32) -> Router {
    let total = payload.logical().len();
    let stall: Option<(usize, u64)> = if one_in > 0 && total > 0 && simkernel::choose(one_in) == 0 { Some((simkernel::choose(total as u32) as usize, pick(&[3u64, 5, 8, 12]))) } else { None };
    let step = pick(&[1usize, 3, 64, 4096]);
    let sleep_us = pick(&[0u64, 0, 50, 1_000]);
    let panics = simkernel::choose(3) == 0;
    // a slow source is slow per read: keep the whole stream within a few simulated seconds
    let reads = payload.logical().len() / step.max(1);
    let sleep_us = if reads as u64 * sleep_us > 5_000_000 { 0 } else { sleep_us };
    let r = Router::new();
    match payload.clone() {
        Payload::Value(rec) => r.with_value_stream(move |res| if res == "res" { Some(rec.clone()) } else { None }, opts),
        Payload::Typed(v) => r.with_typed_value_stream(move |res| if res == "res" { Some(v.clone()) } else { None }, opts),
        Payload::Complex(v) => r.with_complex_value_stream(move |res| if res == "res" { Some(v.clone()) } else { None }, opts),
        Payload::Reader(data, fail_at) => r.with_reader_stream(
            move |res| if res == "res" { Some(SlowReader { data: data.clone(), pos: 0, fail_at, step, sleep_us, panics, stall }) } else { None },
            opts,
        ),
        Payload::Writer(data, fail_at) => r.with_writer_stream(
            BodyFormat::RawBinary,
            move |res| {
                if res != "res" {
                    return None;
                }
                let data = data.clone();
                Some(move |w: &mut dyn Write| -> io::Result<()> {
                    let end = fail_at.unwrap_or(data.len());
                    let mut pos = 0;
                    let mut stall = stall;
                    while pos < end {
                        if let Some((at, secs)) = stall
                            && pos >= at
                        {
                            stall = None;
                            simkernel::count("probe.producer_stalled_for_seconds");
                            thread::sleep(Duration::from_secs(secs));
                        }
                        let n = step.min(end - pos);
                        w.write_all(&data[pos..pos + n])?;
                        pos += n;
                        if sleep_us > 0 {
                            thread::sleep(Duration::from_micros(sleep_us));
                        }
                    }
                    if fail_at.is_some() {
                        simkernel::count("fault.producer_failure");
                        if panics {
                            simkernel::count("fault.producer_panic");
                            std::panic::panic_any(simkernel::ExpectedPanic("producer closure panics on purpose"));
                        }
                        return Err(io::Error::other("producer closure failed"));
                    }
                    Ok(())
                })
            },
            opts,
        ),
    }
}

/// Payload whose logical length sits on a chunk boundary residue.
pub fn draw_payload(chunk: usize, allow_failure: bool) -> Payload {
    let k = range(0, 4) as usize;
    let len = match simkernel::choose(7) {
        0 => 0,
        1 => (k * chunk).saturating_sub(1),
        2 => k * chunk,
        3 => k * chunk + 1,
        // many chunks (more than any internal queue holds)
        4 | 5 => (range(5, 40) as usize * chunk + pick(&[0usize, 0, 1]) * (chunk / 2)).saturating_sub(pick(&[0usize, 1])),
        _ => range(0, 3 * chunk as u32 + 5) as usize,
    }
    .min(64 * 1024);
    match simkernel::choose(7) {
        0 => Payload::Value(Record { name: format!("n{len}"), values: (0..(len / 4) as u32).collect(), blob: bytes(len % 97) }),
        1 => Payload::Typed((0..len / 8).map(|i| i as f64 * 0.5 - 3.0).collect()),
        2 => Payload::Complex((0..len / 8).map(|i| Complex { re: i as f32, im: -(i as f32) }).collect()),
        3 | 4 => {
            let data = bytes(len);
            let fail = if allow_failure && simkernel::choose(3) == 0 { Some(fail_point(len, chunk)) } else { None };
            Payload::Reader(data, fail)
        }
        _ => {
            let data = bytes(len);
            let fail = if allow_failure && simkernel::choose(3) == 0 { Some(fail_point(len, chunk)) } else { None };
            Payload::Writer(data, fail)
        }
    }
}

pub fn fail_point(len: usize, chunk: usize) -> usize {
    // after every chunk boundary +-1 byte, or anywhere
    let n_chunks = (len / chunk.max(1)) as u32;
    let k = range(0, n_chunks.max(3)) as usize * chunk;
    let p = match simkernel::choose(4) {
        0 => k.saturating_sub(1),
        1 => k,
        2 => k + 1,
        _ => simkernel::choose(len as u32 + 1) as usize,
    };
    p.min(len)
}

pub fn start_server(router: Router) -> (std::net::SocketAddr, thread::JoinHandle<()>) {
    let listener = TcpListener::bind("127.0.0.1:0").unwrap();
    let addr = listener.local_addr().unwrap();
    let h = thread::spawn(move || {
        let _ = Server::new(router).serve(listener);
    });
    (addr, h)
}

// ------------------------------------------------------------------ raw SVS protocol (harness side)

#[derive(Serialize, Deserialize)]
pub struct OpenReq {
    pub resource: String,
}
#[derive(Serialize, Deserialize, Debug)]
pub struct OpenResp {
    pub version: u8,
    pub stream_id: u64,
    pub format: u16,
    pub compression: u8,
}
#[derive(Serialize, Deserialize)]
pub struct NextReq {
    pub stream_id: u64,
}
#[derive(Serialize, Deserialize)]
pub struct CancelReq {
    pub stream_id: u64,
    pub reason: String,
}

fn raw_call(s: &mut TcpStream, id: u64, path: &str, body: Vec<u8>) -> io::Result<Frame> {
    let f = Frame::new(id, path.as_bytes(), &body).with_formats(1, 1);
    write_all_retry(s, &f.encode())?;
    match read_frame(s)? {
        Some(r) => Ok(r),
        None => Err(io::Error::new(ErrorKind::UnexpectedEof, "server closed")),
    }
}

pub fn unzstd(data: &[u8]) -> Option<Vec<u8>> {
    zstd::stream::decode_all(data).ok()
}

fn c09_raw(case: &Case) {
    net::reset(draw_net());
    let chunk = pick(&[1usize, 2, 7, 16, 64, 1000]);
    let opts = draw_opts(chunk);
    let payload = draw_payload(chunk, true);
    let logical = payload.logical();
    case.sample(json!({"producer": payload.kind(), "logical_len": logical.len(), "chunk_bytes": chunk, "depth": opts.session_depth,
        "compression": format!("{:?}", opts.compression), "producer_fails": payload.fails()}));
    let (addr, server) = start_server(router_for_stall(&payload, opts, true));
    let Ok(mut s) = TcpStream::connect(addr) else {
        case.harness_error("connect");
        return;
    };
    s.set_read_timeout(Some(Duration::from_secs(600))).ok();
    let mut id = 1u64;
    let mut call = |s: &mut TcpStream, path: &str, body: Vec<u8>| -> Option<Frame> {
        id += 1;
        raw_call(s, id, path, body).ok()
    };
    // unknown resource
    if simkernel::choose(4) == 0 {
        let Some(r) = call(&mut s, "/_svs/open", beve::to_vec(&OpenReq { resource: "nope".into() }).unwrap()) else { return };
        case.check(r.ec != 0, "open-unknown-resource-ok", || "open of an unknown resource succeeded".into());
    }
    let Some(open) = call(&mut s, "/_svs/open", beve::to_vec(&OpenReq { resource: "res".into() }).unwrap()) else {
        case.fail("svs-open-failed", "no reply to open");
        return;
    };
    if !case.check(open.ec == 0, "svs-open-failed", || format!("open returned ec {}", open.ec)) {
        return;
    }
    let Ok(info) = beve::from_slice::<OpenResp>(&open.body) else {
        case.fail("svs-open-failed", "open response does not decode");
        return;
    };
    let zstd_on = opts.compression == Compression::Zstd;
    case.check(info.compression == zstd_on as u8, "svs-open-tags", || format!("open reported compression {} for {:?}", info.compression, opts.compression));
    // sometimes: a cancel from a second connection lands while a `next` of this stream is parked
    if !payload.fails() && logical.len() >= 4 * chunk && simkernel::choose(6) == 0 {
        let sid = info.stream_id;
        let mut s_next = s.try_clone().unwrap();
        let parked = thread::spawn(move || raw_call(&mut s_next, 5_000, "/_svs/next", beve::to_vec(&NextReq { stream_id: sid }).unwrap()).ok());
        thread::sleep(Duration::from_micros(pick(&[0u64, 50, 500, 3_000])));
        if let Ok(mut s2) = TcpStream::connect(addr) {
            s2.set_read_timeout(Some(Duration::from_secs(600))).ok();
            let ack = raw_call(&mut s2, 6_000, "/_svs/cancel", beve::to_vec(&CancelReq { stream_id: sid, reason: "from another connection".into() }).unwrap());
            let first = parked.join().ok().flatten();
            if let Ok(a) = ack
                && a.ec == 0
            {
                case.probe("cancel_overlapped_a_parked_next");
                let _ = first;
                // the stream was released: whatever the overlapped `next` returned, later ones fail
                let r2 = raw_call(&mut s2, 6_001, "/_svs/next", beve::to_vec(&NextReq { stream_id: sid }).unwrap());
                if let Ok(r2) = r2 {
                    case.check(r2.ec != 0, "next-after-cancel-ok", || format!("a cancel acknowledged while a next was in flight was undone: a later next returned a chunk of {} bytes", r2.body.len()));
                }
                let r3 = raw_call(&mut s, 5_001, "/_svs/next", beve::to_vec(&NextReq { stream_id: sid }).unwrap());
                if let Ok(r3) = r3 {
                    case.check(r3.ec != 0, "next-after-cancel-ok", || format!("a cancel acknowledged while a next was in flight was undone: a later next (original connection) returned {} bytes", r3.body.len()));
                }
            }
        } else {
            parked.join().ok();
        }
        case.nontrivial();
        drop(s);
        net::shutdown_all();
        server.join().ok();
        return;
    }
    // optional early cancel
    let cancel_after = if simkernel::choose(5) == 0 { Some(range(0, 3)) } else { None };
    let mut chunks: Vec<Vec<u8>> = Vec::new();
    let mut lasts = 0u32;
    let mut errored = false;
    let mut pulls = 0u32;
    loop {
        if cancel_after == Some(pulls) {
            let as_notify = simkernel::choose(2) == 0;
            let body = beve::to_vec(&CancelReq { stream_id: info.stream_id, reason: "test".into() }).unwrap();
            if as_notify {
                let f = Frame::new(9_000, b"/_svs/cancel", &body).with_formats(1, 1).notify(1);
                let _ = write_all_retry(&mut s, &f.encode());
            } else {
                let Some(r) = call(&mut s, "/_svs/cancel", body) else { return };
                case.check(r.ec == 0, "cancel-failed", || format!("cancel returned ec {}", r.ec));
            }
            case.probe("cancelled_early");
            // pulling after release is an error
            let Some(r) = call(&mut s, "/_svs/next", beve::to_vec(&NextReq { stream_id: info.stream_id }).unwrap()) else { return };
            case.check(r.ec != 0, "next-after-cancel-ok", || format!("next after cancel returned a chunk of {} bytes", r.body.len()));
            break;
        }
        let Some(r) = call(&mut s, "/_svs/next", beve::to_vec(&NextReq { stream_id: info.stream_id }).unwrap()) else {
            case.fail("svs-next-failed", "connection lost during next");
            return;
        };
        pulls += 1;
        if r.ec != 0 {
            errored = true;
            break;
        }
        let last = r.query.first().copied() == Some(1);
        case.check(r.query.len() == 1 && r.query[0] <= 1, "last-flag-encoding", || format!("next response query {:?}", r.query));
        chunks.push(r.body.clone());
        if last {
            lasts += 1;
            break;
        }
        if pulls > 200_000 {
            case.fail("svs-endless", "more than 200000 chunks");
            return;
        }
    }
    if cancel_after.is_none() || lasts > 0 || errored {
        let concat: Vec<u8> = chunks.concat();
        if payload.fails() {
            // a producer failure surfaces as an error, never as an end marker
            if !case.check(errored && lasts == 0, "producer-failure-looks-clean", || format!("producer failed but the stream ended with last={lasts} errored={errored} after {} bytes", concat.len())) {
                return;
            }
            // what was delivered before the error is a prefix of what the producer emitted
            if !zstd_on {
                case.check(logical.starts_with(&concat), "corrupt-prefix", || "chunks before the failure are not a prefix of the producer's bytes".into());
            }
        } else if cancel_after.is_none() {
            if !case.check(!errored && lasts == 1, "missing-final-marker", || format!("stream ended with errored={errored} lasts={lasts}")) {
                return;
            }
            let got = if zstd_on { unzstd(&concat) } else { Some(concat.clone()) };
            if !case.check(got.as_deref() == Some(&logical[..]), "stream-bytes-differ", || {
                format!("pulled {} bytes in {} chunks, producer emitted {} logical bytes ({:?})", concat.len(), chunks.len(), logical.len(), opts.compression)
            }) {
                return;
            }
            if logical.is_empty() && !zstd_on {
                case.check(chunks.len() == 1 && chunks[0].is_empty(), "empty-payload-shape", || format!("empty payload produced {} chunks", chunks.len()));
            }
            if chunks.len() >= 2 {
                case.probe("multi_chunk_stream");
            }
        }
        // pulling past the end is an error
        let Some(r) = call(&mut s, "/_svs/next", beve::to_vec(&NextReq { stream_id: info.stream_id }).unwrap()) else { return };
        case.check(r.ec != 0, "next-past-end-ok", || format!("next past the end returned ec 0 with {} bytes", r.body.len()));
    }
    // a later stream on the same router: the spent id stays spent, the new stream is whole
    if !payload.fails() && simkernel::choose(2) == 0 {
        let old_id = info.stream_id;
        if let Some(open2) = call(&mut s, "/_svs/open", beve::to_vec(&OpenReq { resource: "res".into() }).unwrap())
            && open2.ec == 0
            && let Ok(info2) = beve::from_slice::<OpenResp>(&open2.body)
        {
            case.check(info2.stream_id != old_id, "stream-id-reused", || format!("a new stream got the id {old_id} of a stream that was released a moment ago"));
            let mut got: Vec<u8> = Vec::new();
            let mut n = 0;
            loop {
                // interleave pulls on the spent id: always an error, never a chunk of the new stream
                if n == 1 || simkernel::choose(4) == 0 {
                    let Some(r) = call(&mut s, "/_svs/next", beve::to_vec(&NextReq { stream_id: old_id }).unwrap()) else { return };
                    if !case.check(r.ec != 0 || info2.stream_id == old_id, "next-on-spent-stream-ok", || format!("next on the spent stream {old_id} returned {} bytes after a newer stream was opened", r.body.len())) {
                        break;
                    }
                }
                let Some(r) = call(&mut s, "/_svs/next", beve::to_vec(&NextReq { stream_id: info2.stream_id }).unwrap()) else { return };
                n += 1;
                if !case.check(r.ec == 0, "second-stream-failed", || format!("the second stream failed at chunk {n}: {}", String::from_utf8_lossy(&r.body))) {
                    break;
                }
                got.extend_from_slice(&r.body);
                if r.query.first().copied() == Some(1) {
                    let whole = if zstd_on { unzstd(&got) } else { Some(got.clone()) };
                    case.check(whole.as_deref() == Some(&logical[..]), "stream-bytes-differ", || format!("second stream delivered {} bytes, producer emitted {}", got.len(), logical.len()));
                    case.probe("second_stream_after_first");
                    break;
                }
                if n > 200_000 {
                    break;
                }
            }
        }
    }
    case.nontrivial();
    drop(s);
    net::shutdown_all();
    server.join().ok();
}

fn c09_pull(case: &Case) {
    net::reset(draw_net());
    let chunk = pick(&[1usize, 3, 16, 64, 1000]);
    let opts = draw_opts(chunk);
    let payload = draw_payload(chunk, true);
    let logical = payload.logical();
    let api = simkernel::choose(3);
    case.sample(json!({"producer": payload.kind(), "logical_len": logical.len(), "chunk_bytes": chunk, "depth": opts.session_depth,
        "compression": format!("{:?}", opts.compression), "producer_fails": payload.fails(), "api": api}));
    let (addr, server) = start_server(router_for_stall(&payload, opts, true));
    let Ok(client) = Client::connect(addr) else {
        case.harness_error("connect");
        return;
    };
    // sometimes the connection dies in mid-transfer (reset, or the server side closes): the
    // pull may fail, but it may never return fewer bytes than the producer emitted as a success
    let conn_loss = if simkernel::choose(4) == 0 { Some((pick(&[20u64, 300, 2_000, 20_000, 200_000]), coin())) } else { None };
    let killer = conn_loss.map(|(after_us, by_reset)| {
        let conn = net::connections().last().cloned();
        thread::spawn(move || {
            thread::sleep(Duration::from_micros(after_us));
            if let Some(c) = conn {
                simkernel::count("fault.connection_lost_during_pull");
                if by_reset { net::reset_conn(&c) } else { net::close_side(&c, net::Side::B) }
            }
        })
    });
    let fails = payload.fails() || conn_loss.is_some();
    let lossy = conn_loss.is_some();
    match (&payload, api) {
        (Payload::Value(rec), 0 | 1) => {
            let r = repe::pull_value::<Record>(&client, "res");
            case.check(matches!(&r, Ok(v) if v == rec) || (lossy && r.is_err()), "pulled-value-differs", || format!("pull_value returned {:?}", r.as_ref().map(|v| v.name.clone()).map_err(|e| e.to_string())));
        }
        (Payload::Typed(v), 0 | 1) => {
            let r = repe::pull_typed_slice::<f64>(&client, "res");
            case.check(matches!(&r, Ok(g) if g.iter().map(|x| x.to_bits()).eq(v.iter().map(|x| x.to_bits()))) || (lossy && r.is_err()), "pulled-value-differs", || format!("pull_typed_slice returned {:?}", r.as_ref().map(|g| g.len()).map_err(|e| e.to_string())));
        }
        (Payload::Complex(v), 0 | 1) => {
            let r = repe::pull_complex_slice::<f32>(&client, "res");
            case.check(
                matches!(&r, Ok(g) if g.len() == v.len() && g.iter().zip(v.iter()).all(|(a, b)| a.re.to_bits() == b.re.to_bits() && a.im.to_bits() == b.im.to_bits())) || (lossy && r.is_err()),
                "pulled-value-differs",
                || format!("pull_complex_slice returned {:?}", r.as_ref().map(|g| g.len()).map_err(|e| e.to_string())),
            );
        }
        (_, 2) => {
            let r = repe::pull_consume(&client, "res", |rd| {
                let mut v = Vec::new();
                let mut buf = [0u8; 37];
                loop {
                    let n = rd.read(&mut buf)?;
                    if n == 0 {
                        break;
                    }
                    v.extend_from_slice(&buf[..n]);
                }
                Ok(v)
            });
            if payload.fails() {
                case.check(r.is_err(), "truncated-stream-accepted", || format!("pull_consume returned Ok({} bytes) although the producer failed", r.as_ref().map(|v| v.len()).unwrap_or(0)));
            } else if lossy {
                case.check(!matches!(&r, Ok(v) if *v != logical), "truncated-stream-accepted", || format!("the connection was lost in mid-transfer and pull_consume returned Ok({} bytes) of {}", r.as_ref().map(|v| v.len()).unwrap_or(0), logical.len()));
            } else {
                case.check(matches!(&r, Ok(v) if *v == logical), "pulled-bytes-differ", || format!("pull_consume returned {:?}, want {} bytes", r.as_ref().map(|v| v.len()).map_err(|e| e.to_string()), logical.len()));
            }
        }
        _ => {
            let r = repe::pull_to_vec(&client, "res");
            if payload.fails() {
                case.check(r.is_err(), "truncated-stream-accepted", || format!("pull_to_vec returned Ok({} bytes) although the producer failed", r.as_ref().map(|v| v.len()).unwrap_or(0)));
            } else if lossy {
                case.check(!matches!(&r, Ok(v) if *v != logical), "truncated-stream-accepted", || format!("the connection was lost in mid-transfer and pull_to_vec returned Ok({} bytes) of {}", r.as_ref().map(|v| v.len()).unwrap_or(0), logical.len()));
            } else {
                case.check(matches!(&r, Ok(v) if *v == logical), "pulled-bytes-differ", || format!("pull_to_vec returned {:?}, want {} bytes", r.as_ref().map(|v| v.len()).map_err(|e| e.to_string()), logical.len()));
            }
        }
    }
    if let Some(k) = killer {
        k.join().ok();
    }
    let _ = fails;
    // the client stays usable and nothing is left pending
    case.check(client.verif_pending_len() == 0, "pending-residue", || format!("{} pending after pull", client.verif_pending_len()));
    case.nontrivial();
    drop(client);
    net::shutdown_all();
    server.join().ok();
}

// =========================================================================== C10

pub fn private_dir() -> PathBuf {
    static N: std::sync::atomic::AtomicU64 = std::sync::atomic::AtomicU64::new(0);
    let n = N.fetch_add(1, std::sync::atomic::Ordering::SeqCst);
    let base = std::env::var("VERIF_TMP").unwrap_or_else(|_| "/dev/shm".to_string());
    let p = PathBuf::from(base).join(format!("simcheck.{}.{}", std::process::id(), n));
    let _ = std::fs::remove_dir_all(&p);
    std::fs::create_dir_all(&p).expect("private dir");
    p
}

/// Scripted SVS server: serves `chunks` and misbehaves after `fault_after` next-responses.
#[derive(Clone, Copy, Debug, PartialEq)]
enum Cut {
    None,
    Close,
    Reset,
    ErrorReply,
    /// claims success but never marks a chunk last and then closes
    CloseWithoutLast,
}

fn scripted_svs(listener: TcpListener, chunks: Vec<Vec<u8>>, compression: u8, format: u16, cut: Cut, fault_after: usize) {
    let Ok((mut s, _)) = listener.accept() else { return };
    s.set_read_timeout(Some(Duration::from_secs(5))).ok();
    let mut served = 0usize;
    loop {
        let req = match read_frame(&mut s) {
            Ok(Some(f)) => f,
            _ => return,
        };
        if req.notify != 0 {
            continue;
        }
        let path = req.query_str();
        if path == "/_svs/open" {
            let body = beve::to_vec(&OpenResp { version: 1, stream_id: 77, format, compression }).unwrap();
            let _ = write_all_retry(&mut s, &Frame::new(req.id, &req.query, &body).with_formats(1, 1).encode());
        } else if path == "/_svs/next" {
            if cut != Cut::None && served == fault_after {
                simkernel::count("fault.stream_cut");
                match cut {
                    Cut::Close | Cut::CloseWithoutLast => {
                        let _ = s.shutdown(net::Shutdown::Both);
                        return;
                    }
                    Cut::Reset => {
                        net::reset_conn(&s.conn());
                        return;
                    }
                    Cut::ErrorReply => {
                        let _ = write_all_retry(&mut s, &Frame::new(req.id, &req.query, b"boom").with_formats(1, 3).ec(9).encode());
                        continue;
                    }
                    Cut::None => {}
                }
            }
            let i = served.min(chunks.len().saturating_sub(1));
            let body = chunks.get(i).cloned().unwrap_or_default();
            let is_last = served + 1 >= chunks.len() && cut != Cut::CloseWithoutLast;
            let mut f = Frame::new(req.id, &[is_last as u8], &body);
            f.query_format = 0;
            f.body_format = 0;
            let _ = write_all_retry(&mut s, &f.encode());
            served += 1;
        } else {
            let _ = write_all_retry(&mut s, &Frame::new(req.id, &req.query, b"").encode());
        }
    }
}

#[derive(Clone, Copy, Debug, PartialEq)]
enum FileApi {
    Raw,
    BeveFile,
    BeveZst,
    Trailer,
}

pub fn dest_state(path: &Path) -> Option<Vec<u8>> {
    std::fs::read(path).ok()
}

fn c10_file(case: &Case) {
    net::reset(draw_net());
    let dir = private_dir();
    let dest = dir.join("out.bin");
    let temp = dir.join("out.bin.svspart");
    let chunk = pick(&[1usize, 4, 16, 64]);
    let api = pick(&[FileApi::Raw, FileApi::Raw, FileApi::BeveFile, FileApi::BeveZst, FileApi::Trailer]);
    // scenario
    let scen = simkernel::choose(10);
    let _ = take_fs_events();
    let preexisting: Option<Vec<u8>> = if simkernel::choose(2) == 0 { Some(b"PREVIOUS CONTENT".to_vec()) } else { None };
    if let Some(p) = &preexisting {
        std::fs::write(&dest, p).unwrap();
    }
    // a stale temp sibling, as an earlier killed pull would have left it (longer than most streams)
    let stale_temp = simkernel::choose(4) == 0;
    if stale_temp {
        std::fs::write(&temp, bytes(pick(&[1usize, 50, 400, 5_000]))).unwrap();
        simkernel::count("probe.stale_temp_sibling_present");
    }
    let trailer_len = pick(&[0usize, 1, 4, 9]);
    // what the producer streams, and what a successful pull must leave in the file
    let (payload, opts): (Payload, StreamOpts) = match api {
        FileApi::Raw | FileApi::Trailer => {
            let allow_fail = scen == 0 || scen == 1;
            let mut p = draw_payload(chunk, allow_fail);
            if !matches!(p, Payload::Reader(..) | Payload::Writer(..)) {
                p = Payload::Reader(bytes(range(0, 4 * chunk as u32 + 3) as usize), None);
            }
            if allow_fail && !p.fails() {
                if let Payload::Reader(d, _) = &p {
                    let f = fail_point(d.len(), chunk);
                    p = Payload::Reader(d.clone(), Some(f));
                } else if let Payload::Writer(d, _) = &p {
                    let f = fail_point(d.len(), chunk);
                    p = Payload::Writer(d.clone(), Some(f));
                }
            }
            (p, draw_opts(chunk))
        }
        FileApi::BeveFile | FileApi::BeveZst => {
            let p = if simkernel::choose(2) == 0 {
                Payload::Typed((0..range(0, 40)).map(|i| i as f64).collect())
            } else {
                Payload::Value(Record { name: "r".into(), values: (0..range(0, 30)).collect(), blob: bytes(range(0, 50) as usize) })
            };
            let mut o = draw_opts(chunk);
            o.compression = Compression::Zstd;
            (p, o)
        }
    };
    let logical = payload.logical();
    let producer_fails = payload.fails();
    // scripted server scenarios (cut after k-th response etc.) only for the raw API
    let scripted = api == FileApi::Raw && (2..=4).contains(&scen);
    let cut = if scripted { pick(&[Cut::Close, Cut::Reset, Cut::ErrorReply, Cut::CloseWithoutLast]) } else { Cut::None };
    let verifier_rejects = api == FileApi::Trailer && scen == 5;
    let trailer_too_long = api == FileApi::Trailer && scen == 6;
    let rename_fails = scen == 7 && !scripted;
    let crash = scen >= 8;
    let eff_trailer = if trailer_too_long { logical.len() + 1 + trailer_len } else { trailer_len.min(logical.len()) };
    if rename_fails {
        // make the destination a non-empty directory so rename() fails
        let _ = std::fs::remove_file(&dest);
        std::fs::create_dir_all(dest.join("occupied")).unwrap();
    }
    let expected_file: Vec<u8> = match api {
        FileApi::Raw | FileApi::BeveFile => logical.clone(),
        FileApi::Trailer => logical[..logical.len() - eff_trailer.min(logical.len())].to_vec(),
        FileApi::BeveZst => Vec::new(), // compared after decompression
    };
    let chunks_plain: Vec<Vec<u8>> = if logical.is_empty() { vec![Vec::new()] } else { logical.chunks(chunk).map(|c| c.to_vec()).collect() };
    let fault_after = simkernel::choose(chunks_plain.len() as u32 + 1) as usize;

    let (addr, server) = if scripted {
        let listener = TcpListener::bind("127.0.0.1:0").unwrap();
        let addr = listener.local_addr().unwrap();
        let ch = chunks_plain.clone();
        (addr, thread::spawn(move || scripted_svs(listener, ch, 0, 0, cut, fault_after)))
    } else {
        start_server(router_for(&payload, opts))
    };
    // dry-run count of the puller's scheduling points is not available across runs, so the
    // crash point is drawn from a generous range; a draw beyond the end simply never fires
    // half of the kills land exactly on a commit-path probe, the rest anywhere
    let crash_probe: Option<&'static str> = if crash && simkernel::choose(2) == 0 {
        Some(pick(&["created", "before_sync", "synced", "before_rename", "after_rename"]))
    } else {
        None
    };
    simkernel::fsprobe::crash_at_probe(crash_probe);
    let crash_at = if crash && crash_probe.is_none() { Some(1 + simkernel::choose(pick(&[20u32, 80, 300, 1200])) as u64) } else { None };
    case.sample(json!({"api": format!("{api:?}"), "producer": payload.kind(), "logical_len": logical.len(), "chunk": chunk, "compression": format!("{:?}", opts.compression),
        "preexisting_dest": preexisting.is_some(), "producer_fails": producer_fails, "scripted_cut": format!("{cut:?}"), "cut_after_responses": fault_after,
        "verifier_rejects": verifier_rejects, "trailer_len": eff_trailer, "rename_fails": rename_fails, "kill_at_scheduling_point": crash_at, "kill_at_probe": crash_probe}));

    let dest2 = dest.clone();
    let puller = thread::spawn(move || -> Result<(), String> {
        let client = Client::connect(addr).map_err(|e| format!("connect: {e}"))?;
        if let Some(n) = crash_at {
            simkernel::crash_self_after(n);
        }
        let r = match api {
            FileApi::Raw => repe::pull_to_file(&client, "res", &dest2),
            FileApi::BeveFile => repe::pull_to_beve_file(&client, "res", &dest2),
            FileApi::BeveZst => repe::pull_to_beve_zst_file(&client, "res", &dest2),
            FileApi::Trailer => repe::pull_to_file_trailer_verified(&client, "res", &dest2, eff_trailer, Vec::<u8>::new(), |digest: Vec<u8>, trailer: &[u8]| {
                if verifier_rejects {
                    simkernel::count("fault.verifier_rejects");
                    return Err(repe::RepeError::Io(io::Error::other("digest mismatch")));
                }
                let _ = (digest, trailer);
                Ok(())
            }),
        };
        simkernel::crash_disarm();
        r.map_err(|e| e.to_string())
    });
    let outcome = puller.join_or_crashed();
    simkernel::fsprobe::crash_at_probe(None);
    let events: Vec<FsEvent> = take_fs_events();
    // ---- the oracle
    let now_dest = if rename_fails { None } else { dest_state(&dest) };
    let old = preexisting.clone();
    let is_complete = |d: &Option<Vec<u8>>| -> bool {
        match (api, d) {
            (FileApi::BeveZst, Some(b)) => unzstd(b).as_deref() == Some(&logical[..]),
            (_, Some(b)) => *b == expected_file,
            _ => false,
        }
    };
    let rename_attempted = events.iter().any(|e| e.kind == "before_rename");
    // durability invariant at the moment of publication
    if let Some(br) = events.iter().find(|e| e.kind == "before_rename") {
        let synced = events.iter().rev().find(|e| e.kind == "synced" && e.path == br.path && e.at_ns <= br.at_ns);
        match synced {
            None => {
                case.fail("published-without-sync", format!("rename of {:?} without a preceding sync_all", br.path.file_name()));
            }
            Some(sy) => {
                case.check(sy.len == br.len, "published-unsynced-bytes", || format!("temp file was {:?} bytes at sync_all but {:?} at rename", sy.len, br.len));
            }
        }
    }
    match outcome {
        None => {
            // killed: destination is what it was, or (only if the rename had been reached) complete
            case.probe("killed_mid_pull");
            if events.iter().any(|e| e.kind == "synced") && !rename_attempted {
                case.probe("killed_between_sync_and_rename");
            }
            let unchanged = now_dest == old;
            let published = is_complete(&now_dest) && rename_attempted;
            case.check(unchanged || published, "partial-file-after-kill", || {
                format!("after a kill the destination holds {:?} bytes (old {:?}, complete {}); rename attempted: {rename_attempted}", now_dest.as_ref().map(|d| d.len()), old.as_ref().map(|d| d.len()), expected_file.len())
            });
        }
        Some(Err(_)) => {
            case.fail("panic", "puller thread panicked");
        }
        Some(Ok(Ok(()))) => {
            let must_fail = producer_fails || verifier_rejects || trailer_too_long || rename_fails || (scripted && cut != Cut::None && fault_after < chunks_plain.len()) || (scripted && cut == Cut::CloseWithoutLast);
            if !case.check(!must_fail, "published-despite-failure", || {
                format!("pull returned Ok although the transfer could not complete (producer_fails={producer_fails} cut={cut:?}@{fault_after}/{} verifier_rejects={verifier_rejects} trailer_too_long={trailer_too_long})", chunks_plain.len())
            }) {
                return;
            }
            case.check(is_complete(&now_dest), "published-wrong-content", || format!("pull returned Ok but the destination holds {:?} bytes, expected {}", now_dest.as_ref().map(|d| d.len()), expected_file.len()));
            case.check(!temp.exists(), "temp-file-left", || "pull returned Ok but the .svspart sibling still exists".into());
            case.probe("published");
        }
        Some(Ok(Err(e))) => {
            if !rename_fails {
                case.check(now_dest == old, "destination-touched-by-failed-pull", || {
                    format!("pull failed ({e}) but the destination changed: now {:?} bytes, was {:?}", now_dest.as_ref().map(|d| d.len()), old.as_ref().map(|d| d.len()))
                });
            }
            // (a stale sibling of an earlier killed pull that this pull never got to re-create is not this pull's litter)
            case.check(!temp.exists() || (stale_temp && !events.iter().any(|ev| ev.kind == "created")), "temp-file-left", || format!("failed pull ({e}) left the .svspart sibling behind"));
            let expected_failure = producer_fails || verifier_rejects || trailer_too_long || rename_fails || (scripted && cut != Cut::None);
            if !expected_failure {
                case.fail("pull-failed-without-fault", format!("fault-free pull failed: {e}"));
            }
            case.probe("failed_cleanly");
        }
    }
    case.nontrivial();
    net::shutdown_all();
    server.join().ok();
    let _ = std::fs::remove_dir_all(&dir);
}
