//! C14: the real `Registry` (direct, and mounted in a `Router`) vs. an independent
//! JSON-tree + callable-set model. Sequential histories step by step; concurrent
//! histories on simulated threads checked for linearizability.

use crate::framework::{Case, Family, OnDeadlock, pick, range};
use crate::lin::{Completed, SeqModel, Stamps, linearize};
use repe::constants::{BodyFormat, ErrorCode};
use repe::message::Message;
use repe::registry::Registry;
use repe::server::Router;
use serde_json::{Map, Value, json};
use simkernel::sync::Arc;
use simkernel::thread;
use std::collections::BTreeSet;

pub fn families() -> Vec<Family> {
    vec![
        Family::new(
            "c14_seq",
            "C14",
            "sequential register/merge/read/write/call histories (direct + Router mount) vs. JSON-tree model",
            c14_seq,
        )
        .runs(120_000, 7_200_000)
        .deadlock(OnDeadlock::HarnessError),
        Family::new(
            "c14_conc",
            "C14",
            "2-4 simulated threads x 1-4 registry requests, linearizability vs. JSON-tree model",
            c14_conc,
        )
        .runs(80_000, 4_800_000)
        .deadlock(OnDeadlock::HarnessError),
    ]
}

// ------------------------------------------------------------------ model (no repository code)

#[derive(Clone, Debug, PartialEq)]
enum Op {
    RegisterValue(String, Value),
    RegisterFunction(String),
    MergeAt(String, Map<String, Value>),
    MergeRoot(Map<String, Value>),
    SetRoot(Value),
    ReadValue(String),
    /// via == 0: Registry::dispatch; 1: Router mount with prefix "/reg"; 2: Router mount with prefix ""
    Dispatch { via: u8, pointer: String, body: Option<Value> },
}

/// Ok(value) or Err(error code)
type Ret = Result<Value, u32>;

#[derive(Clone, Debug)]
struct Model {
    root: Value,
    funcs: BTreeSet<String>,
}

const NOT_FOUND: u32 = ErrorCode::MethodNotFound as u32;
const INVALID_BODY: u32 = ErrorCode::InvalidBody as u32;

fn rfc6901_parse(pointer: &str) -> Result<Vec<String>, ()> {
    if pointer.is_empty() || pointer == "/" {
        return Ok(vec![]);
    }
    let Some(rest) = pointer.strip_prefix('/') else { return Err(()) };
    let mut out = Vec::new();
    for tok in rest.split('/') {
        let mut s = String::new();
        let b: Vec<char> = tok.chars().collect();
        let mut i = 0;
        while i < b.len() {
            if b[i] == '~' {
                match b.get(i + 1) {
                    Some('0') => s.push('~'),
                    Some('1') => s.push('/'),
                    _ => return Err(()),
                }
                i += 2;
            } else {
                s.push(b[i]);
                i += 1;
            }
        }
        out.push(s);
    }
    Ok(out)
}

fn rfc6901_render(segs: &[String]) -> String {
    if segs.is_empty() {
        return "/".to_string();
    }
    segs.iter().map(|s| format!("/{}", s.replace('~', "~0").replace('/', "~1"))).collect()
}

fn lookup<'a>(root: &'a Value, segs: &[String]) -> Option<&'a Value> {
    let mut cur = root;
    for s in segs {
        cur = match cur {
            Value::Object(m) => m.get(s)?,
            Value::Array(a) => a.get(s.parse::<usize>().ok()?)?,
            _ => return None,
        };
    }
    Some(cur)
}
fn lookup_mut<'a>(root: &'a mut Value, segs: &[String]) -> Option<&'a mut Value> {
    let mut cur = root;
    for s in segs {
        cur = match cur {
            Value::Object(m) => m.get_mut(s)?,
            Value::Array(a) => a.get_mut(s.parse::<usize>().ok()?)?,
            _ => return None,
        };
    }
    Some(cur)
}

impl Model {
    fn object_root(&mut self) -> &mut Map<String, Value> {
        if !self.root.is_object() {
            self.root = Value::Object(Map::new());
        }
        self.root.as_object_mut().unwrap()
    }
    /// Registration makes every missing (or non-object) parent an object.
    fn make_parents(&mut self, segs: &[String]) -> &mut Map<String, Value> {
        let mut cur = self.object_root();
        for s in &segs[..segs.len() - 1] {
            let e = cur.entry(s.clone()).or_insert_with(|| Value::Object(Map::new()));
            if !e.is_object() {
                *e = Value::Object(Map::new());
            }
            cur = e.as_object_mut().unwrap();
        }
        cur
    }
    fn reg_path(path: &str) -> Result<Vec<String>, ()> {
        if path.starts_with('/') { rfc6901_parse(path) } else { rfc6901_parse(&format!("/{path}")) }
    }
    fn dispatch(&mut self, pointer: &str, body: &Option<Value>) -> Ret {
        let segs = rfc6901_parse(pointer).map_err(|_| NOT_FOUND)?;
        let canon = rfc6901_render(&segs);
        match body {
            None => {
                if self.funcs.contains(&canon) {
                    return Ok(json!({"type": "function", "path": canon}));
                }
                lookup(&self.root, &segs).cloned().ok_or(NOT_FOUND)
            }
            Some(v) => {
                if self.funcs.contains(&canon) {
                    return Ok(json!({"called": canon, "with": v}));
                }
                if segs.is_empty() {
                    let Value::Object(obj) = v else { return Err(INVALID_BODY) };
                    let root = self.object_root();
                    for (k, val) in obj {
                        root.insert(k.clone(), val.clone());
                    }
                    return Ok(json!({"status": "ok", "path": "/"}));
                }
                let (last, parents) = segs.split_last().unwrap();
                let parent = lookup_mut(&mut self.root, parents).ok_or(NOT_FOUND)?;
                match parent {
                    Value::Object(m) => {
                        m.insert(last.clone(), v.clone());
                    }
                    Value::Array(a) => {
                        let idx = last.parse::<usize>().map_err(|_| NOT_FOUND)?;
                        let slot = a.get_mut(idx).ok_or(NOT_FOUND)?;
                        *slot = v.clone();
                    }
                    _ => return Err(NOT_FOUND),
                }
                Ok(json!({"status": "ok", "path": canon}))
            }
        }
    }
}

impl SeqModel for Model {
    type Op = Op;
    type Ret = Ret;
    fn apply(&mut self, op: &Op) -> Ret {
        match op {
            Op::RegisterValue(path, v) => {
                let segs = Model::reg_path(path).map_err(|_| NOT_FOUND)?;
                if segs.is_empty() {
                    self.root = v.clone();
                } else {
                    let last = segs.last().unwrap().clone();
                    self.make_parents(&segs).insert(last, v.clone());
                }
                Ok(Value::Null)
            }
            Op::RegisterFunction(path) => {
                let segs = Model::reg_path(path).map_err(|_| NOT_FOUND)?;
                if segs.is_empty() {
                    return Err(NOT_FOUND);
                }
                self.make_parents(&segs);
                self.funcs.insert(rfc6901_render(&segs));
                Ok(Value::Null)
            }
            Op::MergeAt(path, obj) => {
                let segs = Model::reg_path(path).map_err(|_| NOT_FOUND)?;
                let target: &mut Map<String, Value> = if segs.is_empty() {
                    self.object_root()
                } else {
                    lookup_mut(&mut self.root, &segs).and_then(|v| v.as_object_mut()).ok_or(NOT_FOUND)?
                };
                for (k, v) in obj {
                    target.insert(k.clone(), v.clone());
                }
                Ok(Value::Null)
            }
            Op::MergeRoot(obj) => {
                let root = self.object_root();
                for (k, v) in obj {
                    root.insert(k.clone(), v.clone());
                }
                Ok(Value::Null)
            }
            Op::SetRoot(v) => {
                self.root = v.clone();
                Ok(Value::Null)
            }
            Op::ReadValue(p) => {
                let segs = rfc6901_parse(p).map_err(|_| NOT_FOUND)?;
                lookup(&self.root, &segs).cloned().ok_or(NOT_FOUND)
            }
            Op::Dispatch { via, pointer, body } => match via {
                0 => self.dispatch(pointer, body),
                1 => {
                    // mounted under "/reg": the request path is "/reg" + pointer
                    self.dispatch(if pointer.is_empty() { "/" } else { pointer }, body)
                }
                _ => self.dispatch(if pointer.is_empty() { "/" } else { pointer }, body),
            },
        }
    }
    fn fingerprint(&self) -> String {
        format!("{}|{:?}", self.root, self.funcs)
    }
}

// ------------------------------------------------------------------ real side

type CallLog = Arc<std::sync::Mutex<Vec<(String, Value)>>>;

struct Real {
    reg: Arc<Registry>,
    router_reg: Router,
    router_root: Router,
    calls: CallLog,
}

impl Real {
    fn new() -> Real {
        let reg = Arc::new(Registry::new());
        Real {
            router_reg: Router::new().with_registry("/reg", reg.clone()),
            router_root: Router::new().with_registry("", reg.clone()),
            reg,
            calls: Arc::new(std::sync::Mutex::new(Vec::new())),
        }
    }

    fn via_router(&self, router: &Router, path: &str, body: &Option<Value>) -> Ret {
        let mut b = Message::builder().id(7).query_str(path);
        if let Some(v) = body {
            // the same value in any of the encodings the registry accepts
            b = match (simkernel::choose(3), v) {
                (1, Value::String(text)) if !text.is_empty() => {
                    simkernel::count("probe.registry_body_as_utf8_text");
                    b.body_utf8(text)
                }
                (2, _) if beve::to_vec(v).ok().and_then(|bytes| beve::from_slice::<Value>(&bytes).ok()).as_ref() == Some(v) => {
                    simkernel::count("probe.registry_body_as_beve");
                    b.body_bytes(beve::to_vec(v).unwrap()).body_format(BodyFormat::Beve)
                }
                _ => b.body_json(v).map_err(|_| 9999u32)?,
            };
        }
        if body.is_none() {
            // an empty body is a read whatever format code it is tagged with
            b = match simkernel::choose(5) {
                0 => b.body_format(BodyFormat::Utf8),
                1 => b.body_format(BodyFormat::Json),
                2 => b.body_format(BodyFormat::Beve),
                _ => b,
            };
        }
        let req = b.build();
        let Some(h) = router.get(path) else { return Err(NOT_FOUND) };
        // ... through the owning entry point or the borrowing one the servers use
        let resp = if simkernel::choose(2) == 0 {
            h.handle(&req).map_err(|_| 9998u32)?
        } else {
            simkernel::count("probe.registry_via_handle_view");
            let wire = req.to_vec();
            let view = repe::message::MessageView::from_slice_exact(&wire).map_err(|_| 9995u32)?;
            h.handle_view(&view, &repe::peer::CallContext::detached(path)).map_err(|_| 9998u32)?
        };
        if resp.header.ec != ErrorCode::Ok as u32 {
            return Err(resp.header.ec);
        }
        if resp.header.body_format != BodyFormat::Json as u16 {
            return Err(9997);
        }
        serde_json::from_slice(&resp.body).map_err(|_| 9996u32)
    }

    fn exec(&self, op: &Op) -> Ret {
        let code = |e: repe::registry::RegistryError| e.code() as u32;
        match op {
            Op::RegisterValue(p, v) => self.reg.register_value(p, v.clone()).map(|_| Value::Null).map_err(code),
            Op::RegisterFunction(p) => {
                let calls = self.calls.clone();
                // the callable reports where it was registered (canonical) and what it got
                let canon = Model::reg_path(p).map(|s| rfc6901_render(&s)).unwrap_or_default();
                self.reg
                    .register_function(p, move |params: Option<Value>| {
                        let v = params.unwrap_or(Value::Null);
                        calls.lock().unwrap().push((canon.clone(), v.clone()));
                        Ok(json!({"called": canon, "with": v}))
                    })
                    .map(|_| Value::Null)
                    .map_err(code)
            }
            Op::MergeAt(p, o) => self.reg.merge_at(p, o.clone()).map(|_| Value::Null).map_err(code),
            Op::MergeRoot(o) => self.reg.merge_root(o.clone()).map(|_| Value::Null).map_err(code),
            Op::SetRoot(v) => {
                self.reg.set_root(v.clone());
                Ok(Value::Null)
            }
            Op::ReadValue(p) => self.reg.read_value(p).map_err(code),
            Op::Dispatch { via, pointer, body } => match via {
                0 => self.reg.dispatch(pointer, body.clone()).map_err(code),
                1 => self.via_router(&self.router_reg, &format!("/reg{pointer}"), body),
                _ => self.via_router(&self.router_root, pointer, body),
            },
        }
    }
}

// ------------------------------------------------------------------ generators

// (includes tokens whose meaning depends on unescaping in one left-to-right pass:
// "~01" is the key "~1", never "/"; "~10" is "/0"; "~00" is "~0"; "~11" is "/1")
const TOKENS: [&str; 18] = ["a", "b", "", "0", "1", "a~1b", "m~0n", "x", "2", "reg", "reg", "~01", "~1", "~10", "~00", "~11", "a~01", "~0~1"];

fn gen_pointer(small: bool) -> String {
    if small {
        return pick(&["/a", "/b", "/a/x", "/a", "/a/x", "/"]).to_string();
    }
    match simkernel::choose(14) {
        0 => "/".into(),
        1 => "".into(),
        2 => pick(&["/a~2", "/~", "/a/~3b", "/x~"]).to_string(),
        3 => pick(&["a", "a/b", "x"]).to_string(),
        _ => {
            let depth = range(1, 4);
            (0..depth).map(|_| format!("/{}", TOKENS[simkernel::choose(TOKENS.len() as u32) as usize])).collect()
        }
    }
}

fn gen_value(uniq: &mut u64) -> Value {
    *uniq += 1;
    match simkernel::choose(6) {
        0 => json!({"k": *uniq}),
        1 => json!([*uniq, *uniq + 1000]),
        2 => json!({"a": {"x": *uniq}, "0": *uniq}),
        3 => Value::String(format!("s{uniq}")),
        // a body that is exactly `null` is a body like any other (a write, a call argument)
        5 if simkernel::choose(4) == 0 => Value::Null,
        // strings that look like other JSON: a text body must stay a string
        4 if simkernel::choose(2) == 0 => Value::String(match simkernel::choose(5) {
            0 => format!("{uniq}"),
            1 => "true".to_string(),
            2 => format!("{{\"a\":{uniq}}}"),
            3 => format!("[{uniq}]"),
            _ => "null".to_string(),
        }),
        _ => json!(*uniq),
    }
}

fn gen_op(small: bool, uniq: &mut u64, requests_only: bool) -> Op {
    let k = if requests_only { 4 + simkernel::choose(8) } else { simkernel::choose(12) };
    match k {
        0 => Op::RegisterValue(gen_pointer(small), gen_value(uniq)),
        1 => Op::RegisterFunction(gen_pointer(small)),
        2 => {
            let Value::Object(o) = json!({"m": gen_value(uniq), "a": gen_value(uniq)}) else { unreachable!() };
            if simkernel::choose(3) == 0 { Op::MergeRoot(o) } else { Op::MergeAt(gen_pointer(small), o) }
        }
        3 => {
            if simkernel::choose(4) == 0 {
                Op::SetRoot(gen_value(uniq))
            } else {
                Op::RegisterValue(gen_pointer(small), gen_value(uniq))
            }
        }
        4 | 5 => Op::ReadValue(gen_pointer(small)),
        6..=8 => Op::Dispatch { via: if small { 0 } else { simkernel::choose(3) as u8 }, pointer: gen_pointer(small), body: None },
        _ => Op::Dispatch {
            via: if small { 0 } else { simkernel::choose(3) as u8 },
            pointer: gen_pointer(small),
            body: Some(gen_value(uniq)),
        },
    }
}

/// A pointer usable on the Router paths must be a valid request path for that mount.
fn router_ok(op: &Op) -> bool {
    match op {
        // a Router looks handlers up by path: an empty request path cannot address a "" mount
        Op::Dispatch { via: 2, pointer, .. } => !pointer.is_empty() && pointer.starts_with('/'),
        Op::Dispatch { via: 1, pointer, .. } => pointer.is_empty() || pointer.starts_with('/'),
        _ => true,
    }
}

/// Whatever spelling of an array index the registry accepts for a write (`1`, `01`, `+1`, ...),
/// the next read of that very pointer returns what was written. (No model of which spellings
/// are legal is needed for that.)
fn c14_index_spellings(case: &Case) {
    let reg = Registry::new();
    if reg.register_value("/items", json!([10, 20, 30, [1, 2, 3]])).is_err() {
        case.harness_error("register_value failed");
        return;
    }
    for (k, tok) in ["1", "01", "+1", "002", "0", "00", "3/01", "03/1"].iter().enumerate() {
        let ptr = format!("/items/{tok}");
        let v = json!(7_000 + k);
        if reg.dispatch(&ptr, Some(v.clone())).is_ok() {
            simkernel::count("probe.write_through_an_index_spelling_accepted");
            let back = reg.dispatch(&ptr, None);
            case.check(matches!(&back, Ok(b) if *b == v), "write-not-read-back", || format!("wrote {v} at {ptr:?} (accepted); the next read of {ptr:?} returned {back:?}"));
        }
    }
    case.nontrivial();
}

fn c14_seq(case: &Case) {
    if simkernel::choose(20) == 0 {
        return c14_index_spellings(case);
    }
    let real = Real::new();
    let mut model = Model { root: Value::Object(Map::new()), funcs: BTreeSet::new() };
    let small = simkernel::choose(3) == 0;
    let n = if small { range(1, 5) } else { range(5, 100) };
    let mut uniq = 0u64;
    let mut hist: Vec<String> = Vec::new();
    let mut writes = 0u64;
    let mut calls_expected = 0u64;
    for _ in 0..n {
        let mut op = gen_op(small, &mut uniq, false);
        if !router_ok(&op) {
            if let Op::Dispatch { via, .. } = &mut op {
                *via = 0;
            }
        }
        let calls_before = real.calls.lock().unwrap().len();
        let before = model.clone();
        let got = real.exec(&op);
        let want = model.apply(&op);
        hist.push(format!("{op:?} -> {got:?}"));
        if !case.check(got == want, "model-mismatch", || format!("{op:?}: registry {got:?}, model {want:?}; history {hist:?}")) {
            return;
        }
        // callable invoked exactly once, with the supplied body, only for a call
        let calls_after = real.calls.lock().unwrap().clone();
        let is_call = matches!(&op, Op::Dispatch { body: Some(_), pointer, .. }
            if rfc6901_parse(pointer).is_ok_and(|s| before.funcs.contains(&rfc6901_render(&s))));
        if is_call {
            calls_expected += 1;
            let Op::Dispatch { body: Some(b), pointer, .. } = &op else { unreachable!() };
            let canon = rfc6901_render(&rfc6901_parse(pointer).unwrap());
            if !case.check(
                calls_after.len() == calls_before + 1 && calls_after.last() == Some(&(canon.clone(), b.clone())),
                "callable-invocation",
                || format!("call at {pointer}: invocations {:?} (had {calls_before})", &calls_after[calls_before.min(calls_after.len())..]),
            ) {
                return;
            }
        } else if !case.check(calls_after.len() == calls_before, "spurious-callable-invocation", || {
            format!("{op:?} invoked a callable: {:?}", calls_after.last())
        }) {
            return;
        }
        // an empty-body request never mutates; a successful non-root write reads back
        match &op {
            Op::Dispatch { body: None, .. } | Op::ReadValue(_) => {
                if !case.check(model.fingerprint() == before.fingerprint(), "model-bug", || "read mutated the model".into()) {
                    return;
                }
            }
            Op::Dispatch { body: Some(b), pointer, .. } if got.is_ok() && !is_call => {
                writes += 1;
                let segs = rfc6901_parse(pointer).unwrap();
                if !segs.is_empty() {
                    let back = real.reg.read_value(pointer);
                    if !case.check(back.as_ref().ok() == Some(b), "write-not-read-back", || {
                        format!("wrote {b} at {pointer}, read back {back:?}")
                    }) {
                        return;
                    }
                }
            }
            _ => {}
        }
        // whole tree equality (nothing unrelated changed)
        let tree = real.reg.read_value("/");
        if !case.check(tree.as_ref().ok() == Some(&model.root), "tree-diverged", || {
            format!("registry tree {tree:?} != model {} after {hist:?}", model.root)
        }) {
            return;
        }
    }
    if writes > 0 {
        case.probe_by("successful_write", writes);
    }
    if calls_expected > 0 {
        case.probe_by("callable_invoked", calls_expected);
    }
    case.probe("sequential_history_checked");
    if hist.len() >= 2 {
        case.nontrivial();
    }
    case.sample(json!({"ops": hist.iter().take(16).collect::<Vec<_>>(), "total": hist.len()}));
}

fn c14_conc(case: &Case) {
    let real = Arc::new(Real::new());
    let mut model = Model { root: Value::Object(Map::new()), funcs: BTreeSet::new() };
    let mut uniq = 0u64;
    // sequential set-up
    let nprefix = range(0, 5);
    for i in 0..nprefix {
        let op = if i == 0 && simkernel::choose(2) == 1 {
            Op::RegisterValue("/a".into(), json!({"x": 0, "y": [1, 2]}))
        } else {
            gen_op(true, &mut uniq, false)
        };
        let got = real.exec(&op);
        let want = model.apply(&op);
        if !case.check(got == want, "model-mismatch", || format!("prefix {op:?}: {got:?} vs {want:?}")) {
            return;
        }
    }
    let nthreads = range(2, 4) as usize;
    let plans: Vec<Vec<Op>> = (0..nthreads)
        // Only *requests* (read / write / call, plus read_value) run concurrently: that is what
        // the property serialises. Registrations and merges are set-up API calls and stay in the
        // sequential prefix (a registration racing a write is check-then-act in dispatch and is
        // not linearizable, but that is outside the stated property; see DESIGN.md).
        // (Merges are applied under one write lock on the unchanged tree, so they may join in:
        // a reader must see a merge entirely or not at all.)
        .map(|_| {
            (0..range(1, 4))
                .map(|_| {
                    if simkernel::choose(6) == 0 {
                        let Value::Object(o) = json!({"m": gen_value(&mut uniq), "a": gen_value(&mut uniq), "z": gen_value(&mut uniq)}) else { unreachable!() };
                        simkernel::count("probe.merge_among_concurrent_requests");
                        if simkernel::choose(2) == 0 { Op::MergeRoot(o) } else { Op::MergeAt(gen_pointer(true), o) }
                    } else {
                        gen_op(true, &mut uniq, true)
                    }
                })
                .collect()
        })
        .collect();
    let stamps = Arc::new(Stamps::new());
    let results: Arc<std::sync::Mutex<Vec<Completed<Op, Ret>>>> = Arc::new(std::sync::Mutex::new(Vec::new()));
    let calls_before = real.calls.lock().unwrap().len();
    let mut hs = Vec::new();
    for (t, plan) in plans.iter().cloned().enumerate() {
        let real = real.clone();
        let stamps = stamps.clone();
        let results = results.clone();
        hs.push(thread::spawn(move || {
            for op in plan {
                let invoke = stamps.next();
                let ret = real.exec(&op);
                let ret_at = stamps.next();
                simkernel::event(|| format!("T{t} {op:?} -> {ret:?}"));
                results.lock().unwrap().push(Completed { thread: t, op, ret, invoke, ret_at });
            }
        }));
    }
    for h in hs {
        h.join().ok();
    }
    let hist = std::mem::take(&mut *results.lock().unwrap());
    let overlapping = hist
        .iter()
        .enumerate()
        .any(|(i, a)| hist.iter().skip(i + 1).any(|b| a.thread != b.thread && a.invoke < b.ret_at && b.invoke < a.ret_at));
    if overlapping {
        case.probe("history_with_overlapping_ops");
    }
    case.probe("concurrent_history_checked");
    case.nontrivial();
    let shown: Vec<String> = hist.iter().map(|c| format!("T{} [{}-{}] {:?} -> {:?}", c.thread, c.invoke, c.ret_at, c.op, c.ret)).collect();
    let Some(order) = linearize(&model, &hist) else {
        case.fail("not-linearizable", format!("no sequential order explains: {shown:?} from state {}", model.fingerprint()));
        return;
    };
    // final state must be the witness order's final state
    let mut m = model.clone();
    for i in &order {
        m.apply(&hist[*i].op);
    }
    // (several witness orders may exist; the final tree must match at least the found one
    //  only when every order yields the same tree, so compare only if ops commute trivially)
    let tree = real.reg.read_value("/").ok();
    if tree.as_ref() != Some(&m.root) {
        // look for any witness whose final state matches: brute force over orders is already
        // done by `linearize`; fall back to adding a final read to the history.
        let mut h2: Vec<Completed<Op, Ret>> = hist
            .iter()
            .map(|c| Completed { thread: c.thread, op: c.op.clone(), ret: c.ret.clone(), invoke: c.invoke, ret_at: c.ret_at })
            .collect();
        let t = stamps.next();
        h2.push(Completed { thread: 99, op: Op::ReadValue("/".into()), ret: tree.clone().ok_or(NOT_FOUND), invoke: t, ret_at: t + 1 });
        if !case.check(linearize(&model, &h2).is_some(), "final-state-unexplained", || {
            format!("final tree {tree:?} is not the result of any valid order of {shown:?}")
        }) {
            return;
        }
    }
    // every call op invoked its callable exactly once with its own body
    let calls = real.calls.lock().unwrap().clone();
    let call_ops: Vec<&Completed<Op, Ret>> = hist
        .iter()
        .filter(|c| matches!(&c.ret, Ok(v) if v.get("called").is_some()))
        .collect();
    if !case.check(calls.len() - calls_before == call_ops.len(), "callable-invocation", || {
        format!("{} callable invocations for {} call results", calls.len() - calls_before, call_ops.len())
    }) {
        return;
    }
    case.sample(json!({"threads": nthreads, "history": shown}));
}
