//! Independent REPE v1 frame codec (written from the wire layout, shares no code with
//! /repo) and the wire-tap stream-shape oracle.
//!
//! Layout, little-endian, 48 bytes: u64 length | u16 spec(0x1507) | u8 version | u8 notify |
//! u32 reserved | u64 id | u64 query_length | u64 body_length | u16 query_format |
//! u16 body_format | u32 ec ; then query bytes, then body bytes; length = 48 + q + b.

use std::io::{self, Read, Write};

pub const MAGIC: u16 = 0x1507;
pub const HDR: usize = 48;

#[derive(Clone, Debug, PartialEq, Eq, Default)]
pub struct Frame {
    pub length: u64,
    pub spec: u16,
    pub version: u8,
    pub notify: u8,
    pub reserved: u32,
    pub id: u64,
    pub query_length: u64,
    pub body_length: u64,
    pub query_format: u16,
    pub body_format: u16,
    pub ec: u32,
    pub query: Vec<u8>,
    pub body: Vec<u8>,
}

pub fn rd_u16(b: &[u8], o: usize) -> u16 {
    (b[o] as u16) | ((b[o + 1] as u16) << 8)
}
pub fn rd_u32(b: &[u8], o: usize) -> u32 {
    (0..4).fold(0u32, |acc, i| acc | ((b[o + i] as u32) << (8 * i)))
}
pub fn rd_u64(b: &[u8], o: usize) -> u64 {
    (0..8).fold(0u64, |acc, i| acc | ((b[o + i] as u64) << (8 * i)))
}
fn wr(out: &mut Vec<u8>, v: u64, n: usize) {
    for i in 0..n {
        out.push((v >> (8 * i)) as u8);
    }
}

impl Frame {
    /// A well-formed frame: lengths are derived from the payloads.
    pub fn new(id: u64, query: &[u8], body: &[u8]) -> Frame {
        Frame {
            length: (HDR + query.len() + body.len()) as u64,
            spec: MAGIC,
            version: 1,
            notify: 0,
            reserved: 0,
            id,
            query_length: query.len() as u64,
            body_length: body.len() as u64,
            query_format: 1, // JSON pointer
            body_format: 0,  // raw binary
            ec: 0,
            query: query.to_vec(),
            body: body.to_vec(),
        }
    }
    pub fn with_formats(mut self, qf: u16, bf: u16) -> Frame {
        self.query_format = qf;
        self.body_format = bf;
        self
    }
    pub fn notify(mut self, n: u8) -> Frame {
        self.notify = n;
        self
    }
    pub fn ec(mut self, ec: u32) -> Frame {
        self.ec = ec;
        self
    }
    /// Header bytes exactly as the fields say (fields may be inconsistent on purpose).
    pub fn header_bytes(&self) -> Vec<u8> {
        let mut o = Vec::with_capacity(HDR);
        wr(&mut o, self.length, 8);
        wr(&mut o, self.spec as u64, 2);
        o.push(self.version);
        o.push(self.notify);
        wr(&mut o, self.reserved as u64, 4);
        wr(&mut o, self.id, 8);
        wr(&mut o, self.query_length, 8);
        wr(&mut o, self.body_length, 8);
        wr(&mut o, self.query_format as u64, 2);
        wr(&mut o, self.body_format as u64, 2);
        wr(&mut o, self.ec as u64, 4);
        o
    }
    pub fn encode(&self) -> Vec<u8> {
        let mut o = self.header_bytes();
        o.extend_from_slice(&self.query);
        o.extend_from_slice(&self.body);
        o
    }
    pub fn parse_header(b: &[u8]) -> Frame {
        Frame {
            length: rd_u64(b, 0),
            spec: rd_u16(b, 8),
            version: b[10],
            notify: b[11],
            reserved: rd_u32(b, 12),
            id: rd_u64(b, 16),
            query_length: rd_u64(b, 24),
            body_length: rd_u64(b, 32),
            query_format: rd_u16(b, 40),
            body_format: rd_u16(b, 42),
            ec: rd_u32(b, 44),
            query: Vec::new(),
            body: Vec::new(),
        }
    }
    /// Is this header self-consistent (128-bit arithmetic)?
    pub fn header_consistent(&self) -> bool {
        self.spec == MAGIC && (self.length as u128) == HDR as u128 + self.query_length as u128 + self.body_length as u128
    }
    pub fn query_str(&self) -> String {
        String::from_utf8_lossy(&self.query).to_string()
    }
}

/// The independent verdict on "is `input` (a prefix of it) one consistent frame?"
#[derive(Debug, PartialEq, Eq)]
pub enum Verdict {
    /// consistent frame occupying exactly `used` bytes of the input
    Frame { used: usize },
    Reject,
}

pub fn judge(input: &[u8]) -> Verdict {
    if input.len() < HDR {
        return Verdict::Reject;
    }
    let h = Frame::parse_header(input);
    if !h.header_consistent() {
        return Verdict::Reject;
    }
    if (input.len() as u128) < h.length as u128 {
        return Verdict::Reject;
    }
    Verdict::Frame { used: h.length as usize }
}

/// Shape of a byte stream an endpoint wrote.
#[derive(Debug)]
pub struct StreamShape {
    pub frames: Vec<Frame>,
    /// bytes after the last complete frame (a prefix of one more frame, or empty)
    pub tail: Vec<u8>,
    /// first offset at which the stream stops being "frames then a prefix" (bad magic /
    /// inconsistent header), if any
    pub garbage_at: Option<(usize, String)>,
}

pub fn split_stream(bytes: &[u8]) -> StreamShape {
    let mut frames = Vec::new();
    let mut off = 0usize;
    loop {
        let rest = &bytes[off..];
        if rest.is_empty() {
            return StreamShape { frames, tail: Vec::new(), garbage_at: None };
        }
        if rest.len() < HDR {
            // partial header: the magic, if present, must already be right
            if rest.len() >= 10 && rd_u16(rest, 8) != MAGIC {
                return StreamShape { frames, tail: rest.to_vec(), garbage_at: Some((off, "bad magic in partial header".into())) };
            }
            return StreamShape { frames, tail: rest.to_vec(), garbage_at: None };
        }
        let mut h = Frame::parse_header(rest);
        if !h.header_consistent() {
            return StreamShape {
                frames,
                tail: rest.to_vec(),
                garbage_at: Some((off, format!("inconsistent header at stream offset {off}: spec={:#x} length={} q={} b={}", h.spec, h.length, h.query_length, h.body_length))),
            };
        }
        let total = h.length as usize;
        if rest.len() < total {
            return StreamShape { frames, tail: rest.to_vec(), garbage_at: None };
        }
        let q = h.query_length as usize;
        h.query = rest[HDR..HDR + q].to_vec();
        h.body = rest[HDR + q..total].to_vec();
        frames.push(h);
        off += total;
    }
}

// ------------------------------------------------------------------ patterned payloads

/// Self-describing body: byte k of the body of message `id` is a function of (id, k), so a
/// body that contains bytes of another message (or of a header) is recognisable anywhere.
pub fn pattern_byte(id: u64, k: usize) -> u8 {
    let x = id.wrapping_mul(0x9E37_79B9_7F4A_7C15).wrapping_add(k as u64).wrapping_mul(0xBF58_476D_1CE4_E5B9);
    // never produce the magic's bytes so a header cannot hide inside a valid body
    let b = (x >> 32) as u8;
    if b == 0x07 || b == 0x15 { b ^ 0x80 } else { b }
}
pub fn pattern(id: u64, len: usize) -> Vec<u8> {
    (0..len).map(|k| pattern_byte(id, k)).collect()
}
pub fn is_pattern(id: u64, body: &[u8]) -> bool {
    body.iter().enumerate().all(|(k, b)| *b == pattern_byte(id, k))
}

// ------------------------------------------------------------------ stream I/O for scripted peers

/// Read one frame. `Ok(None)` = clean EOF at a frame boundary.
pub fn read_frame<R: Read>(r: &mut R) -> io::Result<Option<Frame>> {
    let mut hdr = [0u8; HDR];
    let mut got = 0;
    while got < HDR {
        match r.read(&mut hdr[got..]) {
            Ok(0) => {
                if got == 0 {
                    return Ok(None);
                }
                return Err(io::Error::new(io::ErrorKind::UnexpectedEof, "eof inside header"));
            }
            Ok(n) => got += n,
            Err(e) if e.kind() == io::ErrorKind::Interrupted => continue,
            Err(e) => return Err(e),
        }
    }
    let mut f = Frame::parse_header(&hdr);
    if !f.header_consistent() {
        return Err(io::Error::new(io::ErrorKind::InvalidData, format!("peer sent an inconsistent header: {f:?}")));
    }
    let mut q = vec![0u8; f.query_length as usize];
    read_full(r, &mut q)?;
    let mut b = vec![0u8; f.body_length as usize];
    read_full(r, &mut b)?;
    f.query = q;
    f.body = b;
    Ok(Some(f))
}

pub fn read_full<R: Read>(r: &mut R, buf: &mut [u8]) -> io::Result<()> {
    let mut got = 0;
    while got < buf.len() {
        match r.read(&mut buf[got..]) {
            Ok(0) => return Err(io::Error::new(io::ErrorKind::UnexpectedEof, "eof inside frame")),
            Ok(n) => got += n,
            Err(e) if e.kind() == io::ErrorKind::Interrupted => continue,
            Err(e) => return Err(e),
        }
    }
    Ok(())
}

pub fn write_all_retry<W: Write>(w: &mut W, mut buf: &[u8]) -> io::Result<()> {
    while !buf.is_empty() {
        match w.write(buf) {
            Ok(0) => return Err(io::Error::new(io::ErrorKind::WriteZero, "write zero")),
            Ok(n) => buf = &buf[n..],
            Err(e) if e.kind() == io::ErrorKind::Interrupted => continue,
            Err(e) => return Err(e),
        }
    }
    Ok(())
}
