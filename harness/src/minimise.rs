//! Choice-list minimisation: a failing case is just its list of draws, so shrinking
//! is list surgery (truncate, zero blocks, delete blocks, lower values) while the
//! same violation class keeps reproducing. Zero is always the most benign draw.

use crate::framework::{CaseResult, Family, Tier, run_case};
use simkernel::rng::Choices;
use std::time::{Duration, Instant};

pub struct Minimised {
    pub choices: Vec<u32>,
    pub result: CaseResult,
    pub trials: u64,
}

fn strip_trailing_zeros(v: &mut Vec<u32>) {
    while v.last() == Some(&0) {
        v.pop();
    }
}

pub fn minimise(fam: &Family, tier: Tier, start: Vec<u32>, class: &str, budget: Duration) -> Option<Minimised> {
    let t0 = Instant::now();
    let mut trials = 0u64;
    let mut try_list = |list: &[u32], trials: &mut u64| -> Option<CaseResult> {
        *trials += 1;
        let r = run_case(fam, tier, Choices::from_list(list.to_vec()), false);
        match &r.violation {
            Some(v) if v.class == class => Some(r),
            _ => None,
        }
    };
    // The starting list must reproduce under explicit replay.
    let mut best = start.clone();
    let mut best_res = try_list(&best, &mut trials)?;
    // What the run actually consumed is the canonical form.
    best = best_res.choices.clone();
    strip_trailing_zeros(&mut best);
    let out_of_time = |t0: &Instant| t0.elapsed() > budget;

    // 1. shortest prefix (everything after it zero)
    let (mut lo, mut hi) = (0usize, best.len());
    while lo < hi && !out_of_time(&t0) {
        let mid = (lo + hi) / 2;
        if let Some(r) = try_list(&best[..mid], &mut trials) {
            hi = mid;
            best_res = r;
        } else {
            lo = mid + 1;
        }
    }
    if hi < best.len() {
        if let Some(r) = try_list(&best[..hi], &mut trials) {
            best.truncate(hi);
            best_res = r;
        }
    }
    strip_trailing_zeros(&mut best);

    // 2. zero blocks, 3. delete blocks, 4. lower values — repeat while progress
    let mut progress = true;
    while progress && !out_of_time(&t0) {
        progress = false;
        let mut size = (best.len() / 2).max(1);
        loop {
            let mut i = 0;
            while i < best.len() && !out_of_time(&t0) {
                let end = (i + size).min(best.len());
                if best[i..end].iter().any(|&v| v != 0) {
                    let mut cand = best.clone();
                    for v in &mut cand[i..end] {
                        *v = 0;
                    }
                    if let Some(r) = try_list(&cand, &mut trials) {
                        best = cand;
                        best_res = r;
                        progress = true;
                    }
                }
                i = end;
            }
            if size == 1 {
                break;
            }
            size /= 2;
        }
        strip_trailing_zeros(&mut best);
        let mut size = (best.len() / 2).max(1);
        loop {
            let mut i = 0;
            while i < best.len() && !out_of_time(&t0) {
                let end = (i + size).min(best.len());
                let mut cand = best.clone();
                cand.drain(i..end);
                if let Some(r) = try_list(&cand, &mut trials) {
                    best = cand;
                    best_res = r;
                    progress = true;
                } else {
                    i = end;
                }
            }
            if size == 1 {
                break;
            }
            size /= 2;
        }
        let mut i = 0;
        while i < best.len() && !out_of_time(&t0) {
            let v = best[i];
            if v > 0 {
                for cand_v in [v / 2, v - 1] {
                    if cand_v >= v {
                        continue;
                    }
                    let mut cand = best.clone();
                    cand[i] = cand_v;
                    if let Some(r) = try_list(&cand, &mut trials) {
                        best = cand;
                        best_res = r;
                        progress = true;
                        break;
                    }
                }
            }
            i += 1;
        }
        strip_trailing_zeros(&mut best);
    }
    // Final canonical run of the minimised list.
    if let Some(r) = try_list(&best, &mut trials) {
        best_res = r;
    }
    Some(Minimised { choices: best, result: best_res, trials })
}
