//! Case/family plumbing: a *family* is one scenario generator; a *case* is one run of
//! it, fully determined by its choice list (drawn from a seed, or replayed).

use serde_json::{Value, json};
use simkernel::kernel::{Limits, Outcome, RunReport, RunSetup};
use simkernel::rng::{Choices, splitmix64};
use std::collections::BTreeMap;
use std::sync::{Arc, Mutex};

#[derive(Clone, Copy, PartialEq, Eq, Debug)]
pub enum Tier {
    Quick,
    Thorough,
}

#[derive(Clone, Debug, PartialEq, Eq)]
pub struct Violation {
    pub class: String,
    pub detail: String,
}

#[derive(Default)]
pub struct CaseState {
    pub violation: Option<Violation>,
    pub nontrivial: bool,
    pub sample: Option<Value>,
    pub probes: BTreeMap<String, u64>,
    pub progress: Option<(u64, u64)>,
    pub harness_error: Option<String>,
    /// coverage keys "dimension:value" (distinct values per dimension are counted across runs)
    pub cover: std::collections::BTreeSet<String>,
}

/// Handle a scenario uses to report what it saw. Cloneable across simulated threads;
/// its lock is a plain std mutex (never a scheduling point).
#[derive(Clone)]
pub struct Case {
    pub tier: Tier,
    st: Arc<Mutex<CaseState>>,
}

impl Case {
    pub fn new(tier: Tier) -> Self {
        Case { tier, st: Arc::new(Mutex::new(CaseState::default())) }
    }
    pub fn fail(&self, class: &str, detail: impl Into<String>) {
        let mut st = self.st.lock().unwrap();
        if st.violation.is_none() {
            let detail = detail.into();
            st.violation = Some(Violation { class: class.to_string(), detail: detail.clone() });
            drop(st);
            simkernel::event(|| format!("VIOLATION {class}: {detail}"));
        }
    }
    pub fn failed(&self) -> bool {
        self.st.lock().unwrap().violation.is_some()
    }
    pub fn check(&self, cond: bool, class: &str, detail: impl FnOnce() -> String) -> bool {
        if !cond {
            self.fail(class, detail());
        }
        cond
    }
    pub fn nontrivial(&self) {
        self.st.lock().unwrap().nontrivial = true;
    }
    pub fn sample(&self, v: Value) {
        self.st.lock().unwrap().sample = Some(v);
    }
    pub fn probe(&self, name: &str) {
        *self.st.lock().unwrap().probes.entry(name.to_string()).or_insert(0) += 1;
    }
    pub fn probe_by(&self, name: &str, n: u64) {
        *self.st.lock().unwrap().probes.entry(name.to_string()).or_insert(0) += n;
    }
    /// Record that this run exercised `value` of coverage dimension `dim`.
    pub fn cover(&self, dim: &str, value: impl std::fmt::Display) {
        self.st.lock().unwrap().cover.insert(format!("{dim}:{value}"));
    }
    pub fn progress(&self, done: u64, total: u64) {
        self.st.lock().unwrap().progress = Some((done, total));
    }
    pub fn harness_error(&self, msg: impl Into<String>) {
        let mut st = self.st.lock().unwrap();
        if st.harness_error.is_none() {
            st.harness_error = Some(msg.into());
        }
    }
    pub fn take(&self) -> CaseState {
        std::mem::take(&mut *self.st.lock().unwrap())
    }
}

#[derive(Clone, Copy, PartialEq, Eq)]
pub enum OnDeadlock {
    /// A deadlock / unresolved wait is itself the property violation (`hang`).
    Violation,
    /// The scenario is not about liveness; a deadlock means the harness is wrong.
    HarnessError,
}

pub struct Family {
    pub name: &'static str,
    pub property: &'static str,
    pub about: &'static str,
    pub quick_runs: u64,
    pub thorough_runs: u64,
    pub run: fn(&Case),
    pub max_steps: u64,
    pub on_deadlock: OnDeadlock,
    /// Unexpected panics in any simulated thread are violations of this class.
    pub panic_class: &'static str,
    /// Runs under RLIMIT_AS and attributes a worker death to the running case.
    pub abort_is_violation: bool,
    /// The case body builds a tokio runtime (clock owned by tokio).
    pub external_clock: bool,
}

impl Family {
    pub const fn new(name: &'static str, property: &'static str, about: &'static str, run: fn(&Case)) -> Family {
        Family {
            name,
            property,
            about,
            quick_runs: 2_000,
            thorough_runs: 50_000,
            run,
            max_steps: 400_000,
            on_deadlock: OnDeadlock::Violation,
            panic_class: "panic",
            abort_is_violation: false,
            external_clock: false,
        }
    }
    pub const fn runs(mut self, quick: u64, thorough: u64) -> Family {
        self.quick_runs = quick;
        self.thorough_runs = thorough;
        self
    }
    pub const fn steps(mut self, n: u64) -> Family {
        self.max_steps = n;
        self
    }
    pub const fn deadlock(mut self, d: OnDeadlock) -> Family {
        self.on_deadlock = d;
        self
    }
    pub const fn aborts(mut self) -> Family {
        self.abort_is_violation = true;
        self
    }
    pub const fn tokio(mut self) -> Family {
        self.external_clock = true;
        self
    }
}

pub fn family_hash(name: &str) -> u64 {
    let mut h: u64 = 0xcbf2_9ce4_8422_2325;
    for b in name.bytes() {
        h ^= b as u64;
        h = h.wrapping_mul(0x0000_0100_0000_01B3);
    }
    h
}

pub fn run_seed(verif_seed: u64, family: &str, index: u64) -> u64 {
    let mut x = verif_seed ^ family_hash(family).rotate_left(17) ^ index.wrapping_mul(0x9E37_79B9_7F4A_7C15);
    splitmix64(&mut x)
}

#[derive(Debug, Clone)]
pub struct CaseResult {
    pub violation: Option<Violation>,
    pub harness_error: Option<String>,
    pub nontrivial: bool,
    pub sample: Option<Value>,
    pub probes: BTreeMap<String, u64>,
    pub counters: BTreeMap<String, u64>,
    pub progress: Option<(u64, u64)>,
    pub cover: Vec<String>,
    pub hash: u64,
    pub steps: u64,
    pub switches: u64,
    pub sim_ns: u64,
    pub threads: usize,
    pub leaked: usize,
    pub choices: Vec<u32>,
    pub trace: Vec<String>,
}

/// Execute one case of `fam` from `choices` under a fresh kernel.
pub fn run_case(fam: &Family, tier: Tier, choices: Choices, trace: bool) -> CaseResult {
    let case = Case::new(tier);
    let case2 = case.clone();
    let f = fam.run;
    let limits = Limits { max_steps: fam.max_steps, trace, ..Limits::default() };
    let report: RunReport = simkernel::run(
        RunSetup { choices, limits, external_clock: fam.external_clock },
        move || f(&case2),
    );
    let st = case.take();
    let mut violation = st.violation;
    let mut harness_error = st.harness_error;
    if violation.is_none() && !report.panics.is_empty() {
        violation = Some(Violation { class: fam.panic_class.to_string(), detail: report.panics.join(" | ") });
    }
    if violation.is_none() && fam.external_clock && !report.hook_panics.is_empty() {
        // tokio catches panics of spawned tasks; the panic hook journal sees them all
        violation = Some(Violation { class: fam.panic_class.to_string(), detail: format!("(caught by the runtime) {}", report.hook_panics.join(" | ")) });
    }
    match &report.outcome {
        Outcome::Completed => {}
        Outcome::Deadlock(who) => {
            let detail = format!("nothing runnable, no deadline pending: {}", who.join("; "));
            match fam.on_deadlock {
                OnDeadlock::Violation => {
                    if violation.is_none() {
                        violation = Some(Violation { class: "hang".into(), detail });
                    }
                }
                OnDeadlock::HarnessError => {
                    if violation.is_none() && harness_error.is_none() {
                        harness_error = Some(format!("deadlock: {detail}"));
                    }
                }
            }
        }
        Outcome::StepLimit => {
            if violation.is_none() && harness_error.is_none() {
                harness_error = Some(format!("step limit {} reached", fam.max_steps));
            }
        }
        Outcome::TimeLimit => {
            if violation.is_none() && harness_error.is_none() {
                harness_error = Some("simulated time limit reached".into());
            }
        }
        Outcome::WallTimeout => {
            if harness_error.is_none() {
                harness_error = Some("wall-clock watchdog expired".into());
            }
        }
    }
    CaseResult {
        violation,
        harness_error,
        nontrivial: st.nontrivial,
        sample: st.sample,
        probes: st.probes,
        counters: report.counters,
        progress: st.progress,
        cover: st.cover.into_iter().collect(),
        hash: report.hash,
        steps: report.steps,
        switches: report.switches,
        sim_ns: report.sim_ns,
        threads: report.threads,
        leaked: report.leaked,
        choices: report.choices,
        trace: report.trace,
    }
}

pub fn result_line(seed: u64, index: u64, r: &CaseResult) -> Value {
    json!({
        "seed": seed,
        "index": index,
        "hash": format!("{:016x}", r.hash),
        "steps": r.steps,
        "switches": r.switches,
        "sim_ns": r.sim_ns,
        "threads": r.threads,
        "leaked": r.leaked,
        "nontrivial": r.nontrivial,
        "violation": r.violation.as_ref().map(|v| json!({"class": v.class, "detail": v.detail})),
        "harness_error": r.harness_error,
        "probes": r.probes,
        "counters": r.counters,
        "progress": r.progress.map(|(a, b)| json!([a, b])),
        "sample": r.sample,
        "cover": r.cover,
        "choices_len": r.choices.len(),
    })
}

// ------------------------------------------------------------------ draw helpers

pub fn pick<T: Copy>(xs: &[T]) -> T {
    xs[simkernel::choose(xs.len() as u32) as usize]
}
pub fn range(lo: u32, hi_inclusive: u32) -> u32 {
    lo + simkernel::choose(hi_inclusive - lo + 1)
}
pub fn coin() -> bool {
    simkernel::choose(2) == 1
}
pub fn bytes(len: usize) -> Vec<u8> {
    (0..len).map(|_| simkernel::choose(256) as u8).collect()
}
/// 64-bit value from boundary classes.
pub fn u64_boundary() -> u64 {
    match simkernel::choose(12) {
        0 => 0,
        1 => 1,
        2 => simkernel::choose(256) as u64,
        3 => u32::MAX as u64,
        4 => (u32::MAX as u64) + 1,
        5 => 1u64 << 31,
        6 => 1u64 << 62,
        7 => 1u64 << 63,
        8 => u64::MAX,
        9 => u64::MAX - simkernel::choose(64) as u64,
        10 => (1u64 << 63) - 1,
        _ => ((simkernel::choose(1 << 31) as u64) << 33) | ((simkernel::choose(1 << 31) as u64) << 2) | simkernel::choose(4) as u64,
    }
}
