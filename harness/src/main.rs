#![allow(dead_code, unused_assignments, unused_mut)]
//! simcheck: seeded deterministic-simulation checks for repe-rs. See /verif/DESIGN.md.

mod codec;
mod families;
mod framework;
mod lin;
mod minimise;
mod props;
mod util;

use framework::{CaseResult, Family, Tier, Violation, result_line, run_case, run_seed};
use serde_json::{Value, json};
use simkernel::rng::Choices;
use std::collections::{BTreeMap, BTreeSet};
use std::io::{BufRead, BufReader, Write};
use std::process::{Command, Stdio};
use std::time::{Duration, Instant};

/// Where known_findings.json, evidence/ and replays/ live (the directory of `check`).
fn verif_dir() -> String {
    std::env::var("SIMCHECK_DIR").unwrap_or_else(|_| "/verif".to_string())
}

fn find_family(name: &str) -> &'static Family {
    families::all()
        .iter()
        .find(|f| f.name == name)
        .unwrap_or_else(|| die(&format!("unknown family {name}")))
}

fn die(msg: &str) -> ! {
    eprintln!("simcheck: {msg}");
    std::process::exit(2)
}

fn parse_tier(s: &str) -> Tier {
    match s {
        "quick" => Tier::Quick,
        "thorough" => Tier::Thorough,
        _ => die("tier must be quick|thorough"),
    }
}
fn tier_str(t: Tier) -> &'static str {
    match t {
        Tier::Quick => "quick",
        Tier::Thorough => "thorough",
    }
}

fn arg_val(args: &[String], name: &str) -> Option<String> {
    args.iter().position(|a| a == name).and_then(|i| args.get(i + 1).cloned())
}

fn main() {
    let args: Vec<String> = std::env::args().collect();
    if args.len() < 2 {
        die("usage: simcheck check <PROP> [--tier T] | worker ... | replay <file> | selfcheck | list");
    }
    match args[1].as_str() {
        "list" => {
            for f in families::all() {
                println!("{} {} q={} t={} : {}", f.property, f.name, f.quick_runs, f.thorough_runs, f.about);
            }
        }
        "worker" => worker(&args[2..]),
        "check" => {
            let code = check(&args[2..]);
            std::process::exit(code);
        }
        "replay" => {
            let code = replay(&args[2..]);
            std::process::exit(code);
        }
        "replay-inner" => replay_inner(&args[2..]),
        "minimise" => minimise_cmd(&args[2..]),
        "selfcheck" => {
            let code = selfcheck(&args[2..]);
            std::process::exit(code);
        }
        "one" => one(&args[2..]),
        _ => die("unknown subcommand"),
    }
}

fn set_rlimit_as(bytes: u64) {
    if std::env::var("SIMCHECK_NO_RLIMIT").is_ok() {
        return;
    }
    unsafe {
        let lim = libc::rlimit { rlim_cur: bytes, rlim_max: bytes };
        libc::setrlimit(libc::RLIMIT_AS, &lim);
    }
}

fn quiet_stderr() {
    // The repository chatters on stderr (eprintln!). Keep workers quiet unless asked.
    if std::env::var("SIMCHECK_STDERR").is_err() {
        unsafe {
            let devnull = libc::open(c"/dev/null".as_ptr(), libc::O_WRONLY);
            if devnull >= 0 {
                libc::dup2(devnull, 2);
            }
        }
    }
}

// ------------------------------------------------------------------ worker

fn worker(args: &[String]) {
    let fam = find_family(&args[0]);
    let tier = parse_tier(&arg_val(args, "--tier").unwrap_or("quick".into()));
    let vseed: u64 = arg_val(args, "--seed").and_then(|s| s.parse().ok()).unwrap_or(1);
    let start: u64 = arg_val(args, "--start").and_then(|s| s.parse().ok()).unwrap_or(0);
    let end: u64 = arg_val(args, "--end").and_then(|s| s.parse().ok()).unwrap_or(1);
    let stride: u64 = arg_val(args, "--stride").and_then(|s| s.parse().ok()).unwrap_or(1);
    quiet_stderr();
    if fam.abort_is_violation {
        set_rlimit_as(3 << 30);
    }
    let out = std::io::stdout();
    let mut leaked = 0usize;
    let mut i = start;
    while i < end {
        let seed = run_seed(vseed, fam.name, i);
        {
            let mut o = out.lock();
            writeln!(o, "S {i}").ok();
            o.flush().ok();
        }
        let r = run_case(fam, tier, Choices::from_seed(seed), false);
        leaked += r.leaked;
        {
            let mut o = out.lock();
            writeln!(o, "R {}", result_line(seed, i, &r)).ok();
            o.flush().ok();
        }
        i += stride;
        if leaked > 400 {
            // too many parked threads: ask the parent for a fresh process
            let mut o = out.lock();
            writeln!(o, "N {i}").ok();
            o.flush().ok();
            std::process::exit(0);
        }
    }
    std::process::exit(0);
}

// ------------------------------------------------------------------ aggregation

#[derive(Default)]
struct FamAgg {
    evaluations: u64,
    nontrivial: u64,
    distinct_hashes: std::collections::HashSet<u64>,
    probes: BTreeMap<String, u64>,
    counters: BTreeMap<String, u64>,
    sim_ns: u128,
    steps: u64,
    switches: u64,
    samples: Vec<Value>,
    violations: Vec<(u64, u64, Violation)>, // (index, seed, violation), capped
    violating_runs: u64,
    harness_errors: Vec<(u64, u64, String)>,
    hashes_by_index: BTreeMap<u64, String>,
    progress_done: u64,
    progress_total: u64,
    max_threads: u64,
    wall_s: f64,
    cover: BTreeMap<String, BTreeSet<String>>,
}

fn absorb(agg: &mut FamAgg, v: &Value, keep_hash_below: u64) {
    agg.evaluations += 1;
    let idx = v["index"].as_u64().unwrap_or(0);
    let seed = v["seed"].as_u64().unwrap_or(0);
    let hash = v["hash"].as_str().unwrap_or("").to_string();
    if v["nontrivial"].as_bool().unwrap_or(false) {
        agg.nontrivial += 1;
        agg.distinct_hashes.insert(u64::from_str_radix(&hash, 16).unwrap_or(0));
    }
    if idx < keep_hash_below {
        agg.hashes_by_index.insert(idx, hash);
    }
    if let Some(m) = v["probes"].as_object() {
        for (k, n) in m {
            *agg.probes.entry(k.clone()).or_insert(0) += n.as_u64().unwrap_or(0);
        }
    }
    if let Some(m) = v["counters"].as_object() {
        for (k, n) in m {
            *agg.counters.entry(k.clone()).or_insert(0) += n.as_u64().unwrap_or(0);
        }
    }
    agg.sim_ns += v["sim_ns"].as_u64().unwrap_or(0) as u128;
    agg.steps += v["steps"].as_u64().unwrap_or(0);
    agg.switches += v["switches"].as_u64().unwrap_or(0);
    agg.max_threads = agg.max_threads.max(v["threads"].as_u64().unwrap_or(0));
    if let Some(c) = v["cover"].as_array() {
        for k in c {
            if let Some((dim, val)) = k.as_str().and_then(|s| s.split_once(':')) {
                agg.cover.entry(dim.to_string()).or_default().insert(val.to_string());
            }
        }
    }
    if let Some(p) = v["progress"].as_array() {
        agg.progress_done += p[0].as_u64().unwrap_or(0);
        agg.progress_total += p[1].as_u64().unwrap_or(0);
    }
    if agg.samples.len() < 3 && !v["sample"].is_null() && v["nontrivial"].as_bool().unwrap_or(false) {
        agg.samples.push(json!({"index": idx, "seed": seed, "case": v["sample"].clone()}));
    }
    if let Some(viol) = v["violation"].as_object() {
        agg.violating_runs += 1;
    }
    if let Some(viol) = v["violation"].as_object()
        && agg.violations.len() < 100_000
    {
        agg.violations.push((
            idx,
            seed,
            Violation {
                class: viol["class"].as_str().unwrap_or("").to_string(),
                detail: viol["detail"].as_str().unwrap_or("").to_string(),
            },
        ));
    }
    if let Some(e) = v["harness_error"].as_str() {
        agg.harness_errors.push((idx, seed, e.to_string()));
    }
}

fn self_exe() -> std::path::PathBuf {
    std::env::current_exe().expect("current_exe")
}

/// Run indices `start, start+stride, ..` `< end` in one worker process (restarting it
/// when it asks, or when it dies). Returns the result lines.
fn drive_worker(
    fam: &Family,
    tier: Tier,
    vseed: u64,
    start: u64,
    end: u64,
    stride: u64,
    deadline: Instant,
    sink: &mut dyn FnMut(Value),
) -> Vec<String> {
    let mut errors = Vec::new();
    let mut next = start;
    while next < end {
        if Instant::now() > deadline {
            errors.push(format!("batch wall-clock budget exhausted at index {next}"));
            break;
        }
        let mut child = Command::new(self_exe())
            .args([
                "worker",
                fam.name,
                "--tier",
                tier_str(tier),
                "--seed",
                &vseed.to_string(),
                "--start",
                &next.to_string(),
                "--end",
                &end.to_string(),
                "--stride",
                &stride.to_string(),
            ])
            .stdout(Stdio::piped())
            .stdin(Stdio::null())
            .spawn()
            .expect("spawn worker");
        let stdout = child.stdout.take().unwrap();
        let mut started: Option<u64> = None;
        let mut restart_at: Option<u64> = None;
        // A worker that says nothing for ten minutes of wall-clock time is frozen for real (for
        // instance on a lock outside the simulator's seam taken by code under test): it is
        // killed, which surfaces as a harness error for the case it was running - never a verdict.
        let last_line = std::sync::Arc::new(std::sync::Mutex::new(Instant::now()));
        let done = std::sync::Arc::new(std::sync::atomic::AtomicBool::new(false));
        {
            let (last_line, done, pid) = (last_line.clone(), done.clone(), child.id() as i32);
            std::thread::spawn(move || {
                while !done.load(std::sync::atomic::Ordering::SeqCst) {
                    std::thread::sleep(Duration::from_secs(5));
                    if last_line.lock().unwrap().elapsed() > Duration::from_secs(600) && !done.load(std::sync::atomic::Ordering::SeqCst) {
                        unsafe {
                            libc::kill(pid, libc::SIGKILL);
                        }
                        return;
                    }
                }
            });
        }
        for line in BufReader::new(stdout).lines() {
            let Ok(line) = line else { break };
            *last_line.lock().unwrap() = Instant::now();
            if let Some(rest) = line.strip_prefix("S ") {
                started = rest.trim().parse().ok();
            } else if let Some(rest) = line.strip_prefix("R ") {
                if let Ok(v) = serde_json::from_str::<Value>(rest) {
                    if let Some(i) = v["index"].as_u64() {
                        next = i + stride;
                    }
                    sink(v);
                }
                started = None;
            } else if let Some(rest) = line.strip_prefix("N ") {
                restart_at = rest.trim().parse().ok();
            }
        }
        let status = child.wait().expect("wait worker");
        done.store(true, std::sync::atomic::Ordering::SeqCst);
        if let Some(n) = restart_at {
            next = n;
            continue;
        }
        if !status.success() || started.is_some() {
            // died in the middle of a case
            if let Some(i) = started {
                let seed = run_seed(vseed, fam.name, i);
                use std::os::unix::process::ExitStatusExt;
                let how = match status.signal() {
                    Some(s) => format!("killed by signal {s}"),
                    None => format!("exit status {:?}", status.code()),
                };
                if fam.abort_is_violation {
                    sink(json!({
                        "seed": seed, "index": i, "hash": "aborted", "steps": 0, "switches": 0, "sim_ns": 0,
                        "threads": 0, "leaked": 0, "nontrivial": true,
                        "violation": {"class": "abort", "detail": format!("worker process {how} while running this case")},
                        "harness_error": null, "probes": {}, "counters": {}, "progress": null, "sample": null,
                        "choices_len": 0
                    }));
                } else {
                    errors.push(format!("worker {how} at index {i} (seed {seed})"));
                }
                next = i + stride;
            } else {
                errors.push(format!("worker failed: {status:?}"));
                break;
            }
        } else if started.is_none() && next < end && restart_at.is_none() {
            // clean exit: all done
            break;
        }
    }
    errors
}

fn run_family(fam: &Family, tier: Tier, vseed: u64, runs: u64, workers: u64, gate: u64) -> (FamAgg, Vec<String>) {
    let t0 = Instant::now();
    let wall_budget = match tier {
        Tier::Quick => Duration::from_secs(600),
        Tier::Thorough => Duration::from_secs(3 * 3600),
    };
    let deadline = t0 + wall_budget;
    let shared = std::sync::Arc::new(std::sync::Mutex::new(FamAgg::default()));
    let mut errors = Vec::new();
    let workers = workers.min(runs).max(1);
    let handles: Vec<_> = (0..workers)
        .map(|w| {
            let fam: &'static Family = find_family(fam.name);
            let shared = shared.clone();
            std::thread::spawn(move || {
                // results are folded into the aggregate as they arrive (a thorough run has millions)
                let mut sink = |v: Value| absorb(&mut shared.lock().unwrap(), &v, gate);
                drive_worker(fam, tier, vseed, w, runs, workers, deadline, &mut sink)
            })
        })
        .collect();
    for h in handles {
        errors.extend(h.join().expect("driver thread"));
    }
    let mut agg = std::mem::take(&mut *shared.lock().unwrap());
    // Determinism gate: re-run the first `gate` indices in one fresh process with a
    // different stride/worker layout and compare the event-log hashes.
    if gate > 0 && errors.is_empty() {
        let n = gate.min(runs);
        let mut res: Vec<Value> = Vec::new();
        let errs = drive_worker(fam, tier, vseed, 0, n, 1, deadline, &mut |v| res.push(v));
        errors.extend(errs);
        let mut mismatches = 0;
        for v in &res {
            let idx = v["index"].as_u64().unwrap_or(u64::MAX);
            let h = v["hash"].as_str().unwrap_or("");
            if let Some(prev) = agg.hashes_by_index.get(&idx)
                && prev != h
            {
                mismatches += 1;
                if mismatches <= 3 {
                    errors.push(format!(
                        "determinism gate: family {} index {idx} hashed {prev} then {h}",
                        fam.name
                    ));
                }
            }
        }
        agg.probes.insert("determinism_gate.double_run".into(), res.len() as u64);
        agg.probes.insert("determinism_gate.mismatches".into(), mismatches);
    }
    agg.wall_s = t0.elapsed().as_secs_f64();
    (agg, errors)
}

// ------------------------------------------------------------------ known findings

#[derive(Clone, Debug)]
struct Finding {
    status: String,
    property: String,
    family: String,
    class: String,
    contains: String,
    what: String,
}

fn load_findings() -> Vec<Finding> {
    let path = format!("{}/known_findings.json", verif_dir());
    let Ok(text) = std::fs::read_to_string(&path) else { return Vec::new() };
    let Ok(v) = serde_json::from_str::<Value>(&text) else {
        die("known_findings.json does not parse");
    };
    v["findings"]
        .as_array()
        .map(|a| {
            a.iter()
                .map(|f| Finding {
                    status: f["status"].as_str().unwrap_or("").into(),
                    property: f["property"].as_str().unwrap_or("").into(),
                    family: f["family"].as_str().unwrap_or("").into(),
                    class: f["class"].as_str().unwrap_or("").into(),
                    contains: f["detail_contains"].as_str().unwrap_or("").into(),
                    what: f["what"].as_str().unwrap_or("").into(),
                })
                .collect()
        })
        .unwrap_or_default()
}

fn matches_known(findings: &[Finding], prop: &str, fam: &str, v: &Violation) -> Option<Finding> {
    findings
        .iter()
        .find(|f| {
            f.status == "known"
                && f.property == prop
                && (f.family.is_empty() || f.family == fam)
                && f.class == v.class
                && (f.contains.is_empty() || v.detail.contains(&f.contains))
        })
        .cloned()
}

// ------------------------------------------------------------------ check

fn check(args: &[String]) -> i32 {
    let prop = args.first().cloned().unwrap_or_else(|| die("check <PROP>"));
    let tier = parse_tier(
        &arg_val(args, "--tier")
            .or_else(|| std::env::var("VERIF_TIER").ok())
            .unwrap_or("quick".into()),
    );
    let vseed: u64 = std::env::var("VERIF_SEED").ok().and_then(|s| s.parse().ok()).unwrap_or(1);
    let scale: f64 = std::env::var("SIMCHECK_SCALE").ok().and_then(|s| s.parse().ok()).unwrap_or(1.0);
    let only: Option<String> = arg_val(args, "--family");
    let fams: Vec<&'static Family> = families::all()
        .iter()
        .filter(|f| f.property == prop && only.as_ref().is_none_or(|o| o == f.name))
        .collect();
    if fams.is_empty() {
        die(&format!("no families registered for property {prop}"));
    }
    let workers = std::thread::available_parallelism().map(|n| n.get()).unwrap_or(4).min(16) as u64;
    let findings = load_findings();
    let t0 = Instant::now();
    let mut all_errors: Vec<String> = Vec::new();
    let mut fam_reports: Vec<(&'static Family, FamAgg)> = Vec::new();
    for fam in &fams {
        let runs = match tier {
            Tier::Quick => fam.quick_runs,
            Tier::Thorough => fam.thorough_runs,
        };
        let runs = ((runs as f64 * scale) as u64).max(1);
        let gate = match tier {
            Tier::Quick => 32,
            Tier::Thorough => 256,
        };
        eprintln!("[simcheck] {prop} family {} : {runs} runs ({})", fam.name, tier_str(tier));
        let (agg, errs) = run_family(fam, tier, vseed, runs, workers, gate);
        eprintln!(
            "[simcheck]   {} evaluations, {} nontrivial distinct, {} violations, {:.1}s",
            agg.evaluations,
            agg.distinct_hashes.len(),
            agg.violations.len(),
            agg.wall_s
        );
        all_errors.extend(errs);
        for (i, s, e) in &agg.harness_errors {
            if all_errors.len() < 20 {
                all_errors.push(format!("family {} index {i} seed {s}: {e}", fam.name));
            }
        }
        fam_reports.push((fam, agg));
    }

    // Violations: one minimised replay per (family, class).
    let mut violation_lines: Vec<String> = Vec::new();
    let mut known_lines: Vec<String> = Vec::new();
    let mut n_unlisted = 0u64;
    let mut n_known = 0u64;
    for (fam, agg) in &fam_reports {
        let mut by_class: BTreeMap<String, Vec<&(u64, u64, Violation)>> = BTreeMap::new();
        for v in &agg.violations {
            by_class.entry(v.2.class.clone()).or_default().push(v);
        }
        for (class, list) in by_class {
            // split into known / unlisted
            let mut unlisted: Vec<&(u64, u64, Violation)> = Vec::new();
            let mut known_hit: BTreeMap<String, u64> = BTreeMap::new();
            for v in &list {
                match matches_known(&findings, &prop, fam.name, &v.2) {
                    Some(f) => {
                        *known_hit.entry(f.what.clone()).or_insert(0) += 1;
                        n_known += 1;
                    }
                    None => unlisted.push(v),
                }
            }
            for (what, n) in known_hit {
                known_lines.push(format!("KNOWN-FINDING: property={prop} {what} (family {} class {class}, {n} runs)", fam.name));
            }
            if unlisted.is_empty() {
                continue;
            }
            n_unlisted += unlisted.len() as u64;
            unlisted.sort_by_key(|v| v.0);
            let first = unlisted[0];
            let replay_path = make_replay(fam, tier, vseed, first.0, first.1, &first.2, &mut all_errors);
            violation_lines.push(format!(
                "VIOLATION property={prop} replay={replay_path} family={} class={class} runs={} first_index={} detail={}",
                fam.name,
                unlisted.len(),
                first.0,
                first.2.detail.replace('\n', " ")
            ));
        }
    }

    let wall = t0.elapsed().as_secs_f64();
    write_evidence(&prop, tier, vseed, &fam_reports, wall, n_unlisted, n_known, &all_errors);

    for l in &known_lines {
        println!("{l}");
    }
    for l in &violation_lines {
        println!("{l}");
    }
    if !violation_lines.is_empty() {
        return 1;
    }
    if !all_errors.is_empty() {
        for e in all_errors.iter().take(20) {
            println!("HARNESS-ERROR property={prop} {e}");
        }
        return 2;
    }
    let total: u64 = fam_reports.iter().map(|(_, a)| a.evaluations).sum();
    println!("OK property={prop} tier={} seed={vseed} evaluations={total} wall_s={wall:.1}", tier_str(tier));
    0
}

fn make_replay(
    fam: &Family,
    tier: Tier,
    vseed: u64,
    index: u64,
    seed: u64,
    v: &Violation,
    errors: &mut Vec<String>,
) -> String {
    let dir = format!("{}/replays", verif_dir());
    std::fs::create_dir_all(&dir).ok();
    let path = format!("{dir}/{}-{}-{:016x}.json", fam.property, fam.name, seed);
    // Minimise in a child process (isolates leaked threads and aborts).
    let out = Command::new(self_exe())
        .args(["minimise", fam.name, "--tier", tier_str(tier), "--case-seed", &seed.to_string(), "--class", &v.class, "--out", &path])
        .stdin(Stdio::null())
        .output();
    let minimised_ok = matches!(&out, Ok(o) if o.status.success()) && std::path::Path::new(&path).exists();
    if !minimised_ok {
        // Fall back to a seed-only replay file.
        let doc = json!({
            "property": fam.property, "family": fam.name, "tier": tier_str(tier), "verif_seed": vseed,
            "index": index, "case_seed": seed, "choices": null,
            "expect": {"class": v.class, "detail": v.detail}, "minimised": false
        });
        std::fs::write(&path, serde_json::to_string_pretty(&doc).unwrap()).ok();
    }
    // The replay must reproduce in a fresh process.
    let st = Command::new(self_exe()).args(["replay", &path]).stdin(Stdio::null()).stdout(Stdio::null()).status();
    match st {
        Ok(s) if s.code() == Some(1) => {}
        other => errors.push(format!("replay of {path} did not reproduce: {other:?}")),
    }
    path
}

fn minimise_cmd(args: &[String]) {
    let fam = find_family(&args[0]);
    let tier = parse_tier(&arg_val(args, "--tier").unwrap_or("quick".into()));
    let seed: u64 = arg_val(args, "--case-seed").and_then(|s| s.parse().ok()).unwrap_or_else(|| die("--case-seed"));
    let class = arg_val(args, "--class").unwrap_or_else(|| die("--class"));
    let out = arg_val(args, "--out").unwrap_or_else(|| die("--out"));
    quiet_stderr();
    if fam.abort_is_violation {
        // An aborting case cannot be minimised in-process; the caller falls back to seed replay.
        if class == "abort" {
            std::process::exit(3);
        }
        set_rlimit_as(3 << 30);
    }
    let first = run_case(fam, tier, Choices::from_seed(seed), false);
    let Some(v0) = first.violation.clone() else { std::process::exit(3) };
    if v0.class != class {
        std::process::exit(3);
    }
    let budget = Duration::from_secs(std::env::var("SIMCHECK_MIN_S").ok().and_then(|s| s.parse().ok()).unwrap_or(25));
    let Some(m) = minimise::minimise(fam, tier, first.choices.clone(), &class, budget) else {
        std::process::exit(3);
    };
    let v = m.result.violation.clone().unwrap();
    let doc = json!({
        "property": fam.property, "family": fam.name, "tier": tier_str(tier),
        "case_seed": seed,
        "choices": m.choices,
        "original_choices_len": first.choices.len(),
        "minimise_trials": m.trials,
        "expect": {"class": v.class, "detail": v.detail, "hash": format!("{:016x}", m.result.hash)},
        "minimised": true,
        "sample": m.result.sample,
    });
    std::fs::write(&out, serde_json::to_string_pretty(&doc).unwrap()).expect("write replay");
    std::process::exit(0);
}

/// `replay <file>`: exit 1 + VIOLATION line if the recorded violation reproduces,
/// exit 0 if the case now passes, exit 2 on harness trouble.
fn replay(args: &[String]) -> i32 {
    let path = args.first().cloned().unwrap_or_else(|| die("replay <file>"));
    let verbose = args.iter().any(|a| a == "--trace");
    let mut cmd = Command::new(self_exe());
    cmd.args(["replay-inner", &path]);
    if verbose {
        cmd.arg("--trace");
    }
    let out = cmd.stdin(Stdio::null()).output().expect("spawn replay-inner");
    let text = String::from_utf8_lossy(&out.stdout).to_string();
    print!("{text}");
    use std::os::unix::process::ExitStatusExt;
    if let Some(sig) = out.status.signal() {
        // an aborting case
        let doc: Value = serde_json::from_str(&std::fs::read_to_string(&path).unwrap_or_default()).unwrap_or(Value::Null);
        if doc["expect"]["class"] == "abort" {
            println!(
                "VIOLATION property={} replay={path} class=abort detail=process killed by signal {sig}",
                doc["property"].as_str().unwrap_or("?")
            );
            return 1;
        }
        println!("HARNESS-ERROR replay process killed by signal {sig}");
        return 2;
    }
    out.status.code().unwrap_or(2)
}

fn replay_inner(args: &[String]) {
    let path = &args[0];
    let trace = args.iter().any(|a| a == "--trace");
    let doc: Value = serde_json::from_str(&std::fs::read_to_string(path).unwrap_or_else(|_| die("cannot read replay file")))
        .unwrap_or_else(|_| die("replay file does not parse"));
    let fam = find_family(doc["family"].as_str().unwrap_or(""));
    let tier = parse_tier(doc["tier"].as_str().unwrap_or("quick"));
    if std::env::var("SIMCHECK_STDERR").is_err() && !trace {
        quiet_stderr();
    }
    if fam.abort_is_violation {
        set_rlimit_as(3 << 30);
    }
    let choices = match doc["choices"].as_array() {
        Some(a) => Choices::from_list(a.iter().map(|v| v.as_u64().unwrap_or(0) as u32).collect()),
        None => Choices::from_seed(doc["case_seed"].as_u64().unwrap_or(0)),
    };
    let r = run_case(fam, tier, choices, trace);
    if trace {
        for l in &r.trace {
            println!("{l}");
        }
    }
    let expect_class = doc["expect"]["class"].as_str().unwrap_or("");
    match &r.violation {
        Some(v) => {
            println!(
                "VIOLATION property={} replay={path} family={} class={} detail={}",
                fam.property,
                fam.name,
                v.class,
                v.detail.replace('\n', " ")
            );
            if v.class != expect_class {
                println!("NOTE: recorded class was {expect_class}");
            }
            if let Some(h) = doc["expect"]["hash"].as_str() {
                let got = format!("{:016x}", r.hash);
                if h != got {
                    println!("NOTE: event-log hash differs from the recorded one ({h} vs {got})");
                }
            }
            std::process::exit(1);
        }
        None => {
            if let Some(e) = &r.harness_error {
                println!("HARNESS-ERROR {e}");
                std::process::exit(2);
            }
            println!("PASS replay={path} (recorded violation class {expect_class} does not occur on this tree)");
            std::process::exit(0);
        }
    }
}

/// `one <family> <index> [--tier T] [--trace]`: run a single case in-process (debugging).
fn one(args: &[String]) {
    let fam = find_family(&args[0]);
    let idx: u64 = args.get(1).and_then(|s| s.parse().ok()).unwrap_or(0);
    let tier = parse_tier(&arg_val(args, "--tier").unwrap_or("quick".into()));
    let vseed: u64 = std::env::var("VERIF_SEED").ok().and_then(|s| s.parse().ok()).unwrap_or(1);
    let trace = args.iter().any(|a| a == "--trace");
    // --pre k: run index k first in the same process (hunting state carried between runs)
    if let Some(pre) = arg_val(args, "--pre").and_then(|s| s.parse::<u64>().ok()) {
        let _ = run_case(fam, tier, Choices::from_seed(run_seed(vseed, fam.name, pre)), false);
    }
    let seed = run_seed(vseed, fam.name, idx);
    let r = run_case(fam, tier, Choices::from_seed(seed), trace);
    for l in &r.trace {
        println!("{l}");
    }
    println!("{}", serde_json::to_string_pretty(&result_line(seed, idx, &r)).unwrap());
    std::process::exit(0);
}

// ------------------------------------------------------------------ selfcheck

/// Determinism proof: every family, many seeds, each run twice in different worker
/// processes at two worker counts; hashes must agree.
fn selfcheck(args: &[String]) -> i32 {
    let n: u64 = arg_val(args, "--runs").and_then(|s| s.parse().ok()).unwrap_or(2000);
    let only = arg_val(args, "--family");
    let prop = arg_val(args, "--property");
    let vseed: u64 = std::env::var("VERIF_SEED").ok().and_then(|s| s.parse().ok()).unwrap_or(1);
    let mut bad = 0u64;
    let mut total = 0u64;
    for fam in families::all() {
        if only.as_ref().is_some_and(|o| o != fam.name) || prop.as_ref().is_some_and(|p| p != fam.property) {
            continue;
        }
        let runs = n.min(fam.thorough_runs);
        let deadline = Instant::now() + Duration::from_secs(3600);
        let collect = |workers: u64| -> BTreeMap<u64, String> {
            let hs: Vec<_> = (0..workers)
                .map(|w| {
                    let fam: &'static Family = find_family(fam.name);
                    std::thread::spawn(move || {
                        let mut m: Vec<(u64, String)> = Vec::new();
                        drive_worker(fam, Tier::Quick, vseed, w, runs, workers, deadline, &mut |v: Value| {
                            m.push((v["index"].as_u64().unwrap_or(0), v["hash"].as_str().unwrap_or("").to_string()))
                        });
                        m
                    })
                })
                .collect();
            let mut m = BTreeMap::new();
            for h in hs {
                for (i, hash) in h.join().unwrap() {
                    m.insert(i, hash);
                }
            }
            m
        };
        let a = collect(16);
        let b = collect(4);
        let mut mism = 0;
        for (i, h) in &a {
            total += 1;
            if b.get(i) != Some(h) {
                mism += 1;
                if mism <= 3 {
                    println!("MISMATCH family={} index={i} {h} vs {:?}", fam.name, b.get(i));
                }
            }
        }
        println!("selfcheck family={} runs={} mismatches={mism}", fam.name, a.len());
        bad += mism;
    }
    println!("selfcheck total={total} mismatches={bad}");
    if bad > 0 { 2 } else { 0 }
}

// ------------------------------------------------------------------ evidence

#[allow(clippy::too_many_arguments)]
fn write_evidence(
    prop: &str,
    tier: Tier,
    vseed: u64,
    fams: &[(&'static Family, FamAgg)],
    wall: f64,
    violations: u64,
    known: u64,
    errors: &[String],
) {
    let meta = props::meta(prop);
    let evaluations: u64 = fams.iter().map(|(_, a)| a.evaluations).sum();
    let distinct: u64 = fams.iter().map(|(_, a)| a.distinct_hashes.len() as u64).sum();
    let sim_ns: u128 = fams.iter().map(|(_, a)| a.sim_ns).sum();
    let mut samples: Vec<Value> = Vec::new();
    let mut per_family = Vec::new();
    let mut faults: BTreeMap<String, u64> = BTreeMap::new();
    let mut buggify: BTreeMap<String, u64> = BTreeMap::new();
    let mut probes: BTreeMap<String, u64> = BTreeMap::new();
    for (f, a) in fams {
        for s in a.samples.iter().take(2) {
            samples.push(json!({"family": f.name, "sample": s}));
        }
        for (k, v) in &a.counters {
            if let Some(name) = k.strip_prefix("buggify.") {
                *buggify.entry(name.to_string()).or_insert(0) += v;
            } else if let Some(name) = k.strip_prefix("fault.") {
                *faults.entry(name.to_string()).or_insert(0) += v;
            } else {
                *probes.entry(format!("{}:{k}", f.name)).or_insert(0) += v;
            }
        }
        for (k, v) in &a.probes {
            if let Some(name) = k.strip_prefix("fault.") {
                *faults.entry(name.to_string()).or_insert(0) += v;
            } else {
                *probes.entry(format!("{}:{k}", f.name)).or_insert(0) += v;
            }
        }
        per_family.push(json!({
            "family": f.name,
            "about": f.about,
            "evaluations": a.evaluations,
            "nontrivial": a.nontrivial,
            "distinct_nontrivial_event_log_hashes": a.distinct_hashes.len(),
            "scheduling_points": a.steps,
            "context_switches": a.switches,
            "sim_time_s": (a.sim_ns as f64) / 1e9,
            "max_threads_in_a_run": a.max_threads,
            "progress_fraction": if a.progress_total > 0 { Some(a.progress_done as f64 / a.progress_total as f64) } else { None },
            "violating_runs": a.violating_runs,
            "wall_s": a.wall_s,
            "distinct_values_covered": a.cover.iter().map(|(k, v)| (k.clone(), v.len())).collect::<BTreeMap<String, usize>>(),
        }));
    }
    let zero_probes: Vec<&str> = meta
        .expected_probes
        .iter()
        .copied()
        .filter(|p| !probes.iter().any(|(k, v)| k.ends_with(p) && *v > 0) && !faults.iter().any(|(k, v)| k == p && *v > 0))
        .collect();
    if samples.is_empty() {
        samples.push(json!({"note": "no sample recorded"}));
    }
    let doc = json!({
        "property_id": prop,
        "tier": tier_str(tier),
        "seed": vseed,
        "level": meta.level,
        "coverage": {
            "evaluations": evaluations,
            "distinct_nontrivial": distinct,
            "rule": meta.rule,
            "samples": samples,
            "runs_per_hour": if wall > 0.0 { (evaluations as f64 / wall * 3600.0) as u64 } else { 0 },
            "seeds": {"verif_seed": vseed, "derivation": "run_seed = splitmix64(VERIF_SEED ^ rotl(fnv(family),17) ^ index*phi); indices 0..runs per family"},
            "sim_time_covered_s": (sim_ns as f64) / 1e9,
            "faults_fired": faults,
            "buggify_fired": buggify,
            "probes": probes,
            "probes_stuck_at_zero": zero_probes,
            "families": per_family,
            "components": {"real": meta.real, "stub": meta.stub},
            "known_finding_runs": known,
            "harness_errors": errors,
        },
        "assumptions": meta.assumptions,
        "wall_s": wall,
        "violations": violations,
    });
    let dir = format!("{}/evidence", verif_dir());
    std::fs::create_dir_all(&dir).ok();
    let path = format!("{dir}/{prop}.json");
    std::fs::write(&path, serde_json::to_string_pretty(&doc).unwrap()).expect("write evidence");
}

#[allow(dead_code)]
fn _unused(_: &CaseResult) {}
