//! Per-property evidence metadata (level, the stated distinctness rule, what ran real
//! and what ran as a stub).

pub struct Meta {
    pub level: &'static str,
    pub rule: &'static str,
    pub real: &'static [&'static str],
    pub stub: &'static [&'static str],
    pub assumptions: &'static [&'static str],
    pub expected_probes: &'static [&'static str],
}

const RULE: &str = "Each evaluation is one simulated run fully determined by its choice list (drawn from run_seed): swarm configuration, workload, fault plan and every scheduling decision. A run is non-trivial when it interleaved at least two actors or fired at least one fault and reached the oracle; distinct = distinct event-log hashes (every scheduling choice, clock advance and oracle-visible event) among non-trivial runs.";

const STUB_KERNEL: &[&str] = &[
    "thread scheduler (simkernel baton, seeded)",
    "clock (discrete-event, simkernel)",
    "std::sync Mutex/Condvar/RwLock/mpsc in the hooked modules (simkernel wrappers over the std primitives)",
    "HashMap hasher (fixed keys)",
];

pub fn meta(prop: &str) -> Meta {
    match prop {
        "C11" | "C12" | "C13" => Meta {
            level: "exploration",
            rule: RULE,
            real: &["repe::stream::TransferControl (src/stream.rs, working tree)", "repe::peer::PeerHandle"],
            stub: STUB_KERNEL,
            assumptions: &[
                "simkernel's Condvar/Mutex semantics (notify wakes only registered waiters; spurious wake-ups allowed) match std's contract",
                "single producer per transfer, as documented",
            ],
            expected_probes: match prop {
                "C12" => &["waiter_woken_by_signal", "waiter_timed_out", "signal_undone_before_waiter_ran"],
                "C13" => &["resume_accepted", "resume_after_eviction", "resume_rejected"],
                _ => &["credit_granted", "credit_refused", "hostile_ack"],
            },
        },
        "C18" => Meta {
            level: "exploration",
            rule: RULE,
            real: &[
                "repe::peer::PeerRegistry (working tree)",
                "repe::websocket_server::WebSocketServer and its WsPeerSink, accept loop and connection tasks (working tree; family c18_ws_broadcast)",
                "tokio runtime/sync/time (current_thread, paused clock), tokio-tungstenite / tungstenite",
                "serde_json, beve",
            ],
            stub: &[
                "thread scheduler (simkernel baton, seeded)",
                "clock (discrete-event; tokio paused clock in the WebSocket family)",
                "std::sync Mutex/Condvar/RwLock/mpsc in the hooked modules (simkernel wrappers over the std primitives)",
                "TCP sockets and listeners (simulated byte pipes with capacity, delay, FIN/RST, short I/O) in the WebSocket family; capturing PeerSink stubs in c18_seq/c18_conc",
                "HashMap hasher (fixed keys)",
            ],
            assumptions: &["linearizability search is bounded to <= 4 threads x 4 operations per history"],
            expected_probes: &["concurrent_history_checked", "sequential_history_checked", "broadcast_hit_full_queue"],
        },
        "C14" => Meta {
            level: "exploration",
            rule: RULE,
            real: &["repe::registry::Registry / repe::peer::PeerRegistry (working tree)", "serde_json"],
            stub: STUB_KERNEL,
            assumptions: &["linearizability search is bounded to <= 4 threads x 4 operations per history"],
            expected_probes: &["concurrent_history_checked", "sequential_history_checked"],
        },
        _ => Meta {
            level: match prop {
                "C02" | "C05" | "C06" | "C10" | "C15" | "C19" => "fault_enumeration",
                _ => "exploration",
            },
            rule: RULE,
            real: &[
                "all of /repo/src from the working tree (clients, servers, fleets, value_stream, websocket)",
                "tokio runtime/sync/time (current_thread, paused clock)",
                "tokio-tungstenite / tungstenite",
                "zstd, beve, serde_json",
            ],
            stub: &[
                "thread scheduler (simkernel baton, seeded)",
                "clock (discrete-event; tokio paused clock in async runs)",
                "std::sync Mutex/Condvar/RwLock/mpsc and std::thread in the hooked modules",
                "TCP sockets and listeners (simulated byte pipes with capacity, delay, FIN/RST, short I/O)",
                "blocking pool (spawn_blocking redirected to simulated threads; optional pool-size limit with FIFO queueing)",
                "available_parallelism, HashMap hasher",
            ],
            assumptions: &[
                "the simulated socket follows Linux TCP semantics as listed in DESIGN.md 2.2",
                "the independent frame codec in the harness encodes the REPE v1 layout correctly",
            ],
            expected_probes: match prop {
                "C15" => &["exit_with_offreader_handler_parked", "exit_from_inside_inline_handler", "exit_with_outbound_backlog", "parked_handler_saw_cancellation", "connect_notifies_preceded_first_response"],
                "C16" => &["saturation_reached", "slot_refilled_after_exit", "handler_panicked"],
                "C17" => &["oversized_response_replaced", "oversized_notify_dropped", "oversized_client_message_refused", "response_at_the_boundary_delivered"],
                "C05" => &["torn_frame_on_wire", "multi_frame_stream"],
                "C06" => &["calls_in_flight_at_fault", "cancel_landed_mid_send", "late_response_sent"],
                _ => &[],
            },
        },
    }
}
