//! Wing–Gong style linearizability search with memoisation over
//! (set of linearised operations, model state). Histories are small (<= 16 ops).
//!
//! Invoke/return stamps come from a global event counter bumped while holding the
//! simulation baton, so they are totally ordered and never tie.

use std::collections::HashSet;

pub trait SeqModel: Clone {
    type Op;
    type Ret: PartialEq + std::fmt::Debug;
    fn apply(&mut self, op: &Self::Op) -> Self::Ret;
    /// Canonical fingerprint of the state (memo key).
    fn fingerprint(&self) -> String;
}

pub struct Completed<O, R> {
    pub thread: usize,
    pub op: O,
    pub ret: R,
    pub invoke: u64,
    pub ret_at: u64,
}

/// Returns a witness order (indices into `hist`) if the history is linearizable.
pub fn linearize<M: SeqModel>(init: &M, hist: &[Completed<M::Op, M::Ret>]) -> Option<Vec<usize>> {
    let n = hist.len();
    assert!(n <= 24, "history too long for the linearizability search");
    let mut memo: HashSet<(u32, String)> = HashSet::new();
    let mut order = Vec::with_capacity(n);
    fn go<M: SeqModel>(
        state: &M,
        done: u32,
        hist: &[Completed<M::Op, M::Ret>],
        memo: &mut HashSet<(u32, String)>,
        order: &mut Vec<usize>,
    ) -> bool {
        let n = hist.len();
        if done.count_ones() as usize == n {
            return true;
        }
        if !memo.insert((done, state.fingerprint())) {
            return false;
        }
        // earliest return among pending ops bounds which ops may go next
        let min_ret = (0..n).filter(|i| done & (1 << i) == 0).map(|i| hist[i].ret_at).min().unwrap();
        for i in 0..n {
            if done & (1 << i) != 0 {
                continue;
            }
            // `i` may be linearised next only if no pending op returned before `i` was invoked
            if hist[i].invoke > min_ret {
                continue;
            }
            let mut s = state.clone();
            let r = s.apply(&hist[i].op);
            if r == hist[i].ret {
                order.push(i);
                if go(&s, done | (1 << i), hist, memo, order) {
                    return true;
                }
                order.pop();
            }
        }
        false
    }
    if go(init, 0, hist, &mut memo, &mut order) { Some(order) } else { None }
}

/// Global stamp source (reset per case).
pub struct Stamps(std::sync::atomic::AtomicU64);
impl Stamps {
    pub fn new() -> Self {
        Stamps(std::sync::atomic::AtomicU64::new(1))
    }
    pub fn next(&self) -> u64 {
        self.0.fetch_add(1, std::sync::atomic::Ordering::SeqCst)
    }
}
