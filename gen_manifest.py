#!/usr/bin/env python3
"""Regenerate MANIFEST.json from the table below (kept next to the harness so the two do not drift)."""
import json, subprocess

HOOK_COMMITS = subprocess.run(["git","-C","/repo","log","--format=%H %s","--grep=^verif hook"],capture_output=True,text=True).stdout.strip().splitlines()

CHECKS = {
 "C01": ("exploration","3/C01",
   "Scoped claim (DESIGN.md 3/C01): one logical message - every header field over boundary classes and random values (version, notify, reserved bits, id, unknown format codes, ec), query and body 0..64 KiB incl. empty, body Vec capacity below / equal / above the in-place threshold 48+query+body - is emitted through every route (to_vec, write_to, into_wire_bytes, write_message, write_message_streaming with junk length fields, write_message_typed_slice / _complex_slice vs. the owned builder routes, write_message_async) into sinks that accept short writes and return EINTR / Pending, and read back (from_slice, MessageView::from_slice_exact, read_message, read_message_into and the async twins) from sources that deliver 1..n bytes and EINTR / Pending; every output must equal the independent layout oracle byte for byte and every parsed field must equal the input; the interop fixtures are decoded by the oracle and re-emitted by every route. On the simulated wire, AsyncClient::forward_message requests (arbitrary ids, format codes, notify) and blocking Server / AsyncServer responses whose format codes, query and body a handler dictated are tapped and compared with the concatenated oracle encodings.",
   "the layout itself is a pure function: what the simulation adds is the faulting sink/source seam and the live-endpoint taps; the field-value sweep is seeded input generation riding on the same oracle and is not counted as schedule exploration. WebSocket endpoints frame through into_wire_bytes, covered by the route sweep and by the one-whole-frame-per-message oracles of C05/C15-C17.",
   "deterministic simulation: fault-injecting Read/Write/AsyncRead/AsyncWrite seams + wire taps vs. independent layout oracle"),
 "C02": ("fault_enumeration","3/C02",
   "Hostile byte strings (random up to 4 KiB, structured mutations of valid frames, the three 64-bit length fields over boundary classes including wrapping and saturating sums) are fed to Header::decode, Message/MessageView::from_slice(_exact), read_message, read_message_into and the async twins through a reader seam that chunks, injects EINTR / spurious Pending and truncates at a seeded byte position; a hostile peer on the simulated network sends the same bytes to the real blocking Server, the real AsyncServer and (inside WebSocket binary messages) the real WebSocketServer (then a healthy connection must still be served) and, as a server, to the real blocking Client, AsyncClient and WebSocketClient with calls in flight. Oracle: the independent codec's verdict in 128-bit arithmetic (acceptance, returned payload bytes, bytes consumed), catch_unwind for panics, and worker-process death attributed to the journalled case for aborts.",
   "declared sizes for stream readers are <= 16 MiB or >= 2^62 for the frame and for each payload (never in between), workers run under RLIMIT_AS so an impossible allocation fails the same way everywhere; panics that the tokio runtime catches inside spawned tasks are journalled by the panic hook and reported.",
   "deterministic simulation: hostile-peer + faulting-reader fault injection, independent-codec oracle, abort detection by process journal"),
 "C03": ("exploration","3/C03",
   "Pipelined request sequences (1-64 requests: valid/invalid version, every query-format code, non-UTF-8 queries, registered/unregistered/mounted paths, every built-in handler kind incl. the _blocking and middleware-wrapped ones, every body-format code with well-formed, malformed and empty bodies, notify 0/1) are sent by a raw scripted client over the simulated network (seeded chunking, delays, short I/O, thread schedules) to the real blocking Server, the real AsyncServer and the real WebSocketServer (inline routes on the reader task, _blocking routes off-reader on simulated threads; paused-clock tokio runtime) and compared with a routing/dispatch reference model: exactly one response per non-notify request in arrival order, none per notify, error code, echoed (or handler-chosen) query, body for deterministic handlers, user closure and middleware invocation counts; WebSocket inline responses in arrival order, off-reader ones as a multiset, also with finite off-reader caps, a slow consumer, and gated off-reader handlers released while the bounded outbound queue is full (every request still gets exactly one response); the WebSocketServer's responses are additionally compared field by field with the AsyncServer's on the same sequence.",
   "handlers used for comparison are deterministic; notify flags are 0 or 1; registry/struct mounts are modelled only as far as C03 states (response, id, query, error class).",
   "deterministic simulation: seeded pipelined histories vs. routing reference model"),
 "C04": ("exploration","3/C04",
   "1-64 concurrent callers (threads on the blocking Client, tasks on the AsyncClient and the WebSocketClient) and batch_json calls on clones of one real client against a scripted server on the simulated network that answers in seeded (permuted) order and injects unknown-id and duplicated response frames, and (WebSocket) server-pushed notifies reusing an in-flight id that must reach only the notify subscriber; AsyncClient::forward_message pairs sharing a caller-supplied id (the second may be refused, nobody else may be disturbed); every scheduling point of register/write/receive/match/deliver is a seeded kernel decision, socket I/O is chunked, delayed and interrupted (short reads/writes, EINTR). Each call must return its own token, batches stay positionally aligned, request ids on a connection are distinct, nothing stays pending.",
   "simulated socket semantics (DESIGN.md 2.2); scripted peer written with the harness's independent codec.",
   "deterministic simulation: seeded schedules + scripted adversarial peer, per-call token oracle"),
 "C05": ("fault_enumeration","3/C05",
   "Up to 32 concurrent writers per connection (blocking Client, AsyncClient, WebSocketClient, blocking Server, AsyncServer, WebSocketServer with inline + off-reader responses, pushed notifies, broadcasts and tiny assumed peer limits) with payloads straddling the drawn socket capacity and BufWriter size, peer stalls (bounded and permanent), configured write timeouts, short writes, EINTR / spurious Pending, and callers abandoning an async call mid-send (future dropped at its k-th poll, or by an enclosing timeout); the wire tap of everything the endpoint wrote must be complete frames with self-describing bodies, optionally followed by a prefix of one frame and then nothing; on WebSocket connections every binary message must be exactly one whole frame with its own body.",
   "wire-tap oracle uses patterned bodies (a body byte is a function of the writer and offset) so foreign bytes inside a frame are recognisable; simulated socket semantics.",
   "deterministic simulation: fault injection (stall, write timeout, short I/O) + wire-tap stream-shape oracle"),
 "C06": ("fault_enumeration","3/C06",
   "0-16 calls in flight on the blocking Client, the AsyncClient and the WebSocketClient (with and without per-call timeouts; WebSocket: Close frame, FIN, RST, text message, malformed REPE frame, WebSocket garbage, and a notify subscriber that must see end-of-stream) while the scripted server closes (FIN), resets, sends each kind of malformed header or cuts a response at each byte-offset class, before/after reading requests; timeouts racing response delivery at deadline-1ms..+50ms on the simulated clock; on the AsyncClient and WebSocketClient additionally cancellation of a call at its k-th poll (k = 1..6) or by an enclosing timeout. Every in-flight and later call must return (a hang is a kernel deadlock report), late responses are dropped, unrelated calls get their own reply, no pending entry remains.",
   "the peer always drains what the client writes (peer stalls belong to C05); simulated socket semantics.",
   "deterministic simulation: connection-fault enumeration x seeded schedules, deadlock detection on the simulated clock"),
 "C19": ("fault_enumeration","3/C19",
   "Real Fleet and AsyncFleet (retry delay and call timeouts on the simulated clock) against scripted nodes that emit per-attempt outcome sequences over {refused, accepted-then-closed (FIN or RST), closed-while-idle, silent-until-timeout (the connection either keeps working afterwards or stays open and is never answered again), malformed reply, application error, success} of length up to max_attempts+2 for max_attempts 1..3, then turn healthy; both orders of 'reader notices the close' vs 'caller writes' come from the seeded scheduler. Oracle from the node's own log: requests per call <= max_attempts, no retry after a reply, the reply (or an error) is what the call returns, and a healthy-phase call succeeds (not wedged). Broadcasts over tag subsets of up to 4 nodes address exactly the nodes carrying all tags, one result each.",
   "simulated socket semantics (write after local shutdown = BrokenPipe, connect without listener = ConnectionRefused, both validated against Linux); a malformed reply may or may not be retried (the property leaves it open) but must not wedge the node.",
   "deterministic simulation: scripted fault sequences x seeded schedules, node-log oracle, recovery (liveness) check after faults stop"),
 "C09": ("exploration","3/C09",
   "Real SVS producers of every kind (value, typed array, complex array, reader, writer; payload lengths on every chunk-boundary residue, chunk sizes 1..1000 bytes, channel depths 0..8, none/zstd) run on the real Server with the producer thread, the bounded channel, the connection thread and the puller all under seeded schedules (plus seeded sleeps inside reader/writer producers). A raw scripted client speaks /_svs/open, next, cancel and checks: concatenated chunks equal the producer's logical bytes (after an independent zstd decode), exactly one final marker on the final chunk, empty payload = one empty final chunk, next past the end / after cancel is an error, a producer failure surfaces as an error and never as an end marker; a cancel from a second connection that lands while a next is parked in a slow producer is final; the same raw protocol is spoken by a raw WebSocket peer to the WebSocketServer (next off-reader) with a cancel pipelined right behind a parked next on the same connection; pull_to_vec, pull_value, pull_typed_slice, pull_complex_slice and pull_consume over the real Client, and their _async forms over the real AsyncClient (producer on the blocking Server) and the real WebSocketClient (producer on the WebSocketServer, /_svs/next off-reader; decoder on a simulated thread fed through tokio's bounded channel) must return exactly the original.",
   "payloads up to 64 KiB.",
   "deterministic simulation: seeded producer/consumer schedules, stream-reassembly oracle"),
 "C10": ("fault_enumeration","3/C10",
   "pull_to_file, pull_to_beve_file, pull_to_beve_zst_file and pull_to_file_trailer_verified against a real or scripted SVS producer with: producer failure at chunk boundaries +-1 byte, connection cut/reset/error reply/missing final marker after the k-th response, rejecting verifier, trailer longer than the stream, rename failure, and a simulated kill (the puller thread frozen, no destructor runs) at a seeded scheduling point or exactly at each commit-path probe (created, before_sync, synced, before_rename, after_rename); destination absent or pre-existing; the async forms (pull_to_file_async, _verified_async, _trailer_verified_async over AsyncClient and WebSocketClient) additionally with the pull future abandoned at its k-th poll and all connections reset mid-transfer, the destination sampled at every commit-path probe and every simulated millisecond. Oracle on the real files: Ok => complete content and the temp file's length at rename equals its length at the last sync_all; Err or kill => destination byte-for-byte what it was (or complete iff the rename had been reached), no .svspart left after an in-process failure.",
   "files are real (tmpfs private directory): torn writes / ENOSPC inside io::copy are not injected; durability is judged by the probe sequence (sync_all before rename with unchanged length), not by a simulated page cache.",
   "deterministic simulation: crash-point and fault enumeration over the commit path, file-state oracle"),
 "C15": ("fault_enumeration","3/C15",
   "Real WebSocketServer (tokio paused clock, off-reader handlers on simulated threads) with two connect hooks, a handshake-aware hook, two disconnect hooks and an attached PeerRegistry, serving 1-32 connections through serve_listener_with_shutdown, serve_listener_with_graceful_drain (seeded drain deadline), an embedder accept loop (accept_with_handshake + serve_connection_with_cancel_and_handshake) and adopt_upgraded + serve_connection. Every connection draws a phase (idle, inline handler running, off-reader handler parked at a gate, outbound backlog behind a non-reading peer, during connect callbacks) and an exit cause (clean Close, FIN, RST, WebSocket protocol violation: reserved opcode / unmasked frame / text / oversize, malformed REPE frame of 4 kinds, inline-handler panic, connect-callback panic, survive until the run-level event: embedder ShutdownToken cancel, graceful drain with uncooperative parked handlers, client close); a fraction of handshakes fail (wrong path, garbage, EOF mid-handshake). Oracle: per accepted peer each hook exactly once and in order, none for failed handshakes, registry presence observed inside the hooks (present before the remove hook, peer and alias absent after), registry empty at the end, connect-callback notifies precede every response on the tapped wire, handlers released after their connection ended see is_cancelled() == true, every peer's disconnect hooks ran within 30 simulated seconds of the run-level event.",
   "the harness's raw peer bounds its own sends (2 s) so a server that has stopped reading cannot wedge the scenario; phases 'inline handler running' and 'during connect callbacks' are realised by the handler/hook itself triggering the cause (reset, panic), since nothing else can run while an inline handler holds the single runtime thread.",
   "deterministic simulation: exit-cause x phase x serving-mode fault enumeration, hook-log oracle"),
 "C16": ("exploration","3/C16",
   "Real WebSocketServer with with_offreader_limit 1..16 and unlimited; _blocking routes (ctx and plain, optionally behind a forwarding middleware) run on simulated threads and park at a harness gate. Up to 4x cap pipelined gated requests and notifies interleaved with inline requests, then a barrier request; handlers are released in seeded orders with return / error / panic exits; after each exit one more gated request is sent and must be admitted, and an inline request sent while the cap is full again must be answered. Oracle: handlers running == the first cap gated messages, running gauge never above the cap, requests at the cap answered ResourceExhausted before any release, notifies at the cap never run, inline requests answered during saturation, exactly one response per request (panic => InternalError with the id), Saturation / HandlerPanic reports counted, connection still open at the end.",
   "outbound capacity stays above the in-flight count, so blocking_send never parks here (the full-queue phase is exercised in C15).",
   "deterministic simulation: seeded release orders / exits of gated handlers on simulated threads, admission model"),
 "C17": ("exploration","3/C17",
   "Assumed peer frame limits 1 KiB..1 MiB and none, message sizes limit-2..limit+2 plus random, on each outbound path: inline response, off-reader response, handler-pushed notify, registry broadcast (real WebSocketServer, raw tungstenite peer with unlimited inbound), proxy-forwarded response (proxy_connection_with_limits over a real AsyncClient<->AsyncServer hop), client request and client notify (real WebSocketClient against a recording raw server). Oracle: the largest binary message observed never exceeds the limit; an oversized response arrives as InternalError with the same id; an oversized notify is absent and reported as OutboundTooLarge; an oversized client send fails with MessageTooLarge and nothing reaches the wire; messages within the limit arrive byte-identical (patterned bodies); a follow-up call on the same connection succeeds.",
   "limits above 1 MiB are not exercised (cost); the simulated pipe is kept wide (>= 8 KiB) so that simulated transfer time does not bound the run.",
   "deterministic simulation: boundary-size sweep over 7 outbound paths on the simulated wire, size-tap oracle"),
 "C11": ("exploration","5.3/C11",
   "Seeded histories (systematic-size and long random) on the real TransferControl compared step by step with a credit model, plus the documented producer loop run against concurrent ack/advance/resume/cancel threads under seeded schedules; in-flight bound asserted after every send.",
   "simkernel Mutex/Condvar semantics; producer-side offsets < 2^56 and chunk lengths <= 2^48 (the property's bound); model written without repository code.",
   "deterministic simulation: seeded op histories + seeded thread schedules vs. reference model"),
 "C12": ("exploration","5.3/C12",
   "One real waiter parked in wait_for_credit / wait_for_reconnect with 1-3 signalling threads under seeded schedulers (sticky/random/PCT) and spurious wake-ups on the simulated clock; a monitor thread inspects the settled state at every quiescent instant: a parked waiter whose condition holds is a lost wake-up, a Timeout must land exactly on the deadline.",
   "simkernel Condvar faithfully models notify/wait (a notify only wakes registered waiters); discrete-event clock advances only at quiescence.",
   "deterministic simulation: seeded schedules over the real mutex/condvar protocol, quiescence oracle"),
 "C14": ("exploration","5.3/C14",
   "Seeded sequential histories (small scope and long random, direct Registry API and Router mounts with and without prefix) compared step by step with an independent RFC 6901 JSON-tree + callable-set model (whole-tree equality after every step, callable invocation log), plus 2-4 simulated threads x 1-4 concurrent requests under seeded schedules checked for linearizability (WGL search, event-sequence stamps).",
   "array index tokens are canonical decimal (no sign/leading zeros); only requests (read/write/call) run concurrently, registrations and merges stay in the sequential prefix; linearizability search bounded to 16 operations.",
   "deterministic simulation: seeded histories vs. reference model + linearizability check of simulated-thread histories"),
 "C18": ("exploration","5.3/C18",
   "Seeded sequential histories (<=3 peers x 3 keys small scope, and long random) on the real PeerRegistry compared step by step with a peer/alias model including every key's lookup and every peer's alias list after each step; capturing sinks (some reporting Full/Disconnected) check broadcast delivery and content; 2-4 simulated threads x 1-4 ops under seeded schedules checked for linearizability. On real peers: a WebSocketServer with the registry on the simulated network, 1-4 raw WebSocket peers that connect (handshake-derived aliases, keys shared and re-pointed), leave and join while json/beve/utf8/raw broadcasts and keyed sends run from the runtime thread or a simulated embedder thread; each peer's wire is compared with the broadcast's path, body bytes and format tag, the result map with the peers present, lookups/alias lists/len with the model after every step.",
   "PeerIds inserted into one registry are unique (documented contract); linearizability search bounded to 16 operations.",
   "deterministic simulation: seeded histories vs. reference model + linearizability check of simulated-thread histories"),
 "C13": ("exploration","5.3/C13",
   "Seeded push/evict/resume/advance/cancel/ack histories on the real replay ring against a retained-suffix model: resume decision, gapless byte-identical replay tail, bounded ring, newest chunk kept, advance empties.",
   "pushes are contiguous in the logical-offset domain (documented precondition).",
   "deterministic simulation: seeded op histories vs. reference model"),
}

NOT_APPLICABLE = [
 {"property_id":"C07","reason":"Pure function of (router configuration, request bytes): no schedule, clock, fault or interleaving can change its value; deciding it is differential input generation, not simulation (DESIGN.md section 4)."},
 {"property_id":"C08","reason":"Pure function of (element type, slice, query length, buffer address): encoding equality and cross-decoding involve no concurrency, time or fault (DESIGN.md section 4)."},
]
# properties that are planned but whose check is not registered yet are listed as not claimed
PENDING = {




}

checks=[]
for pid,(cat,ref,text,note,tech) in sorted(CHECKS.items()):
    checks.append({
      "property_id":pid,
      "quick_cmd":f"./check {pid} --tier quick",
      "thorough_cmd":f"./check {pid} --tier thorough",
      "evidence_file":f"/verif/evidence/{pid}.json",
      "replay_cmd_template":f"./check {pid} --replay {{path}}",
      "engine":"simcheck",
      "level_claimed":{"category":cat,"text":text,"design_ref":ref},
      "level_note":note,
      "technique":tech,
    })
na = list(NOT_APPLICABLE) + [{"property_id":k,"reason":"not claimed yet: "+v} for k,v in sorted(PENDING.items()) if k not in CHECKS]
m={
 "version":1,
 "setup_cmd":"cd /verif && ./check --build",
 "hooks":{
   "guard":"--cfg repe_verif",
   "enable":"RUSTFLAGS=\"--cfg repe_verif --cfg tokio_unstable\" via /verif/.cargo/config.toml; /verif/shadow/Cargo.toml builds /repo/src/lib.rs as package `repe` with the simkernel dependency",
   "baseline_off_cmd":"cd /repo && cargo nextest run --workspace --no-fail-fast --test-threads 8 --offline || cargo test --workspace --no-fail-fast --offline",
   "source_commits":[l.split()[0] for l in HOOK_COMMITS],
   "add_only":True,
 },
 "engines":[{"name":"simcheck","path":"/verif/harness","serves_properties":sorted(CHECKS.keys()),
   "kind_free_text":"deterministic simulation with fault injection: simkernel (baton scheduler over real OS threads, discrete-event clock, simulated sync primitives, sockets and blocking pool) + seeded scenario families, reference-model oracles, choice-list minimiser and replay"}],
 "checks":checks,
 "not_applicable":sorted(na,key=lambda x:x["property_id"]),
 "notes":"Exit codes: 0 held, 1 VIOLATION (replay file written under /verif/replays), 2 harness error (build failure, determinism-gate mismatch, replay that does not reproduce). VERIF_SEED selects the seed (default 1); SIMCHECK_SCALE scales run counts.",
}
json.dump(m,open("/verif/MANIFEST.json","w"),indent=1)
print("checks:",len(checks),"not_applicable:",len(na))
